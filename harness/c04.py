"""C04 — Annotations keep denoting the same residues through every view."""
from __future__ import annotations

import json

from .common import LEAN, SRC, VERIF, add_failure, bump, new_outcome

_add_failure = add_failure

PROP = "C04"
# Props/C04Gen.lean: the definitions GENERATED from the current python source (Gen/C04Feature.lean) equal the hand model
PROPS_FILES = ["CogentModel/Props/C04.lean", "CogentModel/Props/C04Gen.lean", "CogentModel/Props/C04GenSlice.lean"]
LEAN_TARGETS = ["CogentModel.Props.C04", "CogentModel.Props.C04Gen", "CogentModel.Props.C04GenSlice"]
DRIVER = "drv_c04"
GEN_FILE = LEAN / "CogentModel" / "Gen" / "C04Feature.lean"
GEN_SLICE_FILE = LEAN / "CogentModel" / "Gen" / "C04Slice.lean"


def _generate_feature(ctx):
    """translator tie: re-translate Sequence.get_features / make_feature / parent_coordinates (old and new module) and
    location._spans_from_locations / from_locations / FeatureMap.nucleic_reversed from the CURRENT source of the checked
    tree (VERIF_REPO is honoured through harness.common.SRC) into Gen/C04Feature.lean; Props/C04Gen.lean then proves
    every generated definition equal to the hand model for all arguments"""
    import sys

    if str(VERIF) not in sys.path:
        sys.path.insert(0, str(VERIF))
    from translator import c04_feature2lean as tr

    lean, info, problems = tr.translate(SRC)
    ctx.notes.append(f"c04_feature2lean: source tree {SRC}; statements translated {json.dumps(info)}")
    if problems or lean is None:
        # the last good generated file is kept so that the rest of the check still runs; the run is reported as broken
        ctx.notes.append("c04_feature2lean: translation problems -> Gen/C04Feature.lean left as it was (stale)")
        return [f"c04_feature2lean: {p}" for p in problems]
    if tr.write_if_changed(GEN_FILE, lean):
        ctx.notes.append("Gen/C04Feature.lean was rewritten (python source differs from the last generated text)")
    return []


def generate(ctx):
    """both translators: c04_feature2lean (get_features / make_feature / add_feature / location helpers -> Gen/C04Feature.lean)
    and c04_slice2lean (Feature.get_slice / _do_seq_slice, Sequence._mapped / gapped_by_map_segment_iter, old and new module
    -> Gen/C04Slice.lean; Props/C04GenSlice.lean proves the generated definitions equal to Model/FeatureSeq.lean)"""
    problems = list(_generate_feature(ctx))
    from translator import c04_slice2lean as ts

    lean, info, probs = ts.translate(SRC)
    ctx.notes.append(f"c04_slice2lean: source tree {SRC}; statements translated {json.dumps(info)}")
    if probs or lean is None:
        ctx.notes.append("c04_slice2lean: translation problems -> Gen/C04Slice.lean left as it was (stale)")
        return problems + [f"c04_slice2lean: {p}" for p in probs]
    if ts.write_if_changed(GEN_SLICE_FILE, lean):
        ctx.notes.append("Gen/C04Slice.lean was rewritten (python source differs from the last generated text)")
    return problems


TRUSTED = [
    "translator/c04_slice2lean.py (python ast -> Lean for Feature.get_slice / _do_seq_slice and Sequence._mapped / "
    "gapped_by_map_segment_iter, old and new module; conventions S1-S5 in its header) and its prelude "
    "Model/FeatureSliceGenPrelude.lean (FeatureMap accessors complete / without_gaps / num_spans / start / end, C01's str(self[a:b]) "
    "as strSlice, rc(), the two Sequence constructors incl. the new-style offset guard): Gen/C04Slice.lean is proved equal to the "
    "hand model Model/FeatureSeq.lean (getSlice / getSliceContig / getSliceNew) for all sequences and maps (Props/C04GenSlice.lean); "
    "Sequence.__getitem__'s dispatch of a map index to _mapped is not translated",
    "translator/c04_feature2lean.py (python ast -> Lean for get_features' window arithmetic and span conversion, make_feature, "
    "add_feature (with the inlined annotation_offset property), "
    "parent_coordinates, _spans_from_locations, from_locations, FeatureMap.nucleic_reversed; conventions B1-B5 in its header) "
    "and its prelude Model/FeatureGenPrelude.lean (numpy/list primitives): the output Gen/C04Feature.lean is proved equal to the "
    "hand model for all arguments (Props/C04Gen.lean, re-checked against freshly generated text every run); the hand model is "
    "tied to the python originals by the window / feature / makefeature / cliplocate / history correspondence streams",
    "hand-written model lean/CogentModel/Model/FeatureView.lean of Sequence.get_features / make_feature / "
    "_spans_from_locations / FeatureMap.nucleic_reversed / Feature.get_slice positions (one model: old and new Sequence "
    "carry the same code; both are run), Model/FeatureSeq.lean (get_slice residues on C01's Sequence wrapper) and "
    "Model/FeatureProject.lean (Aligned.make_feature = inverse()[feature.map], on C08's FeatureMap model), on top of "
    "C01's Model/View.lean",
    "Spec/FeatureView.lean (absolute plus-strand positions of spans restricted to the retained segment), validated "
    "against the Python oracle each run",
    "C08's FeatureMap model Model/FMap.lean (inverse, __getitem__) is tied to location.py by C08's own correspondence; "
    "C04 additionally compares FMap.project with Aligned.make_feature on generated gapped alignments",
]
ASSUMPTIONS = [
    "strided views (|step| > 1): feature_on_strided_forward/reversed_view give the feature map and the residues; WHICH features a query returns on a strided view is only checked one way (every feature with a shown residue is returned)",
    "feature spans are as the annotation db stores them (C17 add_feature normalisation): 0 <= start < end, ordered by start",
    "which features a query returns is decided on the db hull (start/stop extremes of the spans), C17's semantics",
    "feature_on_view models str(self[a:b]) for an in-view span as str(self)[a:b] (C01 str_getitem); "
    "Sequence._mapped / constructors are exercised, not modelled",
    "projection_denotes assumes the aligned row contains every residue of the feature (true for a row of the whole "
    "sequence); the own-row slice of alignment features is exercised against a column oracle",
    "Sequence.add_feature on views is modelled whole (Model/FeatureAdd.lean addFeature: db record + returned Feature), translated "
    "(GenOld/GenNew.addFeature, gen_addFeature_old_eq / _new_eq) and tied by the addfeature / addfeature_full correspondences; the "
    "db record is compared after the db's own normalisation (sorted(sorted(coords))); python's sorted() of 2-tuples is the prelude's "
    "insertion sort sortRows (a total order: every correct sort gives the same list)",
    "the contiguous form get_slice(allow_gaps=True) is modelled (getSliceContig), translated (gen_getSlice_contig_eq) and composed "
    "with featureOnView for features with pairwise disjoint spans (contiguous_positions_on_view / contiguous_feature_on_view; spec "
    "denoteContig validated against an independent oracle and against the residues really returned); get_slice(complete=True) on a "
    "partly retained feature raises ValueError by design (gen_getSlice_complete_eq; checked as the form complete-partial); "
    "as_one_span / shadow / without_lost_spans are not exercised",
    "translator conventions (c04_slice2lean S1-S5): attribute assignments on the result (annotation_db = None) and name / info / moltype "
    "/ check constructor arguments are not modelled, LostSpan.terminal reads false (only reachable with allow_gaps=True, which "
    "_mapped never passes), str(self[a:b]) for an in-view span is str(self)[a:b] (C01 str_getitem)",
    "translator conventions (c04_feature2lean B1-B5): min/max of an empty array = 0, a missing strand reads as '+', numpy views are copied, "
    "Span's length >= 0 assertion and the `_annotation_db is None` guard of get_features are not modelled",
    "get_slice() of new-style Sequences differs from the model whenever the SeqView carries an offset "
    "(new_sequence.Sequence._mapped single-span branch; open finding): the 'one model for old and new' claim does not "
    "hold for _mapped",
    "makeFeature on the EMPTY span list returns an empty feature where the code raises ValueError (numpy min of an empty "
    "array); the db refuses empty span lists, so no db record reaches it; the direct make_feature stream leaves it out",
    "non-nucleic (protein) sequences are covered by feature_on_forward_view_any_moltype but not exercised by the harness",
]

COMP = str.maketrans("ACGTacgt", "TGCAtgca")


def rc(s):
    return s.translate(COMP)[::-1]


# --------------------------------------------------------------------------
# real objects
# --------------------------------------------------------------------------
def mk_seq(kind, text, offset, name="s"):
    if kind == "old":
        import cogent3

        return cogent3.make_seq(text, name=name, moltype="dna", annotation_offset=offset)
    from cogent3.core import new_moltype

    return new_moltype.get_moltype("dna").make_seq(seq=text, name=name, annotation_offset=offset)


class RecDb:
    """delegating wrapper that records the window sent to the annotation db"""

    def __init__(self, inner):
        self.inner = inner
        self.calls = []

    def get_features_matching(self, **kw):
        self.calls.append({k: (int(v) if k in ("start", "stop") and v is not None else v) for k, v in kw.items()})
        return self.inner.get_features_matching(**kw)

    def __getattr__(self, name):
        return getattr(self.inner, name)


def apply_op(seq, op):
    k = op[0]
    if k == "s":
        return seq[slice(op[1], op[2], op[3] if len(op) > 3 else None)]
    if k == "rc":
        return seq.rc()
    if k == "copy":
        return seq.copy(sliced=op[1])
    if k == "deepcopy":
        import copy

        return copy.deepcopy(seq)
    raise ValueError(k)


def apply_op_spec(state, op):
    """state = (p0, p1, rev) : retained absolute plus-strand segment and orientation"""
    p0, p1, rev = state
    k = op[0]
    if k == "s":
        L = p1 - p0
        a, b, _ = slice(op[1], op[2], None).indices(L)
        b = max(a, b)
        return (p1 - b, p1 - a, rev) if rev else (p0 + a, p0 + b, rev)
    if k == "rc":
        return (p0, p1, not rev)
    return state


def view_json(seq):
    v = seq._seq
    return dict(start=int(v.start), stop=int(v.stop), step=int(v.step), offset=int(v.offset), seq_len=int(v.seq_len))


# --------------------------------------------------------------------------
# generators
# --------------------------------------------------------------------------
def gen_case(rng, kind=None, strided=False):
    n = rng.choice([8, 10, 12, 16, 20, 30])
    text = "".join(rng.choice("ACGT") for _ in range(n))
    offset = rng.choice([0, 0, 3, 7])
    # the first slice fixes the segment whose boundaries the spans are built around
    a = rng.randint(0, n // 2)
    b = rng.randint(a + 2, n)
    ops = [["s", a, b]]
    for _ in range(rng.randint(0, 4)):
        r = rng.random()
        L = 6
        if r < 0.3:
            ops.append(["rc"])
        elif r < 0.45:
            ops.append(["copy", rng.random() < 0.5])
        elif r < 0.5:
            ops.append(["deepcopy"])
        else:
            x = rng.choice([None, 0, 1, 2, -1, -2, 3])
            y = rng.choice([None, -1, -2, 4, 5, 8, 40])
            ops.append(["s", x, y])
    if strided:
        ops.insert(rng.randint(1, len(ops)), ["s", None, None, rng.choice([2, 3])])
    if rng.random() < 0.15:
        ops = ops[1:]  # sometimes the whole parent
    edges = sorted({0, n, a, b, a - 1, a + 1, b - 1, b + 1, a + 2, b - 2} & set(range(0, n + 1)))
    feats = []
    for i in range(rng.randint(1, 5)):
        k = rng.choice([1, 1, 2, 3])
        pts = set()
        while len(pts) < 2 * k:
            pts.add(rng.choice(edges) if rng.random() < 0.7 else rng.randint(0, n))
        pts = sorted(pts)
        spans = [[pts[2 * j] + offset, pts[2 * j + 1] + offset] for j in range(k)]
        feats.append(dict(name=f"f{i}", biotype=rng.choice(["gene", "cds"]), strand=rng.choice(["+", "-"]), spans=spans))
    case = dict(kind=kind or rng.choice(["old", "new"]), text=text, offset=offset, ops=ops, feats=feats)
    # ORDER of operations: the features may reach the parent's annotation db only AFTER some views exist (the db is
    # shared by reference through slices and rc; copies detach, so the late point is never after a copy op)
    lead = 0
    while lead < len(ops) and ops[lead][0] in ("s", "rc"):
        lead += 1
    if lead and rng.random() < 0.35:
        case["add_at"] = rng.randint(1, lead)
        case["add_how"] = rng.choice(["db", "db", "root.add_feature"])
    return case


def _gff_db(case):
    """the case's features written as GFF3 (multi-row features in ascending or DESCENDING coordinate order) and
    loaded block-wise (`lines_per_block`), so that one ID's rows straddle block boundaries"""
    import shutil
    import tempfile
    from pathlib import Path

    from cogent3.core.annotation_db import load_annotations

    g = case["gff"]
    lines = ["##gff-version 3"]
    for f in case["feats"]:
        spans = sorted(f["spans"], reverse=g["order"] == "desc")
        for a, b in spans:
            lines.append("\t".join(["s", "src", f["biotype"], str(a + 1), str(b), ".", f["strand"], ".", f"ID={f['name']}"]))
    lines.append("\t".join(["other", "src", "gene", "1", str(len(case["text"])), ".", "+", ".", "ID=alien"]))
    d = Path(tempfile.mkdtemp(prefix="verif_c04_gff_"))
    try:
        p = d / "f.gff3"
        p.write_text("\n".join(lines) + "\n")
        return load_annotations(path=p, lines_per_block=g["lpb"])
    finally:
        shutil.rmtree(d, ignore_errors=True)


def _add_feats(root, case):
    off = case["offset"]
    for f in case["feats"]:
        if case.get("add_how") == "root.add_feature":
            # the user-facing entry on the (forward, un-sliced) parent: spans in ITS coordinates
            root.add_feature(biotype=f["biotype"], name=f["name"], spans=[(a - off, b - off) for a, b in f["spans"]], strand=f["strand"])
        else:
            root.annotation_db.add_feature(seqid="s", biotype=f["biotype"], name=f["name"], spans=[tuple(s) for s in f["spans"]], strand=f["strand"])
    # a feature on another sequence id must never be returned
    root.annotation_db.add_feature(seqid="other", biotype="gene", name="alien", spans=[(0, len(case["text"]))], strand="+")


def build(case):
    root = seq = mk_seq(case["kind"], case["text"], case["offset"])
    add_at = 0 if case.get("gff") else case.get("add_at", 0)
    if case.get("gff"):
        seq.replace_annotation_db(_gff_db(case), check=False)
    elif add_at == 0:
        _add_feats(root, case)
    state = (case["offset"], case["offset"] + len(case["text"]), False)
    for i, op in enumerate(case["ops"]):
        seq = apply_op(seq, op)
        state = apply_op_spec(state, op)
        if add_at == i + 1:
            # the views made so far hold a reference to the parent's db: they must see what is added now
            _add_feats(root, case)
    return seq, state


def oracle_slice(case, f, state):
    """residues of the feature retained by the view, read on the feature's strand"""
    p0, p1, _ = state
    off = case["offset"]
    s = "".join(case["text"][max(a, p0) - off : min(b, p1) - off] for a, b in sorted(f["spans"]) if max(a, p0) < min(b, p1))
    return rc(s) if f["strand"] == "-" else s


def oracle_contig(case, f, state):
    """the contiguous form: the parent segment from the first to the last retained position of the feature, read on the
    feature's strand ('' when nothing is retained)"""
    p0, p1, _ = state
    off = case["offset"]
    kept = [(max(a, p0), min(b, p1)) for a, b in sorted(f["spans"]) if max(a, p0) < min(b, p1)]
    if not kept:
        return ""
    s = case["text"][kept[0][0] - off : kept[-1][1] - off]
    return rc(s) if f["strand"] == "-" else s


def oracle_positions(f, state):
    p0, p1, _ = state
    ps = [p for a, b in sorted(f["spans"]) for p in range(max(a, p0), min(b, p1))]
    return ps[::-1] if f["strand"] == "-" else ps


def windows(rng, case, state, L, limit):
    p0, p1, rev = state
    rel = set()
    for f in case["feats"]:
        for a, b in f["spans"]:
            for e in (a, b):
                r = (p1 - e) if rev else (e - p0)
                rel |= {r - 1, r, r + 1}
    rel = sorted({x for x in rel | {0, 1, L - 1, L} if 0 <= x <= L})
    pairs = [(a, b) for a in rel for b in rel if a < b]
    if len(pairs) > limit:
        pairs = rng.sample(pairs, limit)
    out = [(None, None)] + pairs
    # the same windows written with negative indices / None
    for a, b in pairs[:4]:
        if 0 < a and b < L:
            out.append((a - L, b - L))
        if b == L:
            out.append((a, None))
    return out


def abs_window(state, L, a, b):
    p0, p1, rev = state
    a = 0 if a is None else a + L if a < 0 else a
    b = L if b is None else b + L if b < 0 else b
    return (p1 - b, p1 - a) if rev else (p0 + a, p0 + b)


def touches(case, state, f):
    p0, p1, _ = state
    return any(b == p0 or a == p1 for a, b in f["spans"])


def touch_class(case, state, feats):
    p0, p1, _ = state
    ends_at_start = any(b == p0 for f in feats for a, b in f["spans"])
    starts_at_end = any(a == p1 for f in feats for a, b in f["spans"])
    return "span-ends-at-view-start" if ends_at_start else "span-starts-at-view-end" if starts_at_end else "no-boundary-touch"


# --------------------------------------------------------------------------
# every way of READING a feature that a query returned (not only the default get_slice())
# --------------------------------------------------------------------------
def feature_forms(view, f, want_spliced, want_contig, fully_retained, kind=None, partly=False):
    """[(form, want, got)] for the other observation forms of one feature bound to `view`:
    `get_slice(allow_gaps=True)` -- the CONTIGUOUS segment from the first to the last retained position, read on the
    feature's strand like the spliced form; `view[feature]` -- the spliced form; `get_slice(complete=True)` -- the
    spliced form when the whole feature is retained.  (The new-style offset guard of the open finding
    C04-new-sequence-feature-slice-offset-guard is passed over, as for the default form.)"""
    out = []
    forms = [("allow_gaps", want_contig, lambda: f.get_slice(allow_gaps=True)), ("view[feature]", want_spliced, lambda: view[f])]
    if fully_retained:
        forms.append(("complete", want_spliced, lambda: f.get_slice(complete=True)))
    elif partly and want_spliced:
        # documented ("if feature not complete on parent, causes an exception to be raised") and proved on the translated
        # code (gen_getSlice_complete_eq): a partly retained feature raises ValueError('gap(s) in map ...')
        forms.append(("complete-partial", "raised ValueError: gap(s) in map", lambda: f.get_slice(complete=True)))
    for form, want, call in forms:
        try:
            got = call()
            got = got.to_dict() if isinstance(want, dict) else str(got)
        except Exception as e:  # noqa: BLE001
            got = f"raised {type(e).__name__}: {e}"
            if kind == "new" and "cannot set offset" in got:
                continue
            if form == "complete-partial" and got.startswith(want):
                got = want
        out.append((form, want, got))
    return out


# --------------------------------------------------------------------------
# one case vs the oracle
# --------------------------------------------------------------------------
def run_case(case, rng=None, out=None, win_limit=12, wins=None):
    fails = []
    try:
        seq, state = build(case)
    except Exception as e:  # noqa: BLE001
        return [("building the view raised", dict(case=case), "a view", repr(e), f"build:{type(e).__name__}")]
    p0, p1, rev = state
    L = p1 - p0
    want_str = case["text"][p0 - case["offset"] : p1 - case["offset"]]
    want_str = rc(want_str) if rev else want_str
    stride = abs(seq._seq.step)
    if any(op[0] == "s" and len(op) > 3 and op[3] not in (None, 1) for op in case["ops"]):
        stride = max(stride, 2)  # the plain-segment oracle does not follow strided histories (even if they end empty)
    if stride == 1 and str(seq) != want_str:
        return [("view string differs from the plain-string history (C01 territory)", dict(case=case), want_str, str(seq), "view-string")]
    if stride != 1:
        L = len(seq)
    if L == 0:
        return []
    byname = {f["name"]: f for f in case["feats"]}
    if wins is None:
        wins = windows(rng, case, state, L, win_limit) if stride == 1 else [(None, None)]
    flavour = ("rev" if rev else "fwd") + ("" if stride == 1 else ":strided")
    for a, b in wins:
        for ap in (True, False):
            kw = dict(allow_partial=ap)
            if a is not None:
                kw["start"] = a
            if b is not None:
                kw["stop"] = b
            qa, qb = abs_window(state, L, a, b) if stride == 1 else (p0, p1)
            hull = lambda f: (min(s for s, _ in f["spans"]), max(e for _, e in f["spans"]))
            if ap:
                expect = [f for f in case["feats"] if hull(f)[0] < qb and qa < hull(f)[1]]
            else:
                expect = [f for f in case["feats"] if qa <= hull(f)[0] and hull(f)[1] <= qb]
            inp = dict(case=case, window=[a, b], allow_partial=ap)
            if out is not None:
                out["evaluations"] += 1
                bump(out, "view", flavour)
                bump(out, "expected_features", min(len(expect), 4))
            try:
                got = list(seq.get_features(**kw))
            except Exception as e:  # noqa: BLE001
                cls = touch_class(case, state, expect)
                fails.append((
                    f"get_features raised {type(e).__name__}", inp, sorted(f["name"] for f in expect), f"{type(e).__name__}: {e}",
                    f"raise:{type(e).__name__}:{cls}:{flavour}:{'partial' if ap else 'within'}",
                ))
                continue
            names = sorted(f.name for f in got)
            if stride != 1:
                # strided views (feature_on_strided_*_view): a feature denotes the SHOWN positions lying in its spans.
                # Checked: every returned feature spells exactly those residues; with allow_partial every feature
                # with at least one shown residue is returned.  (Which residue-free features come back is not claimed.)
                bump(out, "strided_returned", min(len(names), 4)) if out is not None else None
                sv = seq._seq
                shown = [sv.offset + (i if i >= 0 else i + sv.seq_len) for i in range(sv.start, sv.stop, sv.step)]
                off = case["offset"]
                disp = "".join(case["text"][p - off] for p in shown)
                if str(seq) != (disp.translate(COMP) if sv.step < 0 else disp):
                    fails.append(("strided view string differs from its shown positions (C01 territory)", inp, disp, str(seq), "view-string:strided"))
                    continue
                plus = sorted(shown)
                wanted = {}
                for spec in case["feats"]:
                    ps = [p for x, y in sorted(spec["spans"]) for p in plus if x <= p < y]
                    w = "".join(case["text"][p - off] for p in ps)
                    wanted[spec["name"]] = rc(w) if spec["strand"] == "-" else w
                for f in got:
                    try:
                        s_ = str(f.get_slice())
                    except Exception as e:  # noqa: BLE001
                        s_ = f"raised {type(e).__name__}: {e}"
                        if "cannot set offset" in s_ and case["kind"] == "new":
                            continue
                    if s_ != wanted[f.name]:
                        fails.append(("on a strided view feature.get_slice() differs from the shown residues inside its spans",
                                      dict(inp, feature=byname[f.name]), wanted[f.name], s_,
                                      f"slice:{flavour}:{byname[f.name]['strand']}"))
                        continue
                    spec = byname[f.name]
                    ps = [p for x, y in sorted(spec["spans"]) for p in plus if x <= p < y]
                    wc = "".join(case["text"][p - off] for p in plus if ps and ps[0] <= p <= ps[-1])
                    wc = rc(wc) if spec["strand"] == "-" else wc
                    for form, want_f, got_f in feature_forms(seq, f, wanted[f.name], wc, False, case["kind"]):
                        if out is not None:
                            out["evaluations"] += 1
                            bump(out, "feature_form", form)
                        if got_f != want_f:
                            fails.append((f"on a strided view the feature read as {form} differs from the shown residues it denotes",
                                          dict(inp, feature=spec, form=form), want_f, got_f, f"form:{form}:{flavour}:{spec['strand']}"))
                if ap:
                    missing = sorted(k for k, w in wanted.items() if w and k not in names)
                    if missing:
                        fails.append(("on a strided view a feature with shown residues is not returned", inp, missing, names, f"set:{flavour}:missing"))
                continue
            if names != sorted(f["name"] for f in expect):
                fails.append(("get_features returned the wrong set of features", inp, sorted(f["name"] for f in expect), names,
                              f"set:{flavour}:{'partial' if ap else 'within'}"))
                continue
            for f in got:
                spec = byname[f.name]
                want = oracle_slice(case, spec, state)
                try:
                    s = str(f.get_slice())
                except Exception as e:  # noqa: BLE001
                    s = f"raised {type(e).__name__}: {e}"
                partial_in = len(want) < sum(e - s_ for s_, e in spec["spans"])
                if out is not None:
                    bump(out, "feature_vs_view", "partly-inside" if partial_in else "inside")
                    if partial_in or len(spec["spans"]) > 1 or rev:
                        out["nontrivial"].add((case["kind"], case["text"], json.dumps(case["ops"]), f.name, a, b, ap))
                if stride != 1:
                    continue  # strided views: only "does not raise / right set" is checked
                if s != want:
                    fails.append((
                        "feature.get_slice() differs from the parent residues the feature denotes on this view", dict(inp, feature=spec),
                        want, s, f"slice:{flavour}:{spec['strand']}:{'multi' if len(spec['spans']) > 1 else 'single'}:{'partly' if partial_in else 'inside'}",
                    ))
                    continue
                # the other ways of reading the same feature
                for form, want_f, got_f in feature_forms(seq, f, want, oracle_contig(case, spec, state), not partial_in, case["kind"], partly=partial_in):
                    if out is not None:
                        out["evaluations"] += 1
                        bump(out, "feature_form", form)
                        rel_rev = (spec["strand"] == "-") != rev
                        bump(out, "feature_form_orientation", "reversed relative to the view" if rel_rev else "same orientation as the view")
                    if got_f != want_f:
                        fails.append((f"the feature read as {form} differs from the residues it denotes on this view, read on its strand",
                                      dict(inp, feature=spec, form=form), want_f, got_f,
                                      f"form:{form}:{flavour}:{spec['strand']}:{'multi' if len(spec['spans']) > 1 else 'single'}"))
    return fails


# --------------------------------------------------------------------------
# alignments: features through gapped rows, projection
# --------------------------------------------------------------------------
def gen_aln_case(rng):
    n_cols = rng.choice([8, 10, 14])
    rows = {}
    for name in ("x", "y", "z"):
        row = "".join(rng.choice("ACGT") if rng.random() < 0.72 else "-" for _ in range(n_cols))
        if row.replace("-", "") == "":
            row = "A" + row[1:]
        rows[name] = row
    feats = []
    for name in ("x", "y"):
        L = len(rows[name].replace("-", ""))
        for i in range(rng.randint(1, 2)):
            k = rng.choice([1, 1, 2])
            if L < 2 * k:
                k = 1
            if L < 2:
                continue
            pts = sorted(rng.sample(range(0, L + 1), 2 * k))
            feats.append(dict(seqid=name, name=f"{name}{i}", strand=rng.choice(["+", "-"]), spans=[[pts[2 * j], pts[2 * j + 1]] for j in range(k)]))
    # the pinned cogent3 has no new-style Alignment class (new_alignment only has collections): old Alignment only
    return dict(rows=rows, feats=feats, array_align=False, new_type=False)


def build_aln(case):
    import cogent3

    if case.get("new_type"):
        from cogent3.core import new_alignment

        aln = new_alignment.make_aligned_seqs(case["rows"], moltype="dna")
    else:
        aln = cogent3.make_aligned_seqs(case["rows"], moltype="dna", array_align=False)
    if aln.annotation_db is None:
        from cogent3.core.annotation_db import BasicAnnotationDb

        aln.annotation_db = BasicAnnotationDb()
    for f in case["feats"]:
        aln.annotation_db.add_feature(seqid=f["seqid"], biotype="gene", name=f["name"], spans=[tuple(s) for s in f["spans"]], strand=f["strand"])
    return aln


def run_aln_case(case, out=None):
    fails = []
    try:
        aln = build_aln(case)
    except Exception as e:  # noqa: BLE001
        return [("building the alignment raised", dict(aln_case=case), "alignment", repr(e), f"aln-build:{type(e).__name__}")]
    impl = "new" if case.get("new_type") else "old"
    for spec in case["feats"]:
        inp = dict(aln_case=case, feature=spec)
        row = case["rows"][spec["seqid"]]
        ungapped = row.replace("-", "")
        want = "".join(ungapped[a:b] for a, b in sorted(spec["spans"]))
        want = rc(want) if spec["strand"] == "-" else want
        # alignment columns that hold the feature's residues
        col_of = [i for i, c in enumerate(row) if c != "-"]
        if out is not None:
            out["evaluations"] += 1
            bump(out, "alignment_impl", impl)
        try:
            got = [f for f in aln.get_features(seqid=spec["seqid"], allow_partial=True) if f.name == spec["name"]]
            if len(got) != 1:
                fails.append(("alignment.get_features did not return the feature exactly once", inp, 1, len(got), f"aln-set:{impl}"))
                continue
            f = got[0]
            sl = f.get_slice()
            rowstr = str(sl.get_seq(spec["seqid"]) if hasattr(sl, "get_seq") else sl.named_seqs[spec["seqid"]]).replace("-", "")
        except Exception as e:  # noqa: BLE001
            fails.append((f"alignment feature raised {type(e).__name__}", inp, want, f"{type(e).__name__}: {e}", f"aln-raise:{impl}:{type(e).__name__}"))
            continue
        gaps_inside = any("-" in row[col_of[a] : col_of[b - 1] + 1] for a, b in spec["spans"] if b > a)
        if out is not None:
            bump(out, "aln_feature", "gaps-inside" if gaps_inside else "no-gaps-inside")
            if gaps_inside or len(spec["spans"]) > 1:
                out["nontrivial"].add(("aln", json.dumps(case["rows"]), spec["name"]))
        if rowstr != want:
            fails.append(("alignment feature slice (own row, degapped) differs from the sequence feature's residues", inp, want, rowstr,
                          f"aln-slice:{impl}:{spec['strand']}:{'gaps' if gaps_inside else 'nogaps'}"))
            continue
        # projection onto another row: the other row's residues in the feature's columns
        if impl == "old":
            other = "z"
            try:
                pf = aln.get_projected_feature(seqid=other, feature=f)
                got_p = str(pf.get_slice())
                orow = str(sl.named_seqs[other]).replace("-", "") if hasattr(sl, "named_seqs") else None
            except Exception as e:  # noqa: BLE001
                fails.append((f"projection raised {type(e).__name__}", inp, "projected feature", f"{type(e).__name__}: {e}", f"aln-project-raise:{type(e).__name__}"))
                continue
            if out is not None:
                out["evaluations"] += 1
            if orow is not None and got_p != orow:
                fails.append(("projected feature's slice differs from the target row's residues in the feature's columns", inp, orow, got_p,
                              f"aln-project:{spec['strand']}:{'gaps' if gaps_inside else 'nogaps'}"))
    return fails


# --------------------------------------------------------------------------
# alignments with a history: rows with different gap layouts, features on EVERY row, aln[a:b] with a > 0, rc,
# further slices; every way of asking for features, each compared with the original ungapped coordinates
# --------------------------------------------------------------------------
def gen_aln_hist_case(rng):
    n_cols = rng.choice([10, 12, 16])
    names = ["x", "y", "z"]
    rows = {}
    for k, name in enumerate(names):
        lead = rng.choice([0, 1, 2, 3, 4])  # different numbers of gaps before any slice start
        body = "".join(rng.choice("ACGT") if rng.random() < 0.78 else "-" for _ in range(n_cols - lead))
        row = "-" * lead + body
        if sum(c != "-" for c in row) < 3:
            row = row[:lead] + "ACG" + row[lead + 3 :]
        rows[name] = row[:n_cols]
    feats = []
    for name in names:
        L = sum(c != "-" for c in rows[name])
        for i in range(rng.randint(1, 2)):
            k = rng.choice([1, 1, 2, 3])
            while L < 2 * k:
                k -= 1
            if k == 0:
                continue
            pts = sorted(rng.sample(range(0, L + 1), 2 * k))
            feats.append(dict(seqid=name, name=f"{name}{i}", strand=rng.choice(["+", "-"]),
                              spans=[[pts[2 * j], pts[2 * j + 1]] for j in range(k)]))
    aln_feats = []
    for i in range(rng.choice([0, 0, 0, 1, 2])):
        a = rng.randint(0, n_cols - 2)
        b = rng.randint(a + 1, n_cols)
        aln_feats.append(dict(name=f"al{i}", spans=[[a, b]], strand="+"))
    a = rng.randint(1, n_cols // 2)  # the first slice never starts at column 0
    b = rng.randint(a + 2, n_cols)
    ops = [["s", a, b]]
    n = b - a
    for _ in range(rng.randint(0, 3)):
        r = rng.random()
        if r < 0.4 or n < 2:
            ops.append(["rc"])
        else:
            # further slices keep at least one column (slicing an empty alignment is C03's business)
            x = rng.randint(0, min(2, n - 1))
            y = rng.choice([None, n, rng.randint(x + 1, n)])
            if y is not None and y < n and rng.random() < 0.3:
                y = y - n  # the same stop written as a negative index
            ops.append(["s", x, y])
            n = (n if y is None else y if y >= 0 else n + y) - x
    if rng.random() < 0.12:
        ops = ops[1:]
    # deepcopy() / deepcopy(sliced=False) / copy() at any position of the chain, preferably right after an rc
    copies = [["deepcopy"], ["deepcopy", False], ["copy"]]
    out_ops = []
    for op in ops:
        out_ops.append(op)
        if (op[0] == "rc" and rng.random() < 0.6) or rng.random() < 0.15:
            out_ops.append(rng.choice(copies))
    if rng.random() < 0.15:
        out_ops.insert(0, rng.choice(copies))
    case = dict(rows=rows, feats=feats, aln_feats=aln_feats, ops=out_ops)
    if not any(op[0] in ("deepcopy", "copy") for op in out_ops) and out_ops and rng.random() < 0.4:
        case["late"] = True  # sequence features reach the parent alignment's db AFTER the slices / rc were made
    return case


def build_aln_hist(case):
    import cogent3

    root = aln = cogent3.make_aligned_seqs(case["rows"], moltype="dna", array_align=False)
    late = bool(case.get("late")) and not any(op[0] in ("deepcopy", "copy") for op in case["ops"])

    def add_seq_feats():
        for f in case["feats"]:
            root.annotation_db.add_feature(seqid=f["seqid"], biotype="gene", name=f["name"], spans=[tuple(s) for s in f["spans"]], strand=f["strand"])

    if not late:
        add_seq_feats()
    for f in case["aln_feats"]:
        aln.add_feature(biotype="region", name=f["name"], spans=[tuple(s) for s in f["spans"]], on_alignment=True, strand=f["strand"])
    n = len(next(iter(case["rows"].values())))
    state = (0, n, False)
    for op in case["ops"]:
        if op[0] == "rc":
            aln = aln.rc()
            state = (state[0], state[1], not state[2])
        elif op[0] == "deepcopy":
            aln = aln.deepcopy() if len(op) == 1 else aln.deepcopy(sliced=op[1])
        elif op[0] == "copy":
            aln = aln.copy()
        else:
            aln = aln[op[1] : op[2]]
            A, B, rev = state
            a, b, _ = slice(op[1], op[2], None).indices(B - A)
            b = max(a, b)
            state = (B - b, B - a, rev) if rev else (A + a, A + b, rev)
    if late:
        add_seq_feats()
    return aln, state


def _row_str(sl, sid):
    return str(sl.named_seqs[sid]).replace("-", "")


def run_aln_hist_case(case, out=None):
    fails = []
    inp = dict(aln_hist_case=case)
    try:
        aln, (A, B, rev) = build_aln_hist(case)
    except Exception as e:  # noqa: BLE001
        return [("building / slicing the alignment raised", inp, "alignment", f"{type(e).__name__}: {e}", f"alnh:build:{type(e).__name__}")]
    if B - A == 0:
        return []
    rows = case["rows"]
    names = list(rows)
    ungapped = {k: v.replace("-", "") for k, v in rows.items()}
    col_of = {k: [i for i, c in enumerate(v) if c != "-"] for k, v in rows.items()}
    seg = {}
    for k in names:
        ps = [p for p, c in enumerate(col_of[k]) if A <= c < B]
        seg[k] = (ps[0], ps[-1] + 1) if ps else None
    want_rows = {k: (rc(v[A:B]) if rev else v[A:B]) for k, v in rows.items()}
    got_rows = aln.to_dict()
    if got_rows != want_rows:
        return [("sliced alignment differs from slicing the gapped strings (C03 territory)", inp, want_rows, got_rows, "alnh:rows")]
    flav = f"{'sliced' if A > 0 else 'from0'}:{'rev' if rev else 'fwd'}"

    def oracle(f):
        lo, hi = seg[f["seqid"]]
        s = "".join(ungapped[f["seqid"]][max(a, lo) : min(b, hi)] for a, b in sorted(f["spans"]) if max(a, lo) < min(b, hi))
        return rc(s) if f["strand"] == "-" else s

    def hull(f):
        return min(a for a, _ in f["spans"]), max(b for _, b in f["spans"])

    def expected(sid, partial):
        lo, hi = seg[sid]
        fs = [f for f in case["feats"] if f["seqid"] == sid]
        if partial:
            return [f for f in fs if hull(f)[0] < hi and lo < hull(f)[1]]
        return [f for f in fs if lo <= hull(f)[0] and hull(f)[1] <= hi]

    byname = {f["name"]: f for f in case["feats"]}

    def check(api, sid, feats_got, partial, as_alignment):
        rowc = "first-row" if sid == names[0] else "other-row"
        want_names = sorted(f["name"] for f in expected(sid, partial))
        got_names = sorted(f.name for f in feats_got)
        if out is not None:
            out["evaluations"] += 1
            bump(out, "aln_api", api)
            bump(out, "aln_row", rowc)
            bump(out, "aln_view", flav)
        if got_names != want_names:
            fails.append((f"{api}: wrong set of features for row {sid}", dict(inp, seqid=sid, allow_partial=partial), want_names, got_names,
                          f"alnh:{api}:set:{rowc}:{flav}"))
            return
        for f in feats_got:
            spec = byname[f.name]
            want = oracle(spec)
            try:
                sl = f.get_slice()
                got = _row_str(sl, sid) if as_alignment else str(sl)
            except Exception as e:  # noqa: BLE001
                got = f"raised {type(e).__name__}: {e}"
            if out is not None and (len(spec["spans"]) > 1 or spec["strand"] == "-" or sid != names[0]):
                out["nontrivial"].add(("alnh", api, json.dumps(case["rows"]), json.dumps(case["ops"]), f.name))
            if got != want:
                fails.append((f"{api}: feature slice differs from the residues at the original ungapped coordinates",
                              dict(inp, seqid=sid, feature=spec, allow_partial=partial), want, got,
                              f"alnh:{api}:slice:{rowc}:{flav}:{spec['strand']}:{'multi' if len(spec['spans']) > 1 else 'single'}"))
                continue
            # the contiguous form get_slice(allow_gaps=True): on an alignment every column from the first to the last
            # retained residue of the feature (gap columns of its row included), on a sequence the ungapped segment;
            # read on the feature's strand
            lo, hi = seg[sid]
            kept = [(max(a, lo), min(b, hi)) for a, b in sorted(spec["spans"]) if max(a, lo) < min(b, hi)]
            if not kept:
                continue
            if as_alignment:
                c0, c1 = col_of[sid][kept[0][0]], col_of[sid][kept[-1][1] - 1] + 1
                wantc = {k: (rc(v[c0:c1]) if spec["strand"] == "-" else v[c0:c1]) for k, v in rows.items()}
            else:
                wantc = ungapped[sid][kept[0][0] : kept[-1][1]]
                wantc = rc(wantc) if spec["strand"] == "-" else wantc
            try:
                gotc = f.get_slice(allow_gaps=True)
                gotc = gotc.to_dict() if as_alignment else str(gotc)
            except Exception as e:  # noqa: BLE001
                gotc = f"raised {type(e).__name__}: {e}"
            if out is not None:
                out["evaluations"] += 1
                bump(out, "aln_feature_form", f"allow_gaps:{'alignment' if as_alignment else 'sequence'}")
            if gotc != wantc:
                fails.append((f"{api}: the contiguous form get_slice(allow_gaps=True) differs from the columns / residues between the feature's first and last retained position, read on its strand",
                              dict(inp, seqid=sid, feature=spec, allow_partial=partial, form="allow_gaps"), wantc, gotc,
                              f"alnh:{api}:form:allow_gaps:{flav}:{spec['strand']}"))

    live = [k for k in names if seg[k] is not None]
    for sid in live:
        for partial in (True, False):
            for api, call in (
                ("seqid", lambda: [f for f in aln.get_features(seqid=sid, on_alignment=False, allow_partial=partial)]),
                ("seqid-default", lambda: [f for f in aln.get_features(seqid=sid, allow_partial=partial) if f.name in byname]),
            ):
                try:
                    got = call()
                except Exception as e:  # noqa: BLE001
                    fails.append((f"{api}: get_features raised", dict(inp, seqid=sid, allow_partial=partial), "features", f"{type(e).__name__}: {e}",
                                  f"alnh:{api}:raises:{type(e).__name__}:{flav}"))
                    continue
                check(api, sid, got, partial, True)
        # the ungapped Sequence of the row answers for itself
        try:
            got = list(aln.get_seq(sid).get_features(allow_partial=True))
            check("get_seq", sid, got, True, False)
        except Exception as e:  # noqa: BLE001
            fails.append(("get_seq(...).get_features raised", dict(inp, seqid=sid), "features", f"{type(e).__name__}: {e}", f"alnh:get_seq:raises:{type(e).__name__}:{flav}"))
    # all rows at once
    if len(live) == len(names):
        try:
            allf = list(aln.get_features(on_alignment=False, allow_partial=True))
            for sid in names:
                check("all-rows", sid, [f for f in allf if byname[f.name]["seqid"] == sid], True, True)
        except Exception as e:  # noqa: BLE001
            fails.append(("get_features(on_alignment=False) raised", inp, "features", f"{type(e).__name__}: {e}", f"alnh:all-rows:raises:{type(e).__name__}:{flav}"))
    # features projected from the other rows onto a target row
    if len(live) == len(names):
        target = names[-1]
        try:
            pfs = aln.get_projected_features(seqid=target, allow_partial=True)
        except Exception as e:  # noqa: BLE001
            pfs = None
            fails.append(("get_projected_features raised", dict(inp, target=target), "features", f"{type(e).__name__}: {e}", f"alnh:projected:raises:{type(e).__name__}:{flav}"))
        for pf in pfs or []:
            spec = byname.get(pf.name)
            if spec is None:
                continue
            lo, hi = seg[spec["seqid"]]
            cols = col_of[spec["seqid"]]
            pieces = []
            for a, b in sorted(spec["spans"]):
                a2, b2 = max(a, lo), min(b, hi)
                if a2 < b2:
                    # exactly the alignment columns that hold the feature's residues (gap columns of the source
                    # row inside a span are not part of the feature)
                    pieces.append("".join(rows[target][cols[q]] for q in range(a2, b2) if rows[target][cols[q]] != "-"))
            want = "".join(pieces)
            want = rc(want) if spec["strand"] == "-" else want
            try:
                got = str(pf.get_slice())
            except Exception as e:  # noqa: BLE001
                got = f"raised {type(e).__name__}: {e}"
            if out is not None:
                out["evaluations"] += 1
                bump(out, "aln_api", "projected")
            if got != want:
                fails.append(("projected feature differs from the target row's residues in the feature's columns",
                              dict(inp, target=target, feature=spec), want, got, f"alnh:projected:slice:{flav}:{spec['strand']}"))
    # alignment-level features: the same alignment columns after the history
    if case["aln_feats"]:
        try:
            afs = list(aln.get_features(on_alignment=True, allow_partial=True))
        except Exception as e:  # noqa: BLE001
            afs = None
            fails.append(("get_features(on_alignment=True) raised", inp, "features", f"{type(e).__name__}: {e}", f"alnh:on_alignment:raises:{type(e).__name__}:{flav}"))
        for spec in case["aln_feats"] if afs is not None else []:
            a, b = spec["spans"][0]
            a2, b2 = max(a, A), min(b, B)
            want = {k: v[a2:b2] if a2 < b2 else "" for k, v in rows.items()}
            got_f = [f for f in afs if f.name == spec["name"]]
            if out is not None:
                out["evaluations"] += 1
                bump(out, "aln_api", "on_alignment")
            if not got_f:
                if a2 < b2:
                    fails.append(("alignment-level feature not returned although it overlaps the slice", dict(inp, feature=spec), want, "absent",
                                  f"alnh:on_alignment:missing:{flav}"))
                continue
            try:
                got = got_f[0].get_slice().to_dict()
            except Exception as e:  # noqa: BLE001
                got = f"raised {type(e).__name__}: {e}"
            if got != want:
                fails.append(("alignment-level feature denotes different columns after the history", dict(inp, feature=spec), want, got,
                              f"alnh:on_alignment:slice:{flav}"))
    return fails


# --------------------------------------------------------------------------
# features ADDED on views (Sequence.add_feature / Alignment.add_feature(seqid=...)), and degap()
# --------------------------------------------------------------------------
def gen_added_case(rng):
    n = rng.choice([10, 12, 16, 20])
    text = "".join(rng.choice("ACGT") for _ in range(n))
    ops = []
    if rng.random() < 0.8:
        a = rng.randint(0, n // 2)
        ops.append(["s", a, rng.randint(a + 4, n)])
    for _ in range(rng.randint(0, 2)):
        ops.append(["rc"] if rng.random() < 0.5 else ["s", rng.choice([0, 1]), rng.choice([None, -1])])
    return dict(kind=rng.choice(["old", "new"]), text=text, offset=rng.choice([0, 0, 3, 7]), ops=ops,
                strand=rng.choice(["+", "-"]), k=rng.choice([1, 1, 2]), seed=rng.randint(0, 10**6))


def run_added_case(case, out=None):
    """`v.add_feature(spans, strand)`: the spans and the strand are AS SEEN ON THE VIEW `v` ("coordinates for this
    sequence").  Oracle: the feature's residues are `str(v)[a:b]` over the spans (reverse complemented for strand
    '-'); seen from anywhere else (same view again, the root, after a further rc or slice) it spells the same
    residues; in the db it is stored at the corresponding absolute plus-strand positions, with the opposite strand
    when the view is reverse complemented."""
    import random

    fails = []
    inp = dict(added_case=case)
    root = mk_seq(case["kind"], case["text"], case["offset"])
    v = root
    state = (case["offset"], case["offset"] + len(case["text"]), False)
    try:
        for op in case["ops"]:
            v = apply_op(v, op)
            state = apply_op_spec(state, op)
    except Exception as e:  # noqa: BLE001
        return [("building the view raised", inp, "view", repr(e), f"added:build:{type(e).__name__}")]
    L = len(v)
    if L < 3:
        return []
    p0, p1, rev = state
    vs = str(v)
    r = random.Random(case["seed"])
    for _ in range(50):
        pts = sorted(r.sample(range(0, L + 1), 2 * case["k"]))
        spans = [(pts[2 * j], pts[2 * j + 1]) for j in range(case["k"])]
        ref = "".join(vs[a:b] for a, b in spans)
        # the wrong reading "spans are plus-strand offsets from the segment start" must give something else on an
        # rc'd view (a segment that is its own reverse complement would hide the difference)
        alt = "".join(rc(vs)[a:b] for a, b in spans)
        if not rev or rc(alt) != ref:
            break
    else:
        return []
    ref = rc(ref) if case["strand"] == "-" else ref
    if rev:
        want_db = dict(spans=sorted([p1 - b, p1 - a] for a, b in spans), strand="-" if case["strand"] == "+" else "+")
    else:
        want_db = dict(spans=sorted([p0 + a, p0 + b] for a, b in spans), strand=case["strand"])
    flav = f"{case['kind']}:{'rev' if rev else 'fwd'}:{'offset' if v.annotation_offset else 'origin'}"
    try:
        f = v.add_feature(biotype="gene", name="added", spans=spans, strand=case["strand"])
    except Exception as e:  # noqa: BLE001
        return [("add_feature on a view raised", dict(inp, spans=spans), "a feature", f"{type(e).__name__}: {e}", f"added:{flav}:raises:{type(e).__name__}")]
    if out is not None:
        out["evaluations"] += 1
        bump(out, "added_on", flav)
        out["nontrivial"].add(("added", case["text"], json.dumps(case["ops"]), str(spans)))

    def sl(x):
        try:
            return str(x.get_slice())
        except ValueError as e:
            if "cannot set offset" in str(e) and case["kind"] == "new":
                return None  # open finding C04-new-sequence-feature-slice-offset-guard
            return f"raised ValueError: {e}"
        except Exception as e:  # noqa: BLE001
            return f"raised {type(e).__name__}: {e}"

    got = sl(f)
    if got is not None and got != ref:
        fails.append(("the feature returned by add_feature does not denote view[spans] read on the given strand",
                      dict(inp, spans=spans), ref, got, f"added:{flav}:returned"))
    rec = [x for x in root.annotation_db.get_features_matching(name="added")] if root.annotation_db is v.annotation_db else None
    if rec is not None:
        got_db = dict(spans=sorted([int(a), int(b)] for a, b in rec[0]["spans"]), strand=rec[0]["strand"] or "+") if len(rec) == 1 else f"{len(rec)} records"
        if got_db != want_db:
            fails.append(("add_feature on a view stored other coordinates / strand than the absolute plus-strand image of the spans",
                          dict(inp, spans=spans), want_db, got_db, f"added:{flav}:db"))
    lo, hi = spans[0][0], spans[-1][1]
    probes = [("same-view", v), ("root", root), ("after-rc", v.rc())]
    if hi - lo < L:
        probes.append(("further-slice", v[lo:hi]))
    for which, obj in probes:
        try:
            feats = list(obj.get_features(name="added", allow_partial=True))
            got = [sl(x) for x in feats]
        except Exception as e:  # noqa: BLE001
            got = f"raised {type(e).__name__}: {e}"
        if isinstance(got, list) and None in got:
            continue
        if out is not None:
            out["evaluations"] += 1
        if got != [ref]:
            fails.append((f"a feature added on a view does not denote the same residues when asked for again ({which})",
                          dict(inp, spans=spans, which=which), [ref], got, f"added:{flav}:{which}"))
    return fails


def run_aln_added_case(case, out=None):
    """case = an aln_hist_case; a feature is added on one row of the final alignment"""
    import random

    fails = []
    inp = dict(aln_added_case=case)
    try:
        aln, (A, B, rev) = build_aln_hist(dict(case, feats=[], aln_feats=[]))
    except Exception as e:  # noqa: BLE001
        return [("building / slicing the alignment raised", inp, "alignment", f"{type(e).__name__}: {e}", f"added-aln:build:{type(e).__name__}")]
    r = random.Random(case.get("seed", 1))
    sid = r.choice(list(case["rows"]))
    seq = aln.get_seq(sid)
    L = len(seq)
    if L < 2:
        return []
    a = r.randint(0, L - 1)
    b = r.randint(a + 1, L)
    strand = r.choice(["+", "-"])
    flav = f"{'first-row' if sid == list(case['rows'])[0] else 'other-row'}:{'rev' if rev else 'fwd'}:{'offset' if seq.annotation_offset else 'origin'}"
    try:
        f = aln.add_feature(seqid=sid, biotype="gene", name="added", spans=[(a, b)], strand=strand)
        ref = _row_str(f.get_slice(), sid)
    except Exception as e:  # noqa: BLE001
        return [("Alignment.add_feature(seqid=...) raised", dict(inp, seqid=sid, spans=[a, b]), "a feature", f"{type(e).__name__}: {e}", f"added-aln:{flav}:raises:{type(e).__name__}")]
    if out is not None:
        out["evaluations"] += 1
        bump(out, "added_on_alignment_row", flav)
    for which, call in (("alignment", lambda: [_row_str(x.get_slice(), sid) for x in aln.get_features(seqid=sid, name="added", on_alignment=False, allow_partial=True)]),
                        ("get_seq", lambda: [str(x.get_slice()) for x in aln.get_seq(sid).get_features(name="added", allow_partial=True)])):
        try:
            got = call()
        except Exception as e:  # noqa: BLE001
            got = f"raised {type(e).__name__}: {e}"
        if got != [ref]:
            fails.append((f"a feature added on an alignment row does not denote the same residues when asked for again ({which})",
                          dict(inp, seqid=sid, spans=[a, b], strand=strand, which=which), [ref], got, f"added-aln:{flav}:{which}"))
    return fails


def gen_degap_case(rng):
    case = gen_case(rng)
    case["ops"] = [op for op in case["ops"] if op[0] in ("s", "rc")]
    case["gapped"] = rng.random() < 0.3
    if case["gapped"]:
        # a gapped Sequence whose features are given in ITS coordinates; no history
        t = list(case["text"])
        for _ in range(rng.randint(1, 3)):
            t.insert(rng.randint(0, len(t)), "-")
        case["text"], case["ops"], case["offset"] = "".join(t), [], 0
        n = len(case["text"])
        for f in case["feats"]:
            pts = sorted(rng.sample(range(0, n + 1), 2))
            f["spans"] = [[pts[0], pts[1]]]
    return case


def run_degap_case(case, out=None):
    fails = []
    inp = dict(degap_case=case)
    try:
        seq, state = build(case)
    except Exception as e:  # noqa: BLE001
        return [("building the view raised", inp, "view", repr(e), f"degap:build:{type(e).__name__}")]
    if len(seq) == 0:
        return []
    flav = f"{case['kind']}:{'rev' if state[2] else 'fwd'}:{'offset' if seq.annotation_offset else 'origin'}:{'gapped' if case['gapped'] else 'ungapped'}"
    # what the features denote on the view, from the oracle (not through get_slice, which has an open finding
    # on new-style views that carry an offset)
    before = {}
    p0, p1, _ = state
    for f in case["feats"]:
        lo, hi = min(a for a, _ in f["spans"]), max(b for _, b in f["spans"])
        if lo < p1 and p0 < hi:
            before[f["name"]] = oracle_slice(case, f, state).replace("-", "")
    try:
        d = seq.degap()
        after = {f.name: str(f.get_slice()) for f in d.get_features(allow_partial=True)}
    except Exception as e:  # noqa: BLE001
        after = f"raised {type(e).__name__}: {e}"
    if out is not None:
        out["evaluations"] += 1
        bump(out, "degap_on", flav)
        if before:
            out["nontrivial"].add(("degap", case["text"], json.dumps(case["ops"])))
    # a feature whose retained residues are all gaps may disappear; everything else must denote the same residues
    want = {k: v for k, v in before.items() if v}
    got = after if isinstance(after, str) else {k: v for k, v in after.items() if v}
    if got != want:
        fails.append(("after degap() the features denote different residues", inp, want, got, f"degap:{flav}"))
    return fails


# --------------------------------------------------------------------------
# sequence collections (old and new style): rc / deepcopy / copy chains, features on every sequence
# --------------------------------------------------------------------------
def gen_coll_case(rng):
    seqs, feats = {}, []
    for name in ("x", "y", "z"):
        n = rng.randint(6, 14)
        seqs[name] = "".join(rng.choice("ACGT") for _ in range(n))
        for i in range(rng.randint(1, 2)):
            k = rng.choice([1, 1, 2])
            pts = sorted(rng.sample(range(0, n + 1), 2 * k))
            feats.append(dict(seqid=name, name=f"{name}{i}", strand=rng.choice(["+", "-"]),
                              spans=[[pts[2 * j], pts[2 * j + 1]] for j in range(k)]))
    ops = []
    for _ in range(rng.randint(1, 4)):
        op = rng.choice([["rc"], ["rc"], ["deepcopy"], ["deepcopy", False], ["copy"]])
        ops.append(op)
        if op[0] == "rc" and rng.random() < 0.6:
            ops.append(rng.choice([["deepcopy"], ["deepcopy", False], ["copy"]]))
    return dict(kind=rng.choice(["old", "new"]), seqs=seqs, feats=feats, ops=ops)


def run_coll_case(case, out=None):
    fails = []
    inp = dict(coll_case=case)
    try:
        if case["kind"] == "old":
            import cogent3

            coll = cogent3.make_unaligned_seqs(case["seqs"], moltype="dna")
        else:
            from cogent3.core import new_alignment

            coll = new_alignment.make_unaligned_seqs(case["seqs"], moltype="dna")
        if coll.annotation_db is None:
            from cogent3.core.annotation_db import BasicAnnotationDb

            coll.annotation_db = BasicAnnotationDb()
        for f in case["feats"]:
            coll.annotation_db.add_feature(seqid=f["seqid"], biotype="gene", name=f["name"], spans=[tuple(x) for x in f["spans"]], strand=f["strand"])
        done = []
        for op in case["ops"]:
            if op[0] == "rc":
                coll = coll.rc()
            elif op[0] == "deepcopy":
                if not hasattr(coll, "deepcopy"):
                    continue
                coll = coll.deepcopy() if len(op) == 1 else coll.deepcopy(sliced=op[1])
            else:
                if not hasattr(coll, "copy"):
                    continue
                coll = coll.copy()
            done.append(op[0])
    except Exception as e:  # noqa: BLE001
        return [("building the collection / its history raised", inp, "collection", f"{type(e).__name__}: {e}", f"coll:{case['kind']}:build:{type(e).__name__}")]
    hist = "+".join(done) or "none"
    for name, text in case["seqs"].items():
        specs = [f for f in case["feats"] if f["seqid"] == name]
        want = {}
        for f in specs:
            w = "".join(text[a:b] for a, b in sorted(f["spans"]))
            want[f["name"]] = rc(w) if f["strand"] == "-" else w
        try:
            got = {f.name: str(f.get_slice()) for f in coll.get_features(seqid=name, allow_partial=True)}
        except ValueError as e:
            if "cannot set offset" in str(e) and case["kind"] == "new":
                continue
            got = f"raised ValueError: {e}"
        except Exception as e:  # noqa: BLE001
            got = f"raised {type(e).__name__}: {e}"
        if out is not None:
            out["evaluations"] += 1
            bump(out, "coll_history", f"{case['kind']}:{hist}"[:40])
            out["nontrivial"].add(("coll", case["kind"], json.dumps(case["ops"]), name, json.dumps(case["seqs"])[:60]))
        if got != want:
            after_rc_copy = any(a == "rc" and b in ("deepcopy", "copy") for a, b in zip(done, done[1:]))
            fails.append(("after the collection's history the features of a sequence denote other residues (or are gone)",
                          dict(inp, seqid=name), want, got,
                          f"coll:{case['kind']}:{'copy-after-rc' if after_rc_copy else 'other'}:{'missing' if isinstance(got, dict) and not got else 'wrong'}"))
    return fails


# --------------------------------------------------------------------------
# a feature overhanging the view on one or both sides: the lost spans must add up
# --------------------------------------------------------------------------
def run_overhang_case(case, out=None):
    """case: kind, text, a, b (view [a:b]), rc, left, right (overhang lengths), strand"""
    fails = []
    inp = dict(overhang_case=case)
    s = mk_seq(case["kind"], case["text"], 0)
    a, b = case["a"], case["b"]
    span = (a - case["left"], b + case["right"])
    s.annotation_db.add_feature(seqid="s", biotype="gene", name="f", spans=[span], strand=case["strand"])
    v = s[a:b]
    if case["rc"]:
        v = v.rc()
    cls = "both" if case["left"] and case["right"] else "one" if case["left"] or case["right"] else "none"
    sig = f"overhang:{case['kind']}:{'rev' if case['rc'] else 'fwd'}:{cls}"
    try:
        fs = list(v.get_features(allow_partial=True))
        f = fs[0]
        got = dict(n=len(fs), len=len(f), rendered=len(str(v.gapped_by_map(f.map))), real=[list(map(int, c)) for c in f.map.get_coordinates()])
    except Exception as e:  # noqa: BLE001
        return [("get_features on an overhanging feature raised", inp, "a feature", f"{type(e).__name__}: {e}", sig + f":raises:{type(e).__name__}")]
    L = b - a
    want = dict(n=1, len=span[1] - span[0], rendered=span[1] - span[0], real=[[0, L]])
    if out is not None:
        out["evaluations"] += 1
        bump(out, "overhang", cls)
        if cls != "none":
            out["nontrivial"].add(("overhang", json.dumps(case)))
    if got != want:
        fails.append(("a feature overhanging the view: len(feature) / the gapped rendering of its map differ from the feature's length",
                      inp, want, got, sig + ":len"))
    return fails


# --------------------------------------------------------------------------
# spec check
# --------------------------------------------------------------------------
def spec_check(ctx, budget):
    out = new_outcome(
        "old and new Sequence: random parents (8-30 nt, annotation offsets 0/3/7) with 1-5 features (1-3 spans, both "
        "strands, span edges on / next to the first slice's boundaries by construction), histories of slice / rc / "
        "copy(sliced) / deepcopy, every query window on the lattice of feature edges -1/0/+1 (plus negative-index and "
        "None spellings) x allow_partial; checks: the set of returned features = hull overlap / containment rule, each "
        "feature.get_slice() = parent residues in spans ∩ retained segment read on the feature strand, no exception. "
        "A strided-view stream checks no exception and that every returned feature spells the SHOWN residues inside its spans. Alignments with gapped rows: own-row slice and projection vs "
        "a column oracle; alignments with a history (rows with different leading gaps, features on every row, "
        "aln[a:b] with a > 0, rc, further slices): get_features(seqid) / default on_alignment / all rows / "
        "get_seq().get_features() / get_projected_features / on_alignment features, each slice vs the residues at the "
        "original ungapped coordinates. non-trivial = returned feature that is partly outside the view, multi-span, or "
        "on a reversed view; alignment feature spanning gap columns"
    )
    rng = ctx.subrng(f"spec{budget}")
    seen_sig = {}

    def add_failure(o, kind, what, inp, want, got, sig=None):  # keep at most 2 examples per failure class,
        seen_sig[sig] = seen_sig.get(sig, 0) + 1               # so one frequent class cannot crowd out another
        bump(o, "failure_class", sig)
        if seen_sig[sig] <= 2:
            _add_failure(o, kind, what, inp, want, got, sig=sig)

    n = 120 * budget
    for i in range(n):
        case = gen_case(rng)
        if i % 3 == 2:
            # the db comes from GFF text loaded block-wise (rows of one ID in descending order across blocks)
            case["gff"] = dict(order=rng.choice(["desc", "desc", "asc"]), lpb=rng.choice([1, 2, 3, 4]))
            bump(out, "db_source", f"gff:{case['gff']['order']}:lpb={case['gff']['lpb']}")
        bump(out, "impl", case["kind"])
        bump(out, "features_added", "before the history" if not case.get("add_at") or case.get("gff") else f"after {min(case['add_at'], 3)}{'+' if case['add_at'] > 3 else ''} ops ({case['add_how']})")
        bump(out, "history_len", len(case["ops"]))
        for op in case["ops"]:
            bump(out, "op", op[0])
        for what, inp, want, got, sig in run_case(case, rng, out, win_limit=8 if budget <= 1 else 14):
            add_failure(out, "spec", what, inp, want, got, sig=sig)
        if len(out["samples"]) < 3 and len(case["ops"]) > 2:
            out["samples"].append(case)
    for i in range(25 * budget):
        case = gen_case(rng, strided=True)
        for what, inp, want, got, sig in run_case(case, rng, out):
            add_failure(out, "spec", what, inp, want, got, sig=sig)
    for i in range(30 * budget):
        case = gen_aln_case(rng)
        for what, inp, want, got, sig in run_aln_case(case, out):
            add_failure(out, "spec", what, inp, want, got, sig=sig)
    for i in range(60 * budget):
        case = gen_aln_hist_case(rng)
        for op in case["ops"]:
            bump(out, "aln_op", op[0])
        bump(out, "aln_features_added", "after the history" if case.get("late") else "before the history")
        for what, inp, want, got, sig in run_aln_hist_case(case, out):
            add_failure(out, "spec", what, inp, want, got, sig=sig)
    for i in range(40 * budget):
        for what, inp, want, got, sig in run_coll_case(gen_coll_case(rng), out):
            add_failure(out, "spec", what, inp, want, got, sig=sig)
    # every combination of left / right overhang 0..3, forward and rc'd views, old and new sequences
    for kind in ("old", "new"):
        for rcd in (False, True):
            for left in range(4):
                for right in range(4):
                    case = dict(kind=kind, text="AAACCGGTTTAACCGG", a=4, b=9, rc=rcd, left=left, right=right,
                                strand="+" if (left + right) % 2 == 0 else "-")
                    for what, inp, want, got, sig in run_overhang_case(case, out):
                        add_failure(out, "spec", what, inp, want, got, sig=sig)
    # features ADDED on views / alignment rows, and degap()
    rng2 = ctx.subrng(f"added{budget}")
    for i in range(60 * budget):
        for what, inp, want, got, sig in run_added_case(gen_added_case(rng2), out):
            add_failure(out, "spec", what, inp, want, got, sig=sig)
    for i in range(30 * budget):
        case = dict(gen_aln_hist_case(rng2), seed=rng2.randint(0, 10**6))
        for what, inp, want, got, sig in run_aln_added_case(case, out):
            add_failure(out, "spec", what, inp, want, got, sig=sig)
    for i in range(40 * budget):
        for what, inp, want, got, sig in run_degap_case(gen_degap_case(rng2), out):
            add_failure(out, "spec", what, inp, want, got, sig=sig)
    return out


# --------------------------------------------------------------------------
# correspondence
# --------------------------------------------------------------------------
def _parent_text(seq):
    """the string the view's SeqView slices (plus strand, as stored)"""
    sv = seq._seq
    raw = sv.seq
    if isinstance(raw, str):
        return raw
    try:
        return sv.alphabet.from_indices(raw)  # new-style views hold an index array
    except Exception:  # noqa: BLE001
        return str(raw)


def _real_feature(seq, rec):
    """what make_feature builds for one db record on this view, through get_features' own conversion"""
    try:
        feats = [f for f in seq.get_features(name=rec["name"], allow_partial=True)]
    except (ValueError, IndexError, AssertionError, RuntimeError) as e:
        return {"err": type(e).__name__}
    if not feats:
        return None
    f = feats[0]
    spans = [["lost", int(s.length)] if s.lost else [int(s.start), int(s.end)] for s in f.map.spans]
    return dict(spans=spans, reversed=bool(f.reversed))


def _real_make_feature(seq, spans, strand):
    """Sequence.make_feature called directly (the user-facing entry) with view-relative spans"""
    rec = dict(biotype="gene", name="m", spans=[list(x) for x in spans])
    if strand is not None:
        rec["strand"] = strand
    try:
        f = seq.make_feature(rec)
    except (ValueError, IndexError, AssertionError, RuntimeError) as e:
        return {"err": type(e).__name__}
    return dict(spans=[["lost", int(s.length)] if s.lost else [int(s.start), int(s.end)] for s in f.map.spans],
                reversed=bool(f.reversed))


def _gen_rel_spans(rng, L):
    """view-relative span lists for make_feature: mostly well-formed (s < e, ordered), edges on / around 0 and L;
    otherwise malformed (s >= e, unordered, far outside)"""
    pts = [-3, -2, -1, 0, 1, 2, L - 2, L - 1, L, L + 1, L + 2, L + 4] + [rng.randint(-2, L + 2) for _ in range(3)]
    k = rng.choice([1, 1, 2, 3])
    r = rng.random()
    if r < 0.65:
        chosen = sorted(rng.sample(sorted(set(pts)), min(2 * k, len(set(pts))) // 2 * 2))
        return [[chosen[2 * j], chosen[2 * j + 1]] for j in range(len(chosen) // 2)], "wellformed"
    if r < 0.8:  # ordered by start but overlapping / nested
        sp = sorted([sorted([rng.choice(pts), rng.choice(pts)]) for _ in range(k)])
        return [x for x in sp], "overlapping"
    return [[rng.choice(pts), rng.choice(pts)] for _ in range(k)], "malformed"


def _known_offset_guard(case, raised):
    """the one get_slice exception the correspondence tolerates: open finding C04-new-sequence-feature-slice-offset-guard"""
    return case.get("kind") == "new" and raised.startswith("raised ValueError") and "cannot set offset" in raised


def correspondence(ctx):
    out = new_outcome(
        "Lean model vs real (old and new Sequence): (a) the (start, stop) window get_features sends to the annotation db "
        "(recorded by a delegating wrapper) for lattice / negative / None / swapped / out-of-range windows vs queryWindow; "
        "(b) the feature map (spans incl. lost spans, reversed flag) or exception class of every record the db returns "
        "on the final view vs featureOnView, and the model's slice positions vs the residues actually returned; "
        "(c) Spec.denote vs the Python oracle; (d) Aligned.make_feature's projected map (spans incl. lost, parent length) "
        "on old-style alignments with gapped rows vs FMap.project; (e) Sequence.make_feature called directly with "
        "well-formed / overlapping / malformed view-relative span lists on forward, rc'd and strided views vs makeFeature "
        "(result or exception class); (f) exhaustive one-span box (s, e in [-3, L+3], L = 1..5, forward and rc'd, old and "
        "new) vs makeFeature and, for s < e, vs clipLocate; (g) whole histories: runOps from ofString at the annotation "
        "offset, then featureOnView + getSlice, vs the real view record, displayed string and get_slice() after the "
        "same slice / rc history. non-trivial = feature partly outside the view or on a reversed view, or "
        "window not covering the whole view"
    )
    rng = ctx.subrng("corr")
    n = ctx.budget(250, 2500)
    reqs, expect = [], []
    for i in range(n):
        case = gen_case(rng, strided=rng.random() < 0.25)
        try:
            seq, state = build(case)
        except Exception:  # noqa: BLE001
            continue
        if len(seq) == 0 and rng.random() < 0.8:
            continue
        vj = view_json(seq)
        L = len(seq)
        p0, p1, rev = state
        # (a) windows
        wl = [(None, None), (0, None), (None, 0), (1, L), (L, 1), (-1, None), (0, L + 1), (L, None), (-L - 1, None), (2, 2)]
        wl += [(rng.randint(-L - 1, L + 1), rng.randint(-L - 1, L + 1)) for _ in range(4)]
        for a, b in wl:
            rec = RecDb(seq.annotation_db)
            seq.replace_annotation_db(rec, check=False)
            kw = {}
            if a is not None:
                kw["start"] = a
            if b is not None:
                kw["stop"] = b
            try:
                list(seq.get_features(allow_partial=True, **kw))
                real = [rec.calls[0]["start"], rec.calls[0]["stop"]] if rec.calls else None
            except (IndexError, AssertionError, ValueError, RuntimeError) as e:
                # (since 11fcfbb18 make_feature no longer raises on db records: an exception after the query was
                # sent is not tolerated any more -- the model returns a window there and the mismatch is reported)
                real = {"err": type(e).__name__}
            seq.replace_annotation_db(rec.inner, check=False)
            reqs.append(("window", dict(view=vj, start=a, stop=b)))
            expect.append(("window", dict(case=case, window=[a, b]), real, None))
        # (b) features
        if abs(vj["step"]) == 1 and L > 0:
            for f in case["feats"]:
                real = _real_feature(seq, f)
                if real is None:
                    continue
                resid = None
                if "err" not in real:
                    try:
                        resid = str([x for x in seq.get_features(name=f["name"], allow_partial=True)][0].get_slice())
                    except Exception as e:  # noqa: BLE001
                        resid = f"raised {type(e).__name__}: {e}"
                reqs.append(("feature", dict(view=vj, minus=f["strand"] == "-", spans=f["spans"])))
                expect.append(("feature", dict(case=case, feature=f), real, (resid, case, state)))
                # residue-level model (Model/FeatureSeq.lean getSlice) on the view's own parent string
                reqs.append(("getslice", dict(view=vj, parent=_parent_text(seq), minus=f["strand"] == "-", spans=f["spans"])))
                expect.append(("getslice", dict(case=case, feature=f), real, resid))
                # the contiguous form get_slice(allow_gaps=True) vs getSliceContig
                if "err" not in real:
                    try:
                        rc_ = str([x for x in seq.get_features(name=f["name"], allow_partial=True)][0].get_slice(allow_gaps=True))
                    except Exception as e:  # noqa: BLE001
                        rc_ = f"raised {type(e).__name__}: {e}"
                    reqs.append(("getslice_contig", dict(view=vj, parent=_parent_text(seq), minus=f["strand"] == "-", spans=f["spans"])))
                    expect.append(("getslice_contig", dict(case=case, feature=f), real, rc_))
                if case["kind"] == "new":
                    # new-style `_mapped`: the model predicts exactly when the offset guard fires
                    reqs.append(("getslice_new", dict(view=vj, parent=_parent_text(seq), minus=f["strand"] == "-", spans=f["spans"])))
                    expect.append(("getslice_new", dict(case=case, feature=f), real, resid))
                # (c') the spec of the contiguous form vs an independent oracle AND vs the residues get_slice(allow_gaps=True)
                # really returned (unit-stride views; features whose spans are disjoint, as the theorem assumes)
                sp_ = sorted(f["spans"])
                if abs(vj["step"]) == 1 and "err" not in real and all(sp_[k][1] <= sp_[k + 1][0] for k in range(len(sp_) - 1)):
                    ops_ = oracle_positions(dict(f, strand="+"), state)
                    hull_ = list(range(ops_[0], ops_[-1] + 1)) if ops_ else []
                    reqs.append(("denote_contig", dict(spans=sp_, minus=f["strand"] == "-", p0=p0, p1=p1)))
                    expect.append(("denote_contig", dict(case=case, feature=f, p0=p0, p1=p1),
                                   dict(pos=hull_[::-1] if f["strand"] == "-" else hull_, comp=f["strand"] == "-"),
                                   (rc_, _parent_text(seq), vj["offset"])))
                # (c) spec function vs oracle
                reqs.append(("denote", dict(spans=sorted(f["spans"]), minus=f["strand"] == "-", p0=p0, p1=p1)))
                expect.append(("denote", dict(feature=f, p0=p0, p1=p1), dict(pos=oracle_positions(f, state), comp=f["strand"] == "-"), None))
        # (b'') copy(sliced=True): the slice record of the copy
        if abs(vj["step"]) == 1 and L > 0:
            try:
                cj = view_json(seq.copy())
            except Exception as e:  # noqa: BLE001
                cj = {"err": type(e).__name__}
            reqs.append(("copyview", dict(view=vj)))
            expect.append(("copyview", dict(case=case), cj, None))
        # (b') STRIDED views: feature map and residues spelled from the model's positions (viewPosAny)
        if abs(vj["step"]) != 1 and L > 0:
            for f in case["feats"]:
                real = _real_feature(seq, f)
                if real is None:
                    continue
                resid = None
                if "err" not in real:
                    try:
                        resid = str([x for x in seq.get_features(name=f["name"], allow_partial=True)][0].get_slice())
                    except Exception as e:  # noqa: BLE001
                        resid = f"raised {type(e).__name__}: {e}"
                reqs.append(("feature_any", dict(view=vj, minus=f["strand"] == "-", spans=f["spans"])))
                expect.append(("feature_any", dict(case=case, feature=f), real, (resid, case)))
    # (h) what add_feature on a view writes to the db vs addFeatureRecord
    for i in range(ctx.budget(150, 1500)):
        import random as _random

        acase = gen_added_case(rng)
        try:
            root = mk_seq(acase["kind"], acase["text"], acase["offset"])
            v = root
            for op in acase["ops"]:
                v = apply_op(v, op)
        except Exception:  # noqa: BLE001
            continue
        L = len(v)
        if L < 3 or root.annotation_db is not v.annotation_db:
            continue
        r_ = _random.Random(acase["seed"])
        pts = sorted(r_.sample(range(0, L + 1), 2 * acase["k"]))
        spans = [[pts[2 * j], pts[2 * j + 1]] for j in range(acase["k"])]
        try:
            v.add_feature(biotype="gene", name="added", spans=[tuple(x) for x in spans], strand=acase["strand"])
            rec = list(root.annotation_db.get_features_matching(name="added"))[0]
            real = dict(spans=sorted([int(a), int(b)] for a, b in rec["spans"]), minus=rec["strand"] == "-")
        except Exception as e:  # noqa: BLE001
            real = {"err": type(e).__name__}
        reqs.append(("addfeature", dict(view=view_json(v), spans=spans, minus=acase["strand"] == "-")))
        expect.append(("addfeature", dict(added_case=acase, spans=spans), real, None))
    # (h') the WHOLE of add_feature (db record + the Feature it returns, or the exception class) vs addFeature, also for span
    # lists that overhang the view, are unordered, empty-width or reversed pairs (the model of the translated function)
    for i in range(ctx.budget(150, 1500)):
        acase = gen_added_case(rng)
        try:
            root = mk_seq(acase["kind"], acase["text"], acase["offset"])
            v = root
            for op in acase["ops"]:
                v = apply_op(v, op)
        except Exception:  # noqa: BLE001
            continue
        L = len(v)
        if L < 3 or root.annotation_db is not v.annotation_db:
            continue
        spans, klass = _gen_rel_spans(rng, L)
        if not spans:
            continue
        strand = rng.choice(["+", "-", None])
        try:
            kw = dict(biotype="gene", name="addedfull", spans=[tuple(x) for x in spans])
            if strand is not None:
                kw["strand"] = strand
            f = v.add_feature(**kw)
            rec = list(root.annotation_db.get_features_matching(name="addedfull"))[0]
            real = dict(db=[[int(a), int(b)] for a, b in rec["spans"]], minus=rec["strand"] == "-",
                        spans=[["lost", int(x.length)] if x.lost else [int(x.start), int(x.end)] for x in f.map.spans],
                        reversed=bool(f.reversed))
        except (ValueError, IndexError, AssertionError, RuntimeError) as e:
            real = {"err": type(e).__name__}
        reqs.append(("addfeature_full", dict(view=view_json(v), spans=spans, minus=strand == "-")))
        expect.append(("addfeature_full", dict(added_case=acase, spans=spans, strand=strand, klass=klass), real, None))
    # (d) projection of sequence features onto alignment columns (Aligned.make_feature) vs FMap.project
    def fm_json(m):
        return dict(pl=int(m.parent_length), spans=[["l", int(x.length)] if x.lost else ["s", int(x.start), int(x.end), bool(x.reverse)] for x in m.spans])

    for i in range(ctx.budget(60, 600)):
        acase = gen_aln_case(rng)
        try:
            aln = build_aln(acase)
        except Exception:  # noqa: BLE001
            continue
        for spec in acase["feats"]:
            aligned = aln.named_seqs[spec["seqid"]]
            mk = lambda: dict(seqid=spec["seqid"], biotype="gene", name=spec["name"], spans=[list(x) for x in spec["spans"]], strand=spec["strand"])
            try:
                A = aligned.map.to_feature_map()
                annot = aligned.data.make_feature(mk())
                real = fm_json(aligned.make_feature(mk(), aln).map)
            except Exception as e:  # noqa: BLE001
                real = {"err": type(e).__name__}
                continue
            reqs.append(("project", dict(A=fm_json(A), fm=fm_json(annot.map))))
            expect.append(("project", dict(aln_case=acase, feature=spec), real, None))
    # (e) Sequence.make_feature called directly with view-relative spans (user-facing; the spans need not be what
    # get_features would pass): well-formed, overlapping and malformed span lists on forward / rc'd / strided views.
    # Ties makeFeature's error branches (locate ValueError, first/last order check), which db records never reach.
    # The EMPTY span list is left out: numpy's min() of an empty array raises ValueError there, the model's
    # minOfSpans [] = 0 does not mirror that (documented model deviation; the annotation db refuses empty span lists).
    for i in range(ctx.budget(150, 1500)):
        case = gen_case(rng, strided=rng.random() < 0.15)
        try:
            seq, state = build(case)
        except Exception:  # noqa: BLE001
            continue
        L = len(seq)
        for _ in range(3):
            spans, cls = _gen_rel_spans(rng, L)
            if not spans:
                continue
            strand = rng.choice(["+", "-", None])
            real = _real_make_feature(seq, spans, strand)
            reqs.append(("makefeature", dict(L=L, rced=bool(seq._seq.is_reversed), minus=strand == "-", spans=spans)))
            expect.append(("makefeature", dict(case=case, rel_spans=spans, strand=strand, cls=cls), real, None))
    # (f) exhaustive small box, one span: every (s, e) in [-3, L+3]^2 (s < e, s = e and s > e) on a forward and an
    # rc'd whole sequence of length L = 1..5, old and new Sequence; for s < e on the forward view also the per-span
    # composite clipLocate (what span_on_view is stated about): the real map minus the pre / post lost spans
    for kind in ("old", "new"):
        for L in range(1, 6):
            fwd = mk_seq(kind, "ACGTA"[:L], 0)
            for seq in (fwd, fwd.rc()):
                rced = bool(seq._seq.is_reversed)
                for s in range(-3, L + 4):
                    for e in range(-3, L + 4):
                        real = _real_make_feature(seq, [[s, e]], "+")
                        reqs.append(("makefeature", dict(L=L, rced=rced, minus=False, spans=[[s, e]])))
                        expect.append(("makefeature", dict(kind=kind, L=L, rced=rced, rel_spans=[[s, e]], strand="+", cls="box"), real, None))
                        if s < e and not rced and "err" not in real:
                            core = list(real["spans"])
                            if s < 0:
                                core = core[1:]
                            if e > L:
                                core = core[:-1]
                            reqs.append(("cliplocate", dict(L=L, span=[s, e])))
                            expect.append(("cliplocate", dict(kind=kind, L=L, span=[s, e]), core, None))
    # (g) feature_after_history end to end: the model runs the WHOLE history itself (C01's runOps from ofString at the
    # annotation offset), then featureOnView + getSlice; the real side applies the same slice / rc history (copy ops
    # left out: they are not ops of the model) and asks get_features + get_slice.  View record, displayed string and
    # residues are compared.
    for i in range(ctx.budget(120, 1200)):
        case = gen_case(rng)
        hist = [op for op in case["ops"] if op[0] in ("s", "rc")]
        hcase = dict(case, ops=hist)
        try:
            seq, state = build(hcase)
        except Exception:  # noqa: BLE001
            continue
        if len(seq) == 0:
            continue
        jops = [["s", op[1], op[2], None] if op[0] == "s" else ["rc"] for op in hist]
        for f in case["feats"]:
            try:
                got = [x for x in seq.get_features(name=f["name"], allow_partial=True)]
                if not got:
                    continue
                try:
                    resid = str(got[0].get_slice())
                except Exception as e:  # noqa: BLE001
                    resid = f"raised {type(e).__name__}: {e}"
            except Exception as e:  # noqa: BLE001
                resid = {"err": type(e).__name__}
            reqs.append(("history", dict(parent=case["text"], offset=case["offset"], ops=jops, minus=f["strand"] == "-", spans=f["spans"])))
            expect.append(("history", dict(case=hcase, feature=f), dict(view=view_json(seq), str=str(seq), slice=resid), state))
    replies = ctx.driver.batch(reqs)
    for (kind, inp, real, extra), rep in zip(expect, replies):
        out["evaluations"] += 1
        bump(out, "corr_kind", kind)
        if kind == "window":
            if real is None:
                continue
            if real != rep:
                add_failure(out, "corr", "queryWindow model differs from the window get_features sends to the db", inp, rep, real, confirmed=False)
            elif isinstance(real, dict):
                bump(out, "window_err", real["err"])
            elif inp["window"] != [None, None]:
                out["nontrivial"].add(("w", json.dumps(inp["case"]["ops"]), inp["case"]["text"], str(inp["window"])))
        elif kind == "makefeature":
            bump(out, "makefeature_class", inp["cls"])
            if "err" in real or "err" in rep:
                bump(out, "makefeature_err", str(real.get("err")))
            if rep != real:
                add_failure(out, "corr", "makeFeature model differs from Sequence.make_feature called directly", inp, rep, real, confirmed=False)
            elif "err" in real or any(x[0] == "lost" for x in real["spans"]) or real["reversed"]:
                out["nontrivial"].add(("mf", inp.get("L", 0), json.dumps(inp["rel_spans"]), inp["strand"], json.dumps(inp.get("case", {}).get("ops"))))
        elif kind == "history":
            if "err" in rep and "view" not in rep:
                add_failure(out, "corr", "the model's history failed where the real one succeeded", inp, rep, real, confirmed=False)
            elif rep["view"] != real["view"] or rep["str"] != real["str"]:
                add_failure(out, "corr", "runOps model: view record / displayed string after the history differ", inp,
                            dict(view=rep["view"], str=rep["str"]), dict(view=real["view"], str=real["str"]), confirmed=False)
            elif isinstance(real["slice"], str) and real["slice"].startswith("raised"):
                if _known_offset_guard(inp["case"], real["slice"]):
                    bump(out, "history_get_slice_raised", "ValueError: cannot set offset")
                else:
                    add_failure(out, "corr", "get_slice raised after the history where the model returns residues", inp, rep["slice"], real["slice"], confirmed=False)
            elif rep["slice"] != real["slice"]:
                add_failure(out, "corr", "feature_after_history: model residues after the whole history differ from get_slice", inp, rep["slice"], real["slice"], confirmed=False)
            else:
                bump(out, "history_len_unit", len(inp["case"]["ops"]))
                if len(inp["case"]["ops"]) > 1 or extra[2]:
                    out["nontrivial"].add(("hist", inp["case"]["text"], json.dumps(inp["case"]["ops"]), inp["feature"]["name"]))
        elif kind == "cliplocate":
            if rep != real:
                add_failure(out, "corr", "clipLocate (clipSpan then locate) differs from the real map of one span", inp, rep, real, confirmed=False)
        elif kind == "project":
            got = None if "err" in rep else dict(pl=rep["pl"], spans=rep["spans"])
            if got != real:
                add_failure(out, "corr", "FMap.project model differs from Aligned.make_feature", inp, got, real, confirmed=False)
            elif any(x[0] == "l" for x in real["spans"]) or len(real["spans"]) > 1:
                out["nontrivial"].add(("proj", json.dumps(inp["aln_case"]["rows"]), inp["feature"]["name"]))
        elif kind == "addfeature":
            if rep != real:
                add_failure(out, "corr", "addFeatureRecord model differs from the record add_feature wrote", inp, rep, real, confirmed=False)
            else:
                out["nontrivial"].add(("addf", json.dumps(inp["added_case"]["ops"]), inp["added_case"]["text"], str(inp["spans"])))
        elif kind == "addfeature_full":
            bump(out, "addfeature_full", ("err:" + real["err"] if "err" in real else "ok") + ":" + inp["klass"])
            if "db" in rep:
                # the record is observed after the db's own normalisation (C17: sorted(sorted(coords) for coords in spans))
                rep = dict(rep, db=sorted(sorted(x) for x in rep["db"]))
            if "db" in real:
                real = dict(real, db=sorted(sorted(x) for x in real["db"]))
            if rep != real:
                add_failure(out, "corr", "addFeature model differs from Sequence.add_feature (db record / returned feature / exception class)", inp, rep, real, confirmed=False)
            elif "err" not in real and (any(x[0] == "lost" for x in real["spans"]) or inp["added_case"]["ops"]):
                out["nontrivial"].add(("addfull", json.dumps(inp["added_case"]["ops"]), inp["added_case"]["text"], str(inp["spans"])))
        elif kind == "copyview":
            if rep != real:
                add_failure(out, "corr", "copyView model differs from the slice record of Sequence.copy()", inp, rep, real, confirmed=False)
            elif real.get("offset"):
                out["nontrivial"].add(("copy", json.dumps(inp["case"]["ops"]), inp["case"]["text"], inp["case"]["offset"]))
        elif kind == "getslice_new":
            raised = isinstance(extra, str) and extra.startswith("raised")
            bump(out, "new_mapped", "guard-fires" if raised else "residues")
            if "err" in real:
                pass  # make_feature itself raised: compared by the feature stream
            elif raised:
                if not ("cannot set offset" in extra and rep == {"err": "ValueError"}):
                    add_failure(out, "corr", "getSliceNew: the real new-style get_slice raised where the model does not (or another error)", inp, rep, extra, confirmed=False)
            elif rep != extra:
                add_failure(out, "corr", "getSliceNew model differs from the new-style get_slice (guard or residues)", inp, rep, extra, confirmed=False)
        elif kind == "feature_any":
            resid, case = extra
            bump(out, "strided_feature", "err" if "err" in real else "ok")
            if "err" in real or "err" in rep:
                if real != rep:
                    add_failure(out, "corr", "featureOnView (strided) and make_feature disagree about raising", inp, rep, real, confirmed=False)
                continue
            if dict(spans=rep["spans"], reversed=rep["reversed"]) != real:
                add_failure(out, "corr", "featureOnView (strided) differs from the feature map make_feature builds", inp, rep, real, confirmed=False)
                continue
            txt = "".join(case["text"][p - case["offset"]] for p in rep["pos"])
            txt = txt.translate(COMP) if rep["comp"] else txt
            if isinstance(resid, str) and resid.startswith("raised") and "cannot set offset" in resid and case["kind"] == "new":
                bump(out, "get_slice_raised", "strided:new-offset-guard")
            elif txt != resid:
                add_failure(out, "corr", "strided model positions do not spell the residues get_slice returned", inp, txt, resid, confirmed=False)
            else:
                out["nontrivial"].add(("fs", json.dumps(inp["case"]["ops"]), inp["case"]["text"], inp["feature"]["name"]))
        elif kind == "getslice_contig":
            if rep != extra:
                add_failure(out, "corr", "getSliceContig model differs from get_slice(allow_gaps=True)", inp, rep, extra, confirmed=False)
            elif (inp["feature"]["strand"] == "-") != (inp["case"]["ops"].count(["rc"]) % 2 == 1):
                out["nontrivial"].add(("contig", json.dumps(inp["case"]["ops"]), inp["case"]["text"], inp["feature"]["name"]))
        elif kind == "getslice":
            if "err" in real:
                if rep != real:
                    add_failure(out, "corr", "getSlice model and get_slice disagree about raising", inp, rep, real, confirmed=False)
            elif isinstance(extra, str) and extra.startswith("raised"):
                # only the open finding C04-new-sequence-feature-slice-offset-guard is tolerated here (new-style
                # Sequence._mapped, not modelled); any other exception where the model returns residues is a mismatch
                if _known_offset_guard(inp["case"], extra):
                    bump(out, "get_slice_raised", extra.split(":")[0] + ": cannot set offset")
                else:
                    add_failure(out, "corr", "get_slice raised where the getSlice model returns residues", inp, rep, extra, confirmed=False)
            elif rep != extra:
                add_failure(out, "corr", "getSlice model differs from the residues get_slice returned", inp, rep, extra, confirmed=False)
        elif kind == "denote_contig":
            got_res, ptext, poff = extra
            bump(out, "denote_contig", "empty" if not real["pos"] else "hull")
            if rep != real:
                add_failure(out, "corr", "Spec.denoteContig differs from the Python oracle", inp, rep, real, confirmed=False)
            elif not (isinstance(got_res, str) and got_res.startswith("raised")):
                comp_ = {"A": "T", "C": "G", "G": "C", "T": "A"}
                want = "".join((comp_.get(ptext[q - poff], ptext[q - poff]) if rep["comp"] else ptext[q - poff]) for q in rep["pos"])
                if want != got_res:
                    add_failure(out, "corr", "Spec.denoteContig (contiguous_feature_on_view) does not spell the residues get_slice(allow_gaps=True) returned", inp, want, got_res, confirmed=False)
                elif len(real["pos"]) > 1:
                    out["nontrivial"].add(("dcontig", json.dumps(inp["case"]["ops"]), inp["case"]["text"], inp["feature"]["name"]))
        elif kind == "denote":
            if rep != real:
                add_failure(out, "corr", "Spec.denote differs from the Python oracle", inp, rep, real, confirmed=False)
        else:
            resid, case, state = extra
            if "err" in real or "err" in rep:
                bump(out, "feature_err", str(real.get("err")))
                if real != rep:
                    add_failure(out, "corr", "featureOnView model and make_feature disagree about raising", inp, rep, real, confirmed=False)
                else:
                    out["nontrivial"].add(("ferr", json.dumps(inp["case"]["ops"]), inp["case"]["text"], inp["feature"]["name"]))
                continue
            if dict(spans=rep["spans"], reversed=rep["reversed"]) != real:
                add_failure(out, "corr", "featureOnView model differs from the feature map make_feature builds", inp, rep, real, confirmed=False)
                continue
            # the model's slice positions must spell the residues the real get_slice returned
            off = case["offset"]
            s = "".join(case["text"][p - off] for p in rep["pos"])
            s = s.translate(COMP) if rep["comp"] else s
            if isinstance(resid, str) and resid.startswith("raised"):
                # get_slice itself raised (Sequence._mapped / constructor, not modelled): spec_check reports it;
                # tolerated here only for the open new-style offset-guard finding
                if not _known_offset_guard(case, resid):
                    add_failure(out, "corr", "get_slice raised where the model yields slice positions", inp, s, resid, confirmed=False)
            elif s != resid:
                add_failure(out, "corr", "model slice positions do not spell the residues get_slice returned", inp, s, resid, confirmed=False)
            elif any(x[0] == "lost" for x in rep["spans"]) or state[2]:
                out["nontrivial"].add(("f", json.dumps(inp["case"]["ops"]), inp["case"]["text"], inp["feature"]["name"]))
        if len(out["samples"]) < 4 and kind == "feature" and "err" not in rep and len(rep["spans"]) > 1:
            out["samples"].append(dict(input=inp, model=rep))
    return out


# --------------------------------------------------------------------------
# findings plumbing
# --------------------------------------------------------------------------
def _aln_hist_state(case):
    """(A, B, rev): the original alignment columns [A, B) the history retains, and the orientation (pure arithmetic)"""
    n = len(next(iter(case["rows"].values())))
    A, B, rev = 0, n, False
    for op in case["ops"]:
        if op[0] == "rc":
            rev = not rev
        elif op[0] in ("deepcopy", "copy"):
            continue
        else:
            a, b, _ = slice(op[1], op[2], None).indices(B - A)
            b = max(a, b)
            A, B = (B - b, B - a) if rev else (A + a, A + b)
    return A, B, rev


def _unrebased_explains(f):
    """True iff the failure is exactly what 'alignment-level feature coordinates are read, unchanged, on the sliced
    alignment' predicts: a wrong slice must equal the stored columns [a, b) taken from the CURRENT alignment
    (plus-strand), an exception must come with a stored start beyond the current alignment length.  Any other wrong
    output of an alignment-level feature is a different violation and is not matched."""
    inp = f.get("input") or {}
    case = inp.get("aln_hist_case")
    if not case:
        return False
    A, B, _ = _aln_hist_state(case)
    sig = f.get("sig", "")
    if ":raises:" in sig:
        return any(x["spans"][0][0] > B - A for x in case.get("aln_feats", []))
    spec = inp.get("feature")
    if not spec or ":slice:" not in sig:
        return False
    a, b = spec["spans"][0]
    pred = {k: v[A:B][a:b] for k, v in case["rows"].items()}
    return f.get("got") == pred and A > 0


def match_finding(f, k):
    if f.get("sig") not in k.get("sigs", []):
        return False
    r = k.get("restrict") or {}
    if r.get("got_contains") and r["got_contains"] not in str(f.get("got")):
        return False
    if r.get("raises_contains") and ":raises:" in f.get("sig", "") and r["raises_contains"] not in str(f.get("got")):
        return False
    if r.get("kind") and ((f.get("input") or {}).get("case") or {}).get("kind") != r["kind"]:
        return False
    if r.get("unrebased") and not _unrebased_explains(f):
        return False
    cc = (f.get("input") or {}).get("coll_case")
    if r.get("coll_has_rc") and not (cc and any(op[0] == "rc" for op in cc["ops"])):
        return False
    if r.get("coll_minus_only"):
        want, got = f.get("expected"), f.get("got")
        if not (cc and isinstance(want, dict) and isinstance(got, dict) and set(want) == set(got)):
            return False
        spans = {x["name"]: x["spans"] for x in cc["feats"]}
        # explained only if every wrong feature is a single span that does not start at 0 (the double offset)
        if any(want[k] != got[k] and not (len(spans[k]) == 1 and spans[k][0][0] != 0) for k in want):
            return False
    return True


def _first(fails):
    if not fails:
        return None
    what, inp, want, got, sig = fails[0]
    o = new_outcome()
    add_failure(o, "spec", what, inp, want, got, sig=sig)
    return o["failures"][0]


def _other_case(w):
    if "added_case" in w:
        return run_added_case(w["added_case"])
    if "aln_added_case" in w:
        return run_aln_added_case(w["aln_added_case"])
    if "degap_case" in w:
        return run_degap_case(w["degap_case"])
    if "overhang_case" in w:
        return run_overhang_case(w["overhang_case"])
    if "coll_case" in w:
        return run_coll_case(w["coll_case"])
    return None


def check_witness(ctx, w):
    if _other_case(w) is not None:
        return _first(_other_case(w))
    if "aln_hist_case" in w:
        return _first(run_aln_hist_case(w["aln_hist_case"]))
    if "aln_case" in w:
        return _first(run_aln_case(w["aln_case"]))
    return _first(run_case(w["case"], wins=[tuple(w["window"])]))


def replay(ctx, data):
    f = data.get("failing_input") or {}
    inp = f.get("input") or {}
    if _other_case(inp) is not None:
        fails = _other_case(inp)
    elif "aln_hist_case" in inp:
        fails = run_aln_hist_case(inp["aln_hist_case"])
    elif "aln_case" in inp:
        fails = run_aln_case(inp["aln_case"])
    elif "case" in inp:
        fails = run_case(inp["case"], wins=[tuple(inp["window"])] if "window" in inp else None, rng=ctx.subrng("replay"))
    else:
        return False
    if f.get("sig"):
        # the replay is about the recorded failure class, not about other (e.g. known) failures of the same input
        fails = [x for x in fails if x[4] == f["sig"]]
    for x in fails[:3]:
        print(x[0], "| expected", str(x[2])[:300], "| got", str(x[3])[:300])
    return bool(fails)
