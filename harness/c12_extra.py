"""C12 — additional spec-level checks (real implementation vs plain-string oracles) for the entry points around
the translation core: genetic-code look-up by id / name, start / stop / sense codon sets, regex and stop index
helpers, degenerate / gapped / RNA / lower-case input, has_terminal_stop / trim_stop_codon(s), select_translatable /
best_frame on both strands, complement / rc against the IUPAC table, multi-character resolve_ambiguity,
degenerate_from_seq, strand_symmetric_motifs, can_pair / can_mispair / can_match.

Every checker returns None or dict(what, expected, got, sig) with a narrow signature.  Oracles for canonical input
follow the property; for gapped / ambiguous input they follow the docstrings of the implementation in question
(old: 'A--' -> '?', ambiguity resolved to an amino-acid ambiguity code; new: gap -> '-', ambiguity -> 'X').
"""
from __future__ import annotations

import itertools
import re

BASES = "TCAG"
IUPAC = {
    "A": "A", "C": "C", "G": "G", "T": "T", "R": "AG", "Y": "CT", "W": "AT", "S": "CG", "K": "GT", "M": "AC",
    "B": "CGT", "D": "AGT", "H": "ACT", "V": "ACG", "N": "ACGT",
}
IUPAC_COMP = {"A": "T", "C": "G", "G": "C", "T": "A", "R": "Y", "Y": "R", "W": "W", "S": "S", "K": "M", "M": "K",
              "B": "V", "V": "B", "D": "H", "H": "D", "N": "N", "-": "-", "?": "?"}
AA_AMBIG = {frozenset("ND"): "B", frozenset("QE"): "Z"}


def codons():
    return ["".join(c) for c in itertools.product(BASES, repeat=3)]


def table(cs):
    return dict(zip(codons(), cs))


def _call(f):
    try:
        return f()
    except Exception as e:
        return {"err": type(e).__name__}


def _u(s, rna):
    return s.replace("T", "U") if rna else s


def o_rc(s):
    return s.translate(str.maketrans("ACGT", "TGCA"))[::-1]


# --------------------------------------------------------------------------
# 1. genetic code objects reached by id / str(id) / name
# --------------------------------------------------------------------------
def check_gc_lookup(case, T):
    from cogent3.core import genetic_code as og
    from cogent3.core import new_genetic_code as ng

    impl, code, via = case["impl"], case["code"], case["via"]
    rows = {r[0]: r for r in T["old_codes" if impl == "old" else "new_codes"]}
    _, name, cs, starts = rows[code]
    mod = og if impl == "old" else ng
    arg = code if via == "id" else str(code) if via == "str" else name
    gc = _call(lambda: mod.get_code(arg))
    pre = f"{impl}.gc.lookup:{via}"

    def bad(acc, want, got):
        return dict(what=f"{impl} get_code({arg!r}).{acc} does not follow the table of code {code}", expected=want, got=got, sig=f"{pre}:{acc}")

    if isinstance(gc, dict):
        return bad("get_code", "a genetic code", gc)
    tbl = table(cs)
    cods = codons()
    if (gc.ID, gc.name) != (code, name):
        return bad("ID/name", [code, name], [gc.ID, gc.name])
    for form, f in (("dna", lambda c: c), ("rna", lambda c: c.replace("T", "U")), ("lower", str.lower)):
        got = "".join(gc[f(c)] for c in cods)
        if got != cs:
            return bad(f"__getitem__[{form}]", cs, got)
        got = [c for c in cods if gc.is_stop(f(c))]
        want = [c for c in cods if tbl[c] == "*"]
        if got != want:
            return bad(f"is_stop[{form}]", want, got)
    stops = sorted(c for c in cods if tbl[c] == "*")
    got = sorted(gc["*"])
    if got != stops:
        return bad("__getitem__['*']", stops, got)
    for aa in sorted(set(cs)):
        want = sorted(c for c in cods if tbl[c] == aa)
        got = sorted(gc[aa])
        if got != want:
            return bad("__getitem__[aa]", {aa: want}, {aa: got})
    want_sense = [c for c in cods if tbl[c] != "*"]
    got = list(gc.sense_codons)
    if sorted(got) != sorted(want_sense):
        return bad("sense_codons", want_sense, got)
    want_starts = sorted(c for c, m in zip(cods, starts) if m != "-")
    got = sorted(gc.start_codons)
    if got != want_starts:
        return bad("start_codons", want_starts, got)
    for inc in (False, True):
        want = sorted(cods if inc else want_sense)
        got = sorted(str(x) for x in gc.get_alphabet(include_stop=inc))
        if got != want:
            return bad(f"get_alphabet(include_stop={inc})", want, got)
    if impl == "new":
        got = sorted(gc.stop_codons)
        if got != stops:
            return bad("stop_codons", stops, got)
        want = [o_rc(c) for c in cods]
        got = list(gc.anticodons)[:64]
        if got != want:
            return bad("anticodons", want[:8], got[:8])
        got = sorted(str(x) for x in gc.get_alphabet(include_gap=True))
        if got != sorted(want_sense + ["---"]):
            return bad("get_alphabet(include_gap=True)", "sense codons + ---", got)
    else:
        got = [c for c in cods if gc.is_start(c)] + [c for c in cods if gc.is_start(c.replace("T", "U").lower())]
        if got != [c for c in cods if c in want_starts] * 2:
            return bad("is_start", want_starts, got)
        for aa in sorted(set(cs)):
            want = sorted(o_rc(c) for c in cods if tbl[c] == aa)
            got = sorted(gc.anticodons[aa])
            if got != want:
                return bad("anticodons", {aa: want}, {aa: got})
        if (gc.code_sequence, gc.start_codon_sequence) != (cs, starts):
            return bad("code_sequence", cs, gc.code_sequence)
        probe = "".join(cods) + "A" + "".join(cods) + "CC" + "".join(cods)
        for fr in range(3 if stops else 0):  # (a code without stop codons has no meaningful stop pattern)
            want = [i for i in range(fr, len(probe) - 2, 3) if tbl[probe[i : i + 3]] == "*"]
            got = list(gc.get_stop_indices(probe, fr))
            # the regex scan is non-overlapping: a stop codon overlapped by an earlier out-of-frame match is not reported
            found = [m.start() for m in re.finditer("(" + "|".join(stops) + ")", probe)] if stops else []
            want_scan = [i for i in found if i % 3 == fr]
            if got != want_scan or not set(got) <= set(want):
                return bad(f"get_stop_indices(start={fr})", want_scan, got)
        pep = "".join(sorted(set(cs)))
        rx = _call(lambda: gc.to_regex(pep))
        want = "".join("(?:" + "|".join(sorted(c for c in cods if tbl[c] == aa)) + ")" for aa in pep)
        norm = None if isinstance(rx, dict) else "".join("(?:" + "|".join(sorted(g.split("|"))) + ")" for g in re.findall(r"\(\?:([^)]*)\)", rx))
        if norm != want:
            return bad("to_regex", want[:80], (norm or rx) if not isinstance(norm, str) else norm[:80])
        other = T["old_codes"][0]
        want = {c: a + b for c, a, b in zip(cods, cs, other[2]) if a != b}
        got = gc.changes(og.get_code(other[0]))
        if got != want:
            return bad("changes", want, got)
    return None


def check_available_codes(case, T):
    from cogent3.core import genetic_code as og
    from cogent3.core import new_genetic_code as ng

    impl = case["impl"]
    mod = og if impl == "old" else ng
    got = sorted((int(a), b) for a, b in mod.available_codes().to_list())
    want = sorted((r[0], r[1]) for r in T["old_codes" if impl == "old" else "new_codes"])
    if got != want:
        return dict(what=f"{impl} available_codes() does not list the code tables", expected=want[:5], got=got[:5], sig=f"{impl}.available_codes")
    return None


# --------------------------------------------------------------------------
# 2. gc.translate on degenerate / gapped / RNA / lower-case text (plus strand)
# --------------------------------------------------------------------------
def o_old_codon(tbl, c):
    k = c.upper().replace("U", "T")
    return tbl.get(k, "X")


def o_new_codon(tbl, c):
    if c in tbl:
        return tbl[c]
    if set(c) <= set("TCAG-"):
        return "-"
    return "X"


def _codon_class(c):
    if set(c) <= set(BASES):
        return "canonical"
    if set(c) <= set("TCAG-"):
        return "gapped"
    if set(c) <= set("TCAGU"):
        return "rna"
    if c != c.upper():
        return "lower"
    return "ambiguous"


def check_translate_degenerate(case, T):
    from cogent3.core import genetic_code as og
    from cogent3.core import new_genetic_code as ng

    impl, code, s, start = case["impl"], case["code"], case["s"], case["start"]
    cs = {r[0]: r[2] for r in T["old_codes" if impl == "old" else "new_codes"]}[code]
    tbl = table(cs)
    f = o_old_codon if impl == "old" else o_new_codon
    chunks = [s[i : i + 3] for i in range(start, len(s) - 2, 3)]
    want = "".join(f(tbl, c) for c in chunks)
    gc = (og if impl == "old" else ng).get_code(code)
    got = _call(lambda: gc.translate(s, start))
    if got == want:
        return None
    cls = "raises:" + got["err"] if isinstance(got, dict) else "length" if len(got) != len(want) else _codon_class(
        next(c for c, a, b in zip(chunks, want, got) if a != b))
    return dict(what=f"{impl} GeneticCode.translate on gapped / ambiguous / RNA / lower-case text ({cls} codon)", expected=want, got=got,
                sig=f"{impl}.gc.translate.degenerate:{cls}")


# --------------------------------------------------------------------------
# 3. has_terminal_stop / trim_stop_codon, sequence level, incl. gaps
# --------------------------------------------------------------------------
def o_has_terminal_stop(tbl, s, strict):
    """True/False or None (= rejected)"""
    d = s.replace("-", "")
    if len(d) % 3 == 0:
        return len(d) >= 3 and tbl.get(d[-3:]) == "*"
    return None if strict else False


def o_trim_stop(tbl, s, strict):
    h = o_has_terminal_stop(tbl, s, strict)
    if h is None:
        return None
    if not h:
        return s
    if "-" not in s:
        return s[:-3]
    stops = [c for c, a in tbl.items() if a == "*"]
    m = re.search("(" + "|".join(stops) + ")[-]*$", s)
    if not m:
        return s  # the stop codon is interrupted by gaps: left alone
    return s[: m.start()] + "-" * (len(s) - m.start())


def _mk_seq(impl, s, moltype="dna"):
    if impl == "old":
        import cogent3

        return cogent3.make_seq(s, name="s", moltype=moltype)
    from cogent3.core import new_moltype

    return new_moltype.get_moltype(moltype).make_seq(seq=s, name="s")


def _gcobj(impl, code):
    from cogent3.core import genetic_code as og
    from cogent3.core import new_genetic_code as ng

    return (og if impl == "old" else ng).get_code(code)


def check_seq_stop_api(case, T):
    impl, code, s, strict, mt = case["impl"], case["code"], case["s"], case["strict"], case.get("moltype", "dna")
    cs = {r[0]: r[2] for r in T["old_codes" if impl == "old" else "new_codes"]}[code]
    tbl = table(cs)
    if not s.replace("-", ""):
        return None
    rna = mt == "rna"
    shape = ("gapped" if "-" in s else "ungapped") + f":len%3={len(s.replace('-', '')) % 3}"
    gc = _gcobj(impl, code)
    want = o_has_terminal_stop(tbl, s, strict)
    got = _call(lambda: bool(_mk_seq(impl, _u(s, rna), mt).has_terminal_stop(gc=gc, strict=strict)))
    if not (got == want or (want is None and isinstance(got, dict) and got["err"] in ("AlphabetError", "ValueError"))):
        return dict(what=f"{impl} Sequence.has_terminal_stop(strict={strict}) [{mt}]", expected="rejected" if want is None else want, got=got,
                    sig=f"{impl}.seq.has_terminal_stop[{mt}]:{shape}")
    want = o_trim_stop(tbl, s, strict)
    got = _call(lambda: str(_mk_seq(impl, _u(s, rna), mt).trim_stop_codon(gc=gc, strict=strict)))
    wantu = None if want is None else _u(want, rna)
    if not (got == wantu or (want is None and isinstance(got, dict) and got["err"] in ("AlphabetError", "ValueError"))):
        cls = shape
        if rna and "-" in s and want is not None and want != s and got == _u(s, True):
            cls = "rna-gapped-terminal-stop-not-trimmed"
        return dict(what=f"{impl} Sequence.trim_stop_codon(strict={strict}) [{mt}]", expected="rejected" if want is None else wantu, got=got,
                    sig=f"{impl}.seq.trim_stop_codon[{mt}]:{cls}")
    return None


# --------------------------------------------------------------------------
# 4. Sequence.get_translation with gapped / ambiguous codons
# --------------------------------------------------------------------------
def o_old_gapped_translation(tbl, s, io, is_, ts):
    """old docstring semantics; None = rejected"""
    if not (is_ or not ts):
        s = o_trim_stop(tbl, s, not io)
        if s is None:
            return None
    out = []
    for i in range(0, len(s) - 2, 3):
        c = s[i : i + 3]
        if c == "---":
            out.append("-")
            continue
        if "-" in c:
            if not io:
                return None
            out.append("?")
            continue
        aas = {tbl["".join(x)] for x in itertools.product(*[IUPAC[ch] for ch in c])}
        if not is_:
            aas.discard("*")
        if not aas:
            return None
        if len(aas) == 1:
            out.append(next(iter(aas)))
        else:
            out.append(AA_AMBIG.get(frozenset(aas), "X"))
    return "".join(out)


def o_new_gapped_translation(tbl, s, io, is_, ts):
    if ts:
        s = o_trim_stop(tbl, s, not io)
        if s is None:
            return None
    pep = "".join(o_new_codon(tbl, s[i : i + 3]) for i in range(0, len(s) - 2, 3))
    if not is_ and "*" in pep:
        return None
    if not io and ("-" in pep or "X" in pep):
        return None
    return pep


def check_seq_tr_gapped(case, T):
    impl, code, s = case["impl"], case["code"], case["s"]
    io, is_, ts = case["incomplete_ok"], case["include_stop"], case["trim_stop"]
    mt = case.get("moltype", "dna")
    cs = {r[0]: r[2] for r in T["old_codes" if impl == "old" else "new_codes"]}[code]
    tbl = table(cs)
    if not s.replace("-", ""):
        return None
    want = (o_old_gapped_translation if impl == "old" else o_new_gapped_translation)(tbl, s, io, is_, ts)
    gc = _gcobj(impl, code)
    got = _call(lambda: str(_mk_seq(impl, _u(s, mt == "rna"), mt).get_translation(gc=gc, incomplete_ok=io, include_stop=is_, trim_stop=ts)))
    if got == want or (want is None and isinstance(got, dict) and got["err"] in ("AlphabetError", "ValueError")):
        return None
    if impl == "old" and is_ and ts and not isinstance(got, dict):
        return None  # the known include_stop-overrides-trim_stop behaviour is judged on canonical input only
    if mt == "rna" and ts and "-" in s and (impl == "new" or not is_):
        # did the terminal stop of a gapped RNA sequence stay (known: the stop pattern is built from DNA codons)?
        alt = (o_old_gapped_translation if impl == "old" else o_new_gapped_translation)(tbl, s, io, is_, False)
        trimmed = o_trim_stop(tbl, s, False)
        if trimmed is not None and trimmed != s and (got == alt or (alt is None and isinstance(got, dict))):
            return dict(what=f"{impl} Sequence.get_translation does not trim the terminal stop of a gapped RNA sequence", expected="rejected" if want is None else want,
                        got=got, sig=f"{impl}.seq.get_translation.gapped[rna]:rna-gapped-terminal-stop-not-trimmed")
    kinds = sorted({_codon_class(s[i : i + 3]) for i in range(0, len(s) - 2, 3)})
    cls = "raises:" + got["err"] if isinstance(got, dict) else "accepted-instead-of-rejected" if want is None else "pep"
    return dict(what=f"{impl} Sequence.get_translation(incomplete_ok={io}, include_stop={is_}, trim_stop={ts}) on gapped / ambiguous codons [{mt}]",
                expected="rejected" if want is None else want, got=got,
                sig=f"{impl}.seq.get_translation.gapped[{mt}]:io={int(io)},is={int(is_)},ts={int(ts)}:{'+'.join(kinds)}:{cls}")


# --------------------------------------------------------------------------
# 5. collection / alignment trim_stop_codons, has_terminal_stop
# --------------------------------------------------------------------------
def _mk_coll(entry, seqs, moltype="dna", history=()):
    from . import c12_hist

    return c12_hist.build(entry, list(seqs), moltype, history)


def check_coll_trim(case, T):
    entry, code, seqs, strict = case["entry"], case["code"], case["seqs"], case["strict"]
    mt = case.get("moltype", "dna")
    rna = mt == "rna"
    cs = {r[0]: r[2] for r in T["new_codes" if entry.startswith("new") else "old_codes"]}[code]
    tbl = table(cs)
    wants = [o_trim_stop(tbl, s, strict) for s in seqs]
    aligned = "Alignment" in entry
    shape = ("gapped" if any("-" in s for s in seqs) else "ungapped") + (":len%3" if any(len(s.replace("-", "")) % 3 for s in seqs) else "")
    n = len(seqs)
    hist = case.get("history") or ()
    if hist:
        # the oracle speaks about what the derived collection DISPLAYS at the time of the call
        shown = _call(lambda: [str(v) for _, v in sorted(_mk_coll(entry, [_u(s, rna) for s in seqs], mt, hist).to_dict().items())])
        if isinstance(shown, dict) or len(shown) != len(seqs):
            return dict(what=f"{entry} [{mt}]: building the collection with history {'+'.join(hist)} failed", expected=seqs, got=shown,
                        sig=f"{entry}[{mt}]:history-build:{'+'.join(sorted(set(hist)))}")
        if [s.replace("U", "T") for s in shown] != list(seqs):
            # judged since the repairs 437a33710 / d037a68a8: a derived collection must display what its history implies
            return dict(what=f"{entry} [{mt}]: after {'+'.join(hist)} the collection does not display the sequences its history implies "
                             "(every rc reverse-complements what is displayed; take_seqs / rename_seqs / copy / moltype conversion / slicing keep it)",
                        expected=list(seqs), got=[s.replace("U", "T") for s in shown], sig=f"{entry}[{mt}]:derived-display:{'+'.join(sorted(set(hist)))}")
        pre = list(seqs)
        seqs = [s.replace("U", "T") for s in shown]
        wants = [o_trim_stop(tbl, s, strict) for s in seqs]
        shape = ("gapped" if any("-" in s for s in seqs) else "ungapped") + (":len%3" if any(len(s.replace("-", "")) % 3 for s in seqs) else "")
        got = _call(lambda: [str(v) for k, v in sorted(_mk_coll(entry, [_u(s, rna) for s in pre], mt, hist).trim_stop_codons(gc=code, strict=strict).to_dict().items())])
    else:
        pre = list(seqs)
        got = _call(lambda: [str(v) for k, v in sorted(_mk_coll(entry, [_u(s, rna) for s in seqs], mt, hist).trim_stop_codons(gc=code, strict=strict).to_dict().items())])
    rejected = any(w is None for w in wants)
    if rejected:
        # strict: a sequence of bad length is rejected -- unless an earlier sequence already answered
        # has_terminal_stop (early exit), in which case the non-strict result is produced
        lax = [o_trim_stop(tbl, s, False) for s in seqs]
        L = len(seqs[0])
        lax = [_u(w + "-" * (L - len(w)) if aligned else w, rna) for w in lax]
        ok = (isinstance(got, dict) and got["err"] in ("AlphabetError", "ValueError")) or got == lax
        want = "rejected"
    else:
        if aligned:
            L = len(seqs[0])  # an alignment keeps its length: trimmed stops become gaps
            want = [_u(w + "-" * (L - len(w)), rna) for w in wants]
        else:
            want = [_u(w, rna) for w in wants]
        ok = got == want
    if not ok:
        cls = shape
        if rna and (aligned or any("-" in s for s in seqs)) and not isinstance(got, dict):
            # every sequence is either right or an untouched gapped sequence whose stop should have gone
            if all(g == w or (("-" in s or aligned) and g.rstrip("-") == _u(s, True).rstrip("-")) for s, w, g in zip(seqs, lax if rejected else want, got)):
                cls = "rna-gapped-terminal-stop-not-trimmed"
        after = (":after:" + "+".join(sorted(set(hist)))) if hist else ""
        if hist and isinstance(got, list) and isinstance(want, list) and got == [_o_comp(w, rna)[::-1] for w in want]:
            after = ":derived-state:result-reverse-complemented"
        return dict(what=f"{entry}.trim_stop_codons(strict={strict}) [{mt}]" + (f" after {'+'.join(hist)}: displays {seqs}" if hist else ""), expected=want, got=got,
                    sig=f"{entry}.trim_stop_codons[{mt}]:{cls}{after}")
    want = None if any(o_has_terminal_stop(tbl, s, strict) is None for s in seqs) else any(o_has_terminal_stop(tbl, s, strict) for s in seqs)
    got = _call(lambda: bool(_mk_coll(entry, [_u(s, rna) for s in pre], mt, hist).has_terminal_stop(gc=code, strict=strict)))
    if not (got == want or (want is None and isinstance(got, dict)) or (isinstance(got, dict) and any(o_has_terminal_stop(tbl, s, strict) for s in seqs) and want is None)):
        # an early True may be returned before a later sequence of bad length is inspected
        if not (want is None and got is True and any(o_has_terminal_stop(tbl, s, False) for s in seqs)):
            after = (":after:" + "+".join(sorted(set(hist)))) if hist else ""
            return dict(what=f"{entry}.has_terminal_stop(strict={strict}) [{mt}]" + (f" after {'+'.join(hist)}" if hist else ""),
                        expected="rejected" if want is None else want, got=got, sig=f"{entry}.has_terminal_stop[{mt}]:{shape}{after}")
    return None


# --------------------------------------------------------------------------
# 6. select_translatable / best_frame
# --------------------------------------------------------------------------
def _frames(tbl, s):
    res = []
    for minus in (False, True):
        strand = o_rc(s) if minus else s
        for k in range(3):
            res.append((minus, k, "".join(tbl[strand[i : i + 3]] for i in range(k, len(strand) - 2, 3))))
    return res


def _clean(pep):
    return "*" not in (pep[:-1] if pep.endswith("*") else pep)


def check_select_translatable(case, T):
    import cogent3

    code, s, allow_rc, trim = case["code"], case["s"], case["allow_rc"], case["trim"]
    mt = case.get("moltype", "dna")
    cs = {r[0]: r[2] for r in T["old_codes"]}[code]
    tbl = table(cs)
    fr = [f for f in _frames(tbl, s) if (allow_rc or not f[0])]
    good = [f for f in fr if _clean(f[2])]
    app = cogent3.get_app("select_translatable", moltype=mt, gc=code, allow_rc=allow_rc, trim_terminal_stop=trim)
    su = _u(s, mt == "rna")
    res = _call(lambda: app(cogent3.make_unaligned_seqs({"s": su}, moltype=mt)))  # NotCompleted when nothing is translatable
    got = None
    if not isinstance(res, dict) and hasattr(res, "to_dict"):
        got = res.to_dict().get("s")
        got = None if got is None else str(got).replace("U", "T")
    strandcls = "none" if not good else "minus" if all(f[0] for f in good) else "plus" if not any(f[0] for f in good) else "both"
    if isinstance(res, dict):
        return dict(what="select_translatable raised", expected="sequence or NotCompleted", got=res, sig=f"app.select_translatable:{strandcls}:raises:{res['err']}")
    if len(good) == 0:
        if got is None:
            return None
        return dict(what="select_translatable returned a sequence although every allowed frame has an internal stop", expected=None, got=got,
                    sig=f"app.select_translatable:{strandcls}:returned-untranslatable")
    if got is None:
        return dict(what="select_translatable dropped a sequence that has a frame without internal stops", expected=[f[:2] for f in good], got=None,
                    sig=f"app.select_translatable:{strandcls}:dropped")
    cands = []
    for minus, k, pep in good:
        strand = o_rc(s) if minus else s
        n = (len(strand) - k) // 3
        sub = strand[k : k + 3 * n]
        if trim and pep.endswith("*"):
            sub = sub[:-3]
        cands.append(sub)
    if got not in cands:
        return dict(what="select_translatable returned something that is not a stop-free reading frame of the sequence (allowed strands)", expected=cands[:3], got=got,
                    sig=f"app.select_translatable:{strandcls}:wrong-frame")
    return None


def check_best_frame(case, T):
    from cogent3.app.translate import best_frame

    code, s, allow_rc = case["code"], case["s"], case["allow_rc"]
    cs = {r[0]: r[2] for r in T["old_codes"]}[code]
    tbl = table(cs)
    fr = [f for f in _frames(tbl, s) if (allow_rc or not f[0])]
    good = [(-(k + 1) if m else k + 1) for m, k, p in fr if _clean(p)]
    got = _call(lambda: best_frame(_mk_seq("old", s), gc=code, allow_rc=allow_rc))
    strandcls = "none" if not good else "minus" if all(g < 0 for g in good) else "plus" if all(g > 0 for g in good) else "both"
    if isinstance(got, dict):
        if good or got["err"] != "ValueError":
            return dict(what="best_frame raised although a frame without internal stops exists", expected=good, got=got, sig=f"app.best_frame:{strandcls}:raises:{got['err']}")
        return None
    if got not in good:
        return dict(what="best_frame names a frame with an internal stop (or a frame on a strand that is not allowed)", expected=good, got=got,
                    sig=f"app.best_frame:{strandcls}:wrong-frame")
    return None


# --------------------------------------------------------------------------
# 7. complement / rc against the IUPAC table; motifs; pairing
# --------------------------------------------------------------------------
def _moltypes():
    from cogent3.core import moltype as om
    from cogent3.core import new_moltype as nm

    return {"olddna": om.DNA, "oldrna": om.RNA, "newdna": nm.DNA, "newrna": nm.RNA}


def _o_comp(s, rna):
    m = dict(IUPAC_COMP)
    if rna:
        m = {k.replace("T", "U"): v.replace("T", "U") for k, v in m.items()}
    return "".join(m[c] for c in s)


def check_rc_oracle(case, T):
    mtname, s, op, level = case["mt"], case["s"], case["op"], case["level"]
    rna = mtname.endswith("rna")
    mt = _moltypes()[mtname]
    want = _o_comp(s, rna)
    if op == "rc":
        want = want[::-1]
    if level == "seq":
        seq = _call(lambda: _mk_seq(mtname[:3], s, mtname[3:]))
        if isinstance(seq, dict):
            return dict(what=f"{mtname}: constructing a sequence of IUPAC symbols raised", expected=s, got=seq, sig=f"{op}-oracle:{mtname}:seq:construct")
        got = _call(lambda: str(seq.rc() if op == "rc" else seq.complement()))
    else:
        got = _call(lambda: str(getattr(mt, op)(s)))
    if got == want:
        return None
    return dict(what=f"{mtname} {level}-level {op} differs from the IUPAC complement table", expected=want, got=got, sig=f"{op}-oracle:{mtname}:{level}")


def _sets(rna):
    return {(k.replace("T", "U") if rna else k): (v.replace("T", "U") if rna else v) for k, v in IUPAC.items()}


def check_resolve_motif(case, T):
    mtname, motif = case["mt"], case["motif"]
    rna = mtname.endswith("rna")
    sets = _sets(rna)
    mt = _moltypes()[mtname]
    want = sorted("".join(x) for x in itertools.product(*[sets[c] for c in motif]))
    got = _call(lambda: sorted(set(mt.resolve_ambiguity(motif))))
    if got == want:
        return None
    return dict(what=f"{mtname}.resolve_ambiguity({motif!r}) is not the product of the base sets", expected=want, got=got, sig=f"resolve-motif:{mtname}:len{len(motif)}")


def check_degenerate_from_seq(case, T):
    mtname, syms = case["mt"], case["syms"]
    rna = mtname.endswith("rna")
    sets = _sets(rna)
    mt = _moltypes()[mtname]
    if set(syms) == {"-"}:
        want = "-"
    elif "-" in syms or "?" in syms:
        want = "?"
    else:
        u = set().union(*[set(sets[c]) for c in syms])
        want = min((k for k, v in sets.items() if set(v) >= u), key=lambda k: len(sets[k]))
        if len(set(syms)) == 1:
            want = syms[0]
    got = _call(lambda: mt.degenerate_from_seq(syms))
    if got == want:
        return None
    return dict(what=f"{mtname}.degenerate_from_seq({syms!r}) is not the least degenerate covering symbol", expected=want, got=got, sig=f"degenerate-from-seq:{mtname}")


def check_strand_symmetric(case, T):
    mtname, k = case["mt"], case["k"]
    rna = mtname.endswith("rna")
    mt = _moltypes()[mtname]
    base = "UCAG" if rna else "TCAG"
    want = {tuple(sorted(["".join(m), _o_comp("".join(m), rna)])) for m in itertools.product(base, repeat=k)}
    got = _call(lambda: {tuple(p) for p in mt.strand_symmetric_motifs(motif_length=k)})
    if got == want:
        return None
    return dict(what=f"{mtname}.strand_symmetric_motifs({k}) is not the set of (motif, complement) pairs", expected=sorted(want)[:4],
                got=sorted(got)[:4] if not isinstance(got, dict) else got, sig=f"strand-symmetric:{mtname}:{k}")


def check_pairing(case, T):
    mtname, first, second = case["mt"], case["first"], case["second"]
    rna = mtname.endswith("rna")
    sets = _sets(rna)
    u = "U" if rna else "T"
    strict = {frozenset(("A", u)), frozenset(("C", "G"))}
    weak = {frozenset(("G", "U"))} if rna else set()
    mt = _moltypes()[mtname]

    def can(x, y):
        if x == "-" or y == "-":
            return x == y
        return any(frozenset((a, b)) in strict | weak for a in sets[x] for b in sets[y])

    def must(x, y):
        return x in sets and y in sets and len(sets[x]) == 1 and len(sets[y]) == 1 and frozenset((x, y)) in strict

    def match(x, y):
        if x == "-" or y == "-":
            return x == y
        return bool(set(sets[x]) & set(sets[y]))

    pairs = list(zip(first, second[::-1]))
    checks = [
        ("can_pair", all(can(x, y) for x, y in pairs)),
        ("can_mispair", bool(first and second) and any(not must(x, y) for x, y in pairs)),
        ("can_match", all(match(x, y) for x, y in zip(first, second))),
    ]
    for fn, want in checks:
        got = _call(lambda: bool(getattr(mt, fn)(first, second)))
        if got != want:
            return dict(what=f"{mtname}.{fn}({first!r}, {second!r})", expected=want, got=got, sig=f"pairing:{mtname}:{fn}")
    return None


CHECKERS = {
    "gc.lookup": check_gc_lookup,
    "available_codes": check_available_codes,
    "gc.translate.degenerate": check_translate_degenerate,
    "seq.stop_api": check_seq_stop_api,
    "seq.get_translation.gapped": check_seq_tr_gapped,
    "coll.trim_stop_codons": check_coll_trim,
    "app.select_translatable": check_select_translatable,
    "app.best_frame": check_best_frame,
    "rc_oracle": check_rc_oracle,
    "resolve_motif": check_resolve_motif,
    "degenerate_from_seq": check_degenerate_from_seq,
    "strand_symmetric": check_strand_symmetric,
    "pairing": check_pairing,
}



# --------------------------------------------------------------------------
# 8. complement / rc / to_rna / get_translation on sequence VIEWS
# --------------------------------------------------------------------------
def _apply_view_str(d, op, rna):
    k = op[0]
    if k in ("rc", "neg"):
        return _o_comp(d, rna)[::-1]
    if k == "complement":
        return _o_comp(d, rna)
    if k == "slice":
        return d[op[1] : op[2]]
    if k == "stride":
        return d[:: op[1]]
    if k == "negstride":
        return _o_comp(d[:: -op[1]], rna)
    raise ValueError(k)


def _apply_view_real(v, op):
    k = op[0]
    if k == "rc":
        return v.rc()
    if k == "neg":
        return v[::-1]
    if k == "complement":
        return v.complement()
    if k == "slice":
        return v[op[1] : op[2]]
    if k == "stride":
        return v[:: op[1]]
    if k == "negstride":
        return v[:: -op[1]]
    raise ValueError(k)


def _view_source(impl, source, s, mt):
    """returns (sequence object, displayed string) for a sequence taken directly or out of a collection / alignment"""
    import cogent3

    other = ("ACGU" if mt == "rna" else "ACGT") * ((len(s) + 3) // 4)
    d = {"a": s, "b": other[: len(s)]}
    if source == "direct":
        return _mk_seq(impl, s, mt), s
    if impl == "old":
        if source == "coll.get_seq":
            return cogent3.make_unaligned_seqs(d, moltype=mt).get_seq("a"), s
        if source == "coll.rc.get_seq":
            return cogent3.make_unaligned_seqs(d, moltype=mt).rc().get_seq("a"), _o_comp(s, mt == "rna")[::-1]
        arr = source.startswith("arrayaln")
        aln = cogent3.make_aligned_seqs(d, moltype=mt, array_align=arr)
        what = source.split(".", 1)[1]
        if what == "get_gapped_seq":
            return aln.get_gapped_seq("a"), s
        if what == "rc.get_gapped_seq":
            return aln.rc().get_gapped_seq("a"), _o_comp(s, mt == "rna")[::-1]
        if what == "get_seq":
            return aln.get_seq("a"), s.replace("-", "").replace("?", "") if not arr else s
    else:
        from cogent3.core import new_alignment

        c = new_alignment.make_unaligned_seqs(d, moltype=mt)
        if source == "coll.seqs":
            return c.seqs["a"], s
        if source == "coll.get_seq":
            return c.get_seq("a"), s
        if source == "coll.rc.seqs":
            return c.rc().seqs["a"], _o_comp(s, mt == "rna")[::-1]
    raise ValueError(source)


OLD_SOURCES = ["direct", "coll.get_seq", "coll.rc.get_seq", "arrayaln.get_gapped_seq", "arrayaln.rc.get_gapped_seq", "aln.get_gapped_seq",
               "aln.rc.get_gapped_seq", "aln.get_seq"]
NEW_SOURCES = ["direct", "coll.seqs", "coll.get_seq", "coll.rc.seqs"]


def check_seq_view(case, T):
    impl, mt, s, ops, source, code = case["impl"], case["moltype"], case["s"], case["ops"], case["source"], case.get("code", 1)
    rna = mt == "rna"
    built = _call(lambda: _view_source(impl, source, s, mt))
    if isinstance(built, dict):
        return dict(what=f"{impl} {source}: obtaining the sequence raised", expected=s, got=built, sig=f"seq.view[{mt}]:{impl}:{source}:construct")
    v, d = built
    if str(v) != d:
        if source == "aln.get_seq" and str(v) == s:
            d = s
        else:
            return dict(what=f"{impl} {source}: the sequence does not display the expected string", expected=d, got=str(v), sig=f"seq.view[{mt}]:{impl}:{source}:str:source")
    rev = source.count(".rc.") % 2 == 1
    strided = False
    for op in ops:
        try:
            v = _apply_view_real(v, op)
        except Exception as e:
            return dict(what=f"{impl} {source}: view operation {op} raised", expected="a view", got={"err": type(e).__name__}, sig=f"seq.view[{mt}]:{impl}:{source}:{op[0]}:raises")
        d = _apply_view_str(d, op, rna)
        if op[0] in ("rc", "neg", "negstride"):
            rev = not rev
        if op[0] in ("stride", "negstride") and op[1] > 1:
            strided = True
    viewcls = ("reversed" if rev else "forward") + ("+strided" if strided else "") + ("+sliced" if any(o[0] == "slice" for o in ops) else "")
    comp = _o_comp(d, rna)
    conv = (lambda x: x.replace("U", "T")) if rna else (lambda x: x.replace("T", "U"))
    checks = [
        ("str", lambda: str(v), d),
        ("complement", lambda: str(v.complement()), comp),
        ("rc", lambda: str(v.rc()), comp[::-1]),
        ("reverse_complement", lambda: str(v.reverse_complement()), comp[::-1]),
        ("rc.rc", lambda: str(v.rc().rc()), d),
        ("complement.complement", lambda: str(v.complement().complement()), d),
        ("rc.complement", lambda: str(v.rc().complement()), d[::-1]),
        ("complement.rc", lambda: str(v.complement().rc()), d[::-1]),
        ("to_dna" if rna else "to_rna", lambda: str(v.to_dna() if rna else v.to_rna()), conv(d)),
        ("rc.to_" + ("dna" if rna else "rna"), lambda: str(v.rc().to_dna() if rna else v.rc().to_rna()), conv(comp[::-1])),
    ]
    dd = d.replace("U", "T")
    if dd and set(dd) <= set(BASES):
        cs = {r[0]: r[2] for r in T["old_codes" if impl == "old" else "new_codes"]}[code]
        tbl = table(cs)
        gc = _gcobj(impl, code)
        want = "".join(tbl[dd[i : i + 3]] for i in range(0, len(dd) - 2, 3))
        rcd = o_rc(dd)
        want_rc = "".join(tbl[rcd[i : i + 3]] for i in range(0, len(rcd) - 2, 3))
        checks.append(("get_translation", lambda: str(v.get_translation(gc=gc, incomplete_ok=True, include_stop=True, trim_stop=False)), want))
        checks.append(("rc.get_translation", lambda: str(v.rc().get_translation(gc=gc, incomplete_ok=True, include_stop=True, trim_stop=False)), want_rc))
        checks.append(("complement.rc.get_translation", lambda: str(v.complement().rc().complement().rc().get_translation(gc=gc, incomplete_ok=True, include_stop=True, trim_stop=False)), want))
    for name, f, want in checks:
        got = _call(f)
        if got != want:
            return dict(what=f"{impl} [{mt}] {source} view {ops}: {name} differs from the same operation on the displayed string {d!r}", expected=want, got=got,
                        sig=f"seq.view[{mt}]:{impl}:{source}:{name}:{viewcls}")
    return None




def _differing_codons(T):
    """(code id, codon, direction) for every codon whose stop status differs between the code and code 1"""
    std = table({r[0]: r[2] for r in T["new_codes"]}[1])
    res = []
    for r in T["new_codes"]:
        tbl = table(r[2])
        for c in codons():
            if (tbl[c] == "*") != (std[c] == "*"):
                res.append((r[0], c, "stop-only-in-code" if tbl[c] == "*" else "stop-only-in-standard"))
    return res


def code_specific_cases(rng, budget, T):
    """collection / alignment / sequence level stop handling for EVERY code, with sequences ending in each codon whose stop
    status differs from the standard code (both directions), plus one common stop and one sense codon per code"""
    ids_old = {r[0] for r in T["old_codes"]}
    cs_of = {r[0]: r[2] for r in T["new_codes"]}
    std = table(cs_of[1])
    diff = _differing_codons(T)
    per_code = {}
    for code, c, _ in diff:
        per_code.setdefault(code, []).append(c)
    for code in sorted(cs_of):
        tbl = table(cs_of[code])
        common = [c for c in codons() if tbl[c] == "*" and std[c] == "*"]
        extra = ([rng.choice(common)] if common else []) + ["CCC"]
        for c in per_code.get(code, []) + (extra if code != 1 else extra + ["TGA", "TAA", "TAG"]):
            sense = [x for x in codons() if tbl[x] != "*" and std[x] != "*"]
            body = "".join(rng.choice(sense) for _ in range(2))
            body2 = "".join(rng.choice(sense) for _ in range(2))
            seqsets = [[body + c, body2 + rng.choice(sense)], [body + c, body2 + c]]
            if common:
                seqsets.append([body + c, body2 + common[0]])
            for seqs in seqsets[: 2 + (budget > 1)]:
                entries = ["new.SequenceCollection"] + (["old.SequenceCollection", "old.ArrayAlignment", "old.Alignment", "app.translate_seqs"] if code in ids_old else [])
                for entry in entries:
                    opts = ((False, False, True), (True, False, True), (False, True, False), (False, False, False), (False, True, True))
                    for io, is_, ts in (opts if budget > 1 else opts[:1] + opts[2:4]):
                        if entry == "app.translate_seqs" and (io or is_):
                            continue
                        yield dict(kind="coll.get_translation", entry=entry, code=code, seqs=seqs, incomplete_ok=io, include_stop=is_, trim_stop=ts,
                                   moltype="rna" if rng.random() < 0.15 else "dna")
                    if entry != "app.translate_seqs":
                        yield dict(kind="coll.trim_stop_codons", entry=entry, code=code, seqs=seqs, strict=rng.random() < 0.5, moltype="dna")
                        if rng.random() < 0.5:
                            from . import c12_hist

                            yield dict(kind="coll.trim_stop_codons", entry=entry, code=code, seqs=seqs, strict=rng.random() < 0.5, moltype="dna",
                                       history=c12_hist.random_history(rng, entry))
                for impl in ("old", "new") if code in ids_old else ("new",):
                    yield dict(kind="seq.get_translation", impl=impl, code=code, s=seqs[0], incomplete_ok=False, include_stop=False, trim_stop=True, moltype="dna", via_rc=False)
                    yield dict(kind="seq.stop_api", impl=impl, code=code, s=seqs[0], strict=False, moltype="dna")


def double_stop_cases(rng, budget, T):
    """rows ending in two stop codons (a terminal stop preceded by an internal one), every collection class"""
    cs_of = {r[0]: r[2] for r in T["new_codes"]}
    ids_old = sorted(r[0] for r in T["old_codes"])
    for _ in range(6 * budget):
        code = rng.choice(ids_old)
        tbl = table(cs_of[code])
        stops = [c for c, a in tbl.items() if a == "*"]
        sense = [c for c, a in tbl.items() if a != "*"]
        if not stops:
            continue
        rows = ["".join(rng.choice(sense) for _ in range(2)) + rng.choice(stops) + rng.choice(stops),
                "".join(rng.choice(sense) for _ in range(4))]
        for entry in ("old.SequenceCollection", "old.ArrayAlignment", "old.Alignment", "new.SequenceCollection", "app.translate_seqs"):
            for io, is_, ts in ((False, False, True), (True, False, True), (False, True, False)):
                if entry == "app.translate_seqs" and (io or is_):
                    continue
                yield dict(kind="coll.get_translation", entry=entry, code=code, seqs=rows, incomplete_ok=io, include_stop=is_, trim_stop=ts, moltype="dna")
        for impl in ("old", "new"):
            yield dict(kind="seq.get_translation", impl=impl, code=code, s=rows[0], incomplete_ok=False, include_stop=False, trim_stop=True, moltype="dna", via_rc=False)


def view_cases(rng, budget, T):
    ids = [r[0] for r in T["old_codes"] if r[0] in {x[0] for x in T["new_codes"]}]
    for impl, sources in (("old", OLD_SOURCES), ("new", NEW_SOURCES)):
        for mt in ("dna", "rna"):
            u = "U" if mt == "rna" else "T"
            base = "ACG" + u
            for source in sources:
                for _ in range(4 * budget):
                    n = rng.randint(4, 24)
                    r = rng.random()
                    alpha = base if r < 0.55 else base * 3 + "RYWSKMBDHVN" if r < 0.8 else base * 3 + "-N"
                    if "-" in alpha and source in ("coll.get_seq", "coll.rc.get_seq", "coll.seqs", "coll.rc.seqs", "direct") and rng.random() < 0.5:
                        alpha = base
                    s = "".join(rng.choice(alpha) for _ in range(n))
                    a = rng.randint(0, n // 2)
                    b = rng.randint(a + 1, n)
                    paths = [
                        [], [["rc"]], [["neg"]], [["slice", a, b]], [["rc"], ["slice", a, b]], [["slice", a, b], ["rc"]], [["stride", 2]], [["negstride", 2]],
                        [["rc"], ["rc"]], [["complement"]], [["rc"], ["complement"]], [["slice", a, b], ["neg"], ["slice", 0, max(1, (b - a) // 2)]],
                        [["stride", 3], ["rc"]], [["negstride", 1], ["slice", a, b]],
                    ]
                    yield dict(kind="seq.view_ops", impl=impl, moltype=mt, s=s, ops=rng.choice(paths), source=source, code=rng.choice(ids))
                # always: the plain rc view of a short canonical and of an ambiguous sequence
                for s in ("AACGG" + u + "A", "ARC-GN" + u):
                    yield dict(kind="seq.view_ops", impl=impl, moltype=mt, s=s, ops=[["rc"]], source=source, code=1)

CHECKERS["seq.view_ops"] = check_seq_view


# --------------------------------------------------------------------------
# generators
# --------------------------------------------------------------------------
def _orf(rng, tbl, ncod):
    sense = [c for c, a in tbl.items() if a != "*"]
    stops = [c for c, a in tbl.items() if a == "*"]
    body = "".join(rng.choice(sense) for _ in range(ncod))
    return body + (rng.choice(stops) if stops and rng.random() < 0.7 else "")


def _gapped_seq(rng, tbl, ncod, kinds):
    """codon-structured text: canonical codons mixed with '---', partial gaps, ambiguity codons"""
    sense = [c for c, a in tbl.items() if a != "*"]
    out = []
    for _ in range(ncod):
        r = rng.random()
        if "gap" in kinds and r < 0.2:
            out.append("---")
        elif "partial" in kinds and r < 0.3:
            c = list(rng.choice(sense))
            for j in rng.sample(range(3), rng.randint(1, 2)):
                c[j] = "-"
            out.append("".join(c))
        elif "ambig" in kinds and r < 0.45:
            c = list(rng.choice(sense))
            c[rng.randrange(3)] = rng.choice("RYWSKMBDHVN")
            out.append("".join(c))
        else:
            out.append(rng.choice(sense))
    return "".join(out)


def cases(rng, budget, T):
    yield from code_specific_cases(rng, budget, T)
    yield from double_stop_cases(rng, budget, T)
    yield from view_cases(rng, budget, T)
    ids_new = [r[0] for r in T["new_codes"]]
    ids_old = [r[0] for r in T["old_codes"]]
    both = [i for i in ids_new if i in ids_old]
    cs_of = {r[0]: r[2] for r in T["new_codes"]}
    flags = list(itertools.product([False, True], repeat=3))
    for impl in ("old", "new"):
        yield dict(kind="available_codes", impl=impl)
        for code in (ids_old if impl == "old" else ids_new):
            for via in ("id", "str", "name"):
                yield dict(kind="gc.lookup", impl=impl, code=code, via=via)
    # degenerate text through gc.translate
    alpha = BASES * 5 + "-NRYWSKMBDHV?"
    for _ in range(40 * budget):
        code = rng.choice(both)
        n = rng.randint(0, 30)
        s = "".join(rng.choice(alpha) for _ in range(n))
        yield dict(kind="gc.translate.degenerate", impl="new", code=code, s=s, start=rng.randint(0, 2))
        yield dict(kind="gc.translate.degenerate", impl="old", code=code, s=s, start=rng.randint(0, min(2, max(n - 1, 0))))
        t = "".join(rng.choice(BASES) for _ in range(rng.randint(3, 30)))
        yield dict(kind="gc.translate.degenerate", impl="old", code=code, s=t.replace("T", "U"), start=0)
        yield dict(kind="gc.translate.degenerate", impl="old", code=code, s=t.lower(), start=rng.randint(0, 2))
        yield dict(kind="gc.translate.degenerate", impl="new", code=code, s=t.lower(), start=0)
    # has_terminal_stop / trim_stop_codon
    for _ in range(40 * budget):
        code = rng.choice(both)
        tbl = table(cs_of[code])
        stops = [c for c, a in tbl.items() if a == "*"]
        s = _gapped_seq(rng, tbl, rng.randint(1, 6), rng.choice([(), ("gap",), ("gap",)]))
        r = rng.random()
        if stops and r < 0.6:
            s += rng.choice(stops) + "-" * rng.choice([0, 0, 3, 6, 1, 2])
        elif stops and r < 0.7:
            st = rng.choice(stops)
            s += st[:2] + "-" + st[2] + "--"
        if rng.random() < 0.3:
            s += "".join(rng.choice(BASES) for _ in range(rng.randint(1, 2)))
        if rng.random() < 0.15:
            s = s.replace("-", "")
        for impl in ("old", "new"):
            yield dict(kind="seq.stop_api", impl=impl, code=code, s=s, strict=rng.random() < 0.5, moltype=rng.choice(["dna", "dna", "rna"]))
    # gapped / ambiguous get_translation
    for _ in range(50 * budget):
        code = rng.choice(both)
        tbl = table(cs_of[code])
        stops = [c for c, a in tbl.items() if a == "*"]
        kinds = rng.choice([("gap",), ("partial",), ("ambig",), ("gap", "partial"), ("gap", "ambig")])
        s = _gapped_seq(rng, tbl, rng.randint(1, 7), kinds)
        if stops and rng.random() < 0.4:
            s += rng.choice(stops) + "-" * rng.choice([0, 0, 3])
        if stops and rng.random() < 0.15:
            s = rng.choice(stops) + s
        io, is_, ts = rng.choice(flags)
        for impl in ("old", "new"):
            yield dict(kind="seq.get_translation.gapped", impl=impl, code=code, s=s, incomplete_ok=io, include_stop=is_, trim_stop=ts,
                       moltype=rng.choice(["dna", "dna", "rna"]))
    # collection-level trim_stop_codons with gap padded terminal stops
    for _ in range(20 * budget):
        code = rng.choice(both)
        tbl = table(cs_of[code])
        stops = [c for c, a in tbl.items() if a == "*"] or ["GCT"]
        ncod = rng.randint(2, 5)
        seqs = []
        for j in range(rng.randint(1, 3)):
            k = rng.randint(1, ncod)
            body = _gapped_seq(rng, tbl, k, rng.choice([(), ("gap",)]))
            s = body + (rng.choice(stops) if rng.random() < 0.6 else _gapped_seq(rng, tbl, 1, ()))
            s += "-" * (3 * (ncod + 1) - len(s))
            seqs.append(s)
        if rng.random() < 0.2:
            seqs = [s[:-1] for s in seqs]
        mt = rng.choice(["dna", "dna", "rna"])
        for entry in ("old.SequenceCollection", "old.ArrayAlignment", "old.Alignment", "new.SequenceCollection"):
            yield dict(kind="coll.trim_stop_codons", entry=entry, code=code, seqs=seqs, strict=rng.random() < 0.5, moltype=mt)
            if rng.random() < 0.5:
                from . import c12_hist

                yield dict(kind="coll.trim_stop_codons", entry=entry, code=code, seqs=seqs, strict=rng.random() < 0.5, moltype=mt,
                           history=c12_hist.random_history(rng, entry))
    # ORFs on either strand
    for _ in range(25 * budget):
        code = rng.choice(both)
        tbl = table(cs_of[code])
        want_unique = rng.random() < 0.8
        for _try in range(40):
            orf = _orf(rng, tbl, rng.randint(25, 60))
            s = "".join(rng.choice(BASES) for _ in range(rng.randint(0, 2))) + orf + "".join(rng.choice(BASES) for _ in range(rng.randint(0, 2)))
            if rng.random() < 0.6:
                s = o_rc(s)
            # mostly sequences with exactly ONE stop-free frame, so the expected strand / frame is determined
            if not want_unique or sum(_clean(f[2]) for f in _frames(tbl, s)) == 1:
                break
        if rng.random() < 0.15:
            s = "".join(rng.choice(BASES) for _ in range(rng.randint(20, 60)))
        allow_rc = rng.random() < 0.7
        yield dict(kind="app.select_translatable", code=code, s=s, allow_rc=allow_rc, trim=rng.random() < 0.5, moltype=rng.choice(["dna", "dna", "rna"]))
        yield dict(kind="app.best_frame", code=code, s=s, allow_rc=allow_rc)
    # complement / rc / motifs / pairing
    for mtname in ("olddna", "oldrna", "newdna", "newrna"):
        rna = mtname.endswith("rna")
        u = "U" if rna else "T"
        base = "ACG" + u
        syms = base + "RYWSKMBDHVN-?"
        for c in syms:
            for op in ("complement", "rc"):
                for level in ("moltype", "seq"):
                    yield dict(kind="rc_oracle", mt=mtname, s=c, op=op, level=level)
        for _ in range(10 * budget):
            s = "".join(rng.choice(base * 2 + "RYWSKMBDHVN-?") for _ in range(rng.randint(2, 25)))
            yield dict(kind="rc_oracle", mt=mtname, s=s, op=rng.choice(["complement", "rc"]), level=rng.choice(["moltype", "seq"]))
        for _ in range(15 * budget):
            motif = "".join(rng.choice(base + "RYWSKMBDHVN") for _ in range(rng.randint(2, 3)))
            yield dict(kind="resolve_motif", mt=mtname, motif=motif)
        for _ in range(25 * budget):
            pool = base * 2 + "RYWSKMBDHVN" + ("-" if rng.random() < 0.3 else "")
            yield dict(kind="degenerate_from_seq", mt=mtname, syms="".join(rng.sample(pool, rng.randint(1, 4))))
        for k in (1, 2, 3):
            yield dict(kind="strand_symmetric", mt=mtname, k=k)
        psyms = base + "RYWSKMBDHVN-"
        for x in psyms:
            for y in psyms:
                yield dict(kind="pairing", mt=mtname, first=x, second=y)
        for _ in range(15 * budget):
            n = rng.randint(2, 8)
            first = "".join(rng.choice(base * 3 + "RYN-") for _ in range(n))
            second = _o_comp(first, rna)[::-1] if rng.random() < 0.5 else "".join(rng.choice(base * 3 + "RYN-") for _ in range(rng.randint(1, n)))
            yield dict(kind="pairing", mt=mtname, first=first, second=second)
