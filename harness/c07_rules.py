"""C07 helpers: one parameter's scoped settings on a REAL likelihood function vs Model/ParamRules.lean."""
from __future__ import annotations

from fractions import Fraction

from .c07_lf import TAXA_SETS, _Quiet, new_lf

PARS = [("HKY85", "kappa"), ("HKY85", "length"), ("GTR", "A/G"), ("F81", "length")]


def setup(taxa_idx, model, par):
    case = dict(model=model, taxa=taxa_idx, aln0=0)
    lf = new_lf(case)
    edges = sorted(n for n in lf.tree.get_node_names() if n != "root")
    with _Quiet():
        r0 = [r for r in lf.get_param_rules() if r["par_name"] == par][0]
    defn = lf.defn_for[par]
    d = dict(n=len(edges), lo=r0["lower"], val=r0["init"], hi=r0["upper"], indep=bool(defn.independent_by_default))
    return lf, edges, d


def rand_op(rng, n, par):
    op = {}
    r = rng.random()
    if r < 0.35:
        pass
    elif r < 0.8:
        op["edges"] = sorted(rng.sample(range(n), rng.randint(1, n)))
    else:
        op["edges"] = [rng.randrange(n)]
    if rng.random() < 0.45:
        op["is_independent"] = rng.random() < 0.5
    grid = [0.125, 0.25, 0.5, 0.75, 1.0, 1.5, 2.0, 3.0, 6.0]
    v = rng.choice(grid)
    m = rng.random()
    if m < 0.25:
        op["is_constant"] = True
        if rng.random() < 0.8:
            op["value"] = v
    elif m < 0.6:
        op["init"] = v
    elif m < 0.7:
        pass  # neither value nor init: keeps / averages the current values
    else:
        if rng.random() < 0.7:
            op["init"] = v
        if rng.random() < 0.6:
            op["lower"] = rng.choice([0.125, 0.25, 0.5, 1.0])
        if rng.random() < 0.6:
            op["upper"] = rng.choice([0.75, 1.0, 2.0, 4.0, 8.0])
    # malformed: constant with bounds / init and value together / unknown edge / repeated edge /
    # empty edge list (= all edges) / upper < lower / falsy zeros that slip through the asserts
    z = rng.random()
    if z < 0.03:
        op["is_constant"] = True
        op["lower"] = 0.5
    elif z < 0.05:
        op["init"] = 1.0
        op["value"] = 2.0
    elif z < 0.08:
        op["edges"] = sorted(set(op.get("edges", [])) | {n + rng.randrange(2)})  # n, n+1: not in the tree
    elif z < 0.11:
        es = list(op.get("edges") or [rng.randrange(n)])
        es.insert(rng.randrange(len(es) + 1), rng.choice(es))  # the same edge twice
        op["edges"] = es
    elif z < 0.13:
        op["edges"] = []
    elif z < 0.16:
        op.pop("is_constant", None)
        op.pop("value", None)
        op["lower"] = rng.choice([2.0, 4.0])
        op["upper"] = rng.choice([0.5, 1.0])
    elif z < 0.19:
        # `assert not (init or lower or upper)` / `assert not value` test truthiness: 0.0 passes
        if op.get("is_constant"):
            op[rng.choice(["init", "lower", "upper"])] = 0.0
        elif "init" in op:
            op["value"] = 0.0
    return op


def canon_real_rules(lf, par, edges):
    idx = {e: i for i, e in enumerate(edges)}
    with _Quiet():
        rules = [r for r in lf.get_param_rules() if r["par_name"] == par]
    out = []
    for r in rules:
        es = r.get("edges", r.get("edge"))
        if isinstance(es, str):
            es = [es]
        c = dict(
            edges=None if es is None else sorted(idx[e] for e in es),
            is_independent=r.get("is_independent"),
            is_constant=bool(r.get("is_constant", False)),
            value=None if "value" not in r else float(r["value"]),
            init=None if "init" not in r else float(r["init"]),
            lower=None if r.get("lower") is None else float(r["lower"]),
            upper=None if r.get("upper") is None else float(r["upper"]),
        )
        out.append(c)
    out.sort(key=lambda c: (c["edges"] is not None, c["edges"] or []))
    return out


def canon_model_rules(rules):
    out = []
    for r in rules:
        f = lambda x: None if x is None else float(Fraction(*map(int, x.split("/"))))
        out.append(dict(edges=r["edges"], is_independent=r["is_independent"], is_constant=r["is_constant"],
                        value=f(r["value"]), init=f(r["init"]), lower=f(r["lower"]), upper=f(r["upper"])))
    out.sort(key=lambda c: (c["edges"] is not None, c["edges"] or []))
    return out


def rules_close(a, b, rtol=1e-12):
    if len(a) != len(b):
        return False
    for x, y in zip(a, b):
        for k in ("edges", "is_independent", "is_constant"):
            if x[k] != y[k]:
                return False
        for k in ("value", "init", "lower", "upper"):
            if (x[k] is None) != (y[k] is None):
                return False
            if x[k] is not None and abs(x[k] - y[k]) > rtol * max(1.0, abs(x[k]), abs(y[k])):
                return False
    return True


def apply_real(lf, par, edges, op):
    kw = {k: v for k, v in op.items() if k != "edges"}
    if "edges" in op:
        kw["edges"] = [edges[i] if i < len(edges) else f"no_such_edge_{i}" for i in op["edges"]]
    try:
        with _Quiet():
            lf.set_param_rule(par, **kw)
        return None
    except Exception as e:  # noqa
        return type(e).__name__


def to_req(d, ops):
    from .common import rat

    def rq(op):
        o = dict(op)
        for k in ("value", "init", "lower", "upper"):
            if k in o:
                o[k] = rat(o[k])
        return o

    return dict(n=d["n"], lo=rat(d["lo"]), val=rat(d["val"]), hi=rat(d["hi"]), indep=d["indep"], ops=[rq(o) for o in ops])
