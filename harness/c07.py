"""C07 — incrementally recalculated likelihoods equal a fresh calculation."""
from __future__ import annotations

import copy
import json

from .common import add_failure as _add_failure
from .common import bump, new_outcome

PER_SIG_CAP = 4


def add_failure(out, kind, what, inp, expected, got, confirmed=True, sig=None, **kw):
    """keep at most PER_SIG_CAP failures per signature, so that one (possibly known) class of
    failure can never crowd a different one out of the bounded failure list"""
    key = f"{kind}:{sig or what}"
    seen = out.setdefault("_sig_seen", {})
    seen[key] = seen.get(key, 0) + 1
    if seen[key] > PER_SIG_CAP:
        bump(out, "failures_beyond_cap", key)
        return
    _add_failure(out, kind, what, inp, expected, got, confirmed=confirmed, sig=sig, **kw)

PROP = "C07"
PROPS_FILES = ["CogentModel/Props/C07.lean", "CogentModel/Props/C07Lf.lean", "CogentModel/Props/C07Rules2.lean",
               "CogentModel/Props/C07Gen.lean", "CogentModel/Props/C07NonLeaf.lean"]
LEAN_TARGETS = ["CogentModel.Props.C07", "CogentModel.Props.C07Lf", "CogentModel.Props.C07Rules2",
                "CogentModel.Props.C07Gen", "CogentModel.Props.C07NonLeaf"]
DRIVER = "drv_c07"
TRUSTED = [
    "hand-written model lean/CogentModel/Model/Calculator.lean of recalculation.calculation.Calculator "
    "(__init__ priming, change incl. undo detection / buffer switch / spare arrays / CalculationInterupted path, "
    "testoptparvector), tied by per-step state correspondence against the REAL Calculator class on random cell graphs",
    "cells_changed_by is modelled by its specification (reachability `reach`), tied by comparing the model's program "
    "with the real Calculator's for every changed-set that occurs",
    "recycling calcs are assumed to overwrite and return the array they are handed and to compute a result that does "
    "not depend on the previous contents of that array (true of the harness calcs; cogent3's own recycling calcs are "
    "reached by the likelihood-function differential)",
]
ASSUMPTIONS = [
    "float NaN parameter values (old != new is always true) are outside the model",
    "exceptions other than ParameterOutOfBoundsError/ArithmeticError raised by a calc are outside the model",
    "Defn-to-cell compilation (make_cells), scope bookkeeping (definition.py/scope.py) and the rule export/import are "
    "exercised by the likelihood-function differential (fresh-function oracles), not modelled in Lean",
]

STEP_KEYS = ("last", "cur", "undo", "sw", "ret", "raised")


def generate(ctx):
    """translator step: rewrite lean/CogentModel/Gen/C07Rules.lean from the CURRENT source of
    recalculation/scope.py and evolve/parameter_controller.py (content-addressed: unchanged source gives
    byte-identical text and lake does no work).  Props/C07Gen.lean proves every generated definition equal
    to the hand model for all arguments, so a semantic edit of the translated functions breaks a proof."""
    import sys

    from .common import LEAN, SRC, VERIF

    sys.path.insert(0, str(VERIF))
    from translator import c07_rules2lean as T

    try:
        lean, info, problems = T.translate(SRC)
    except (T.Unsupported, SyntaxError, OSError) as e:
        return [f"c07_rules2lean: {type(e).__name__}: {e}"]
    ctx.notes.append("c07_rules2lean translated: " + "; ".join(t.split(":")[0] for t in info.get("translated", [])))
    if problems:
        # a function outside the supported fragment: keep the last complete generated file (the proofs then still
        # check against the old text and are counted), the translation problem itself is what is reported
        ctx.notes.append("Gen/C07Rules.lean NOT rewritten: " + "; ".join(problems)[:300])
    elif lean is not None:
        if T.write_if_changed(LEAN / "CogentModel" / "Gen" / "C07Rules.lean", lean):
            ctx.notes.append("Gen/C07Rules.lean was rewritten (the translated python statements differ from the last "
                             "generated text)")
    return [f"c07_rules2lean: {p}" for p in problems]


# --------------------------------------------------------------------------
# correspondence: Lean model vs the REAL Calculator, state after every step
# --------------------------------------------------------------------------
def _calc_cases(rng, n_hist, length, malformed):
    from . import c07_calc as cc

    cases = []
    tries = 0
    while len(cases) < n_hist and tries < n_hist * 20:
        tries += 1
        g = cc.rand_graph(rng)
        nopt = cc.n_opt_of(g)
        x0 = [rng.randint(0, 6) for _ in range(nopt)]
        if cc.fresh_python(g, x0) is None and rng.random() < 0.9:
            continue  # keep a few graphs whose construction raises
        ops = cc.rand_history(rng, g, x0, length, malformed=malformed)
        cases.append(dict(graph=g, x0=x0, ops=ops))
    return cases


def _small_exhaustive_cases():
    """a fixed 2-parameter graph with a recycled and a raising cell: every history of length 3 over a
    3-value box of full vectors (27^... kept small: 9 vectors -> 729 histories)"""
    g = dict(
        cells=[
            dict(k="opt", add=0),
            dict(k="opt", add=1),
            dict(k="eval", rec=False, args=[0, 1], salt=0, mult=1, rmod=0, rres=0, isconst=False),
            dict(k="eval", rec=True, args=[2, 0], salt=1, mult=1, rmod=5, rres=0, isconst=False),
            dict(k="eval", rec=True, args=[3, 1], salt=2, mult=3, rmod=0, rres=0, isconst=False),
            dict(k="eval", rec=False, args=[4, 3, 2], salt=0, mult=1, rmod=7, rres=3, isconst=False),
        ]
    )
    vecs = [[a, b] for a in (0, 1, 2) for b in (0, 1, 2)]
    cases = []
    for v1 in vecs:
        for v2 in vecs:
            for v3 in vecs:
                cases.append(dict(graph=g, x0=[0, 0], ops=[["call", v1], ["call", v2], ["call", v3], ["call", v2]]))
    return cases


def correspondence(ctx):
    from . import c07_calc as cc

    out = new_outcome(
        "Calculator histories: REAL Calculator(cells, {}) built from OptPar/ConstCell/EvaluatedCell over random DAGs "
        "(3-25 cells, integer hash-combine calcs, ~30% recycling cells mutating numpy arrays in place, ~35% raising "
        "ParameterOutOfBoundsError/ZeroDivisionError) vs the Lean model, comparing last_values, the whole current "
        "buffer, last_undo, _switch, return value / raise after EVERY step; histories of testoptparvector and change "
        "calls with exact reversals; an exhaustive 4-step box on a fixed graph; a malformed stream (duplicate indices, "
        "direct sets of non-optimiser cells). non-trivial = distinct (graph, history) with at least one undo and one "
        "recomputation"
    )
    rng = ctx.subrng("corr")
    n_hist = ctx.budget(2200, 40000)
    cases = _small_exhaustive_cases()
    cases += _calc_cases(rng, n_hist, 30, malformed=False)
    n_valid = len(cases)
    cases += _calc_cases(ctx.subrng("corr-mal"), ctx.budget(300, 4000), 20, malformed=True)
    model = ctx.driver.batch([("hist", c) for c in cases])
    prog_reqs, prog_real = [], []
    for ci, (c, m) in enumerate(zip(cases, model)):
        init, steps, calc = cc.run_real(c["graph"], c["x0"], c["ops"])
        out["evaluations"] += 1
        stream = "valid" if ci < n_valid else "malformed"
        if init == "raises" or m.get("init") == "raises":
            bump(out, "init", "raises")
            if not (init == "raises" and m.get("init") == "raises"):
                add_failure(out, "corr", "Calculator construction: model and implementation disagree on raising",
                            c, m.get("init"), init, confirmed=False)
            continue
        bump(out, "init", "ok")
        bump(out, "n_cells", len(c["graph"]["cells"]) // 5 * 5)
        if {k: init[k] for k in ("last", "cur", "undo", "sw")} != {k: m["init"][k] for k in ("last", "cur", "undo", "sw")}:
            add_failure(out, "corr", "Calculator initial state mismatch", c, m["init"], init, confirmed=False)
            continue
        n_undo = n_fail = 0
        ok = True
        for i, (a, b) in enumerate(zip(steps, m["steps"])):
            if any(a[k] != b[k] for k in STEP_KEYS):
                add_failure(
                    out, "corr", f"Calculator state after step differs from model ({stream} stream)",
                    dict(graph=c["graph"], x0=c["x0"], ops=c["ops"][: i + 1]),
                    {k: b[k] for k in STEP_KEYS}, {k: a[k] for k in STEP_KEYS}, confirmed=False,
                )
                ok = False
                break
            if stream == "valid" and b.get("assert_ok") is False:
                add_failure(out, "corr", "model: spare assertion would fire", c, True, False, confirmed=False)
            n_fail += a["raised"]
            bump(out, "step", ("raises:" + a["exc"]) if a["raised"] else "returns")
            bump(out, "op", c["ops"][i][0])
            # an undo happened iff the switch did not move on a successful step / moved on a failing one
            prev_sw = (steps[i - 1]["sw"] if i else init["sw"])
            undone = (a["sw"] == prev_sw) != a["raised"]
            n_undo += undone
            if undone:
                bump(out, "undo_path", "taken")
        if ok and n_undo and len(steps) > n_fail:
            out["nontrivial"].add(("calc", ci))
        if ok and len(out["samples"]) < 3 and n_undo and n_fail and stream == "valid":
            out["samples"].append(dict(kind="calculator-history", n_cells=len(c["graph"]["cells"]), x0=c["x0"],
                                       ops=c["ops"][:6], steps=[{k: s[k] for k in ("ret", "raised", "last")} for s in steps[:6]]))
        # programs: the real consequence programs vs the model's reachability
        if calc is not None and ci % 7 == 0:
            for key, prog in list(calc._programs.items())[:6]:
                prog_reqs.append(("program", dict(graph=c["graph"], changed=list(key))))
                prog_real.append(([cell.rank for cell in prog], c["graph"], list(key)))
    # the SPECIFICATION function of the theorems, `evalFresh`, run directly (driver `fresh`) at the vector the
    # real calculator reports at the end of the history: against the independent python evaluation and
    # against the real calculator's final buffer
    fresh_reqs, fresh_exp = [], []
    for ci, c in enumerate(cases[:n_valid]):
        if ci % 4:
            continue
        init, steps, _ = cc.run_real(c["graph"], c["x0"], c["ops"])
        if init == "raises" or not steps:
            continue
        x = steps[-1]["last"]
        fresh_reqs.append(("fresh", dict(graph=c["graph"], x=x)))
        fresh_exp.append((cc.fresh_python(c["graph"], x), steps[-1]["cur"], c))
        # and at an arbitrary vector (usually one where some calc raises)
        x2 = [(v * 3 + i) % 7 for i, v in enumerate(x)]
        fresh_reqs.append(("fresh", dict(graph=c["graph"], x=x2)))
        fresh_exp.append((cc.fresh_python(c["graph"], x2), None, c))
    for (_, rq), (want, real_cur, c), mod in zip(fresh_reqs, fresh_exp, ctx.driver.batch(fresh_reqs)):
        out["evaluations"] += 1
        bump(out, "evalFresh", "raises" if want is None else "values")
        if mod != want:
            add_failure(out, "corr", "model evalFresh differs from the independent from-scratch evaluation", rq, want, mod,
                        confirmed=False)
        elif real_cur is not None and mod is not None and mod != real_cur:
            add_failure(out, "corr", "model evalFresh at the reported vector differs from the real calculator's buffer",
                        rq, real_cur, mod, confirmed=False)
    for (_, rq), (real, g, key), mod in zip(prog_reqs, prog_real, ctx.driver.batch(prog_reqs)):
        out["evaluations"] += 1
        bump(out, "program_size", min(len(real), 20) // 4 * 4)
        # only optimiser-parameter keys are covered by `reach` (a recycled cell is its own consequence)
        if all(g["cells"][i]["k"] == "opt" for i in key) and real != mod:
            add_failure(out, "corr", "cells_changed_by differs from model program", rq, mod, real, confirmed=False)
    _corr_ctl(ctx, out)
    _corr_ctl_failing(ctx, out)
    _corr_rules(ctx, out)
    from . import c07_lfops

    c07_lfops.corr_lf_ops(ctx, out)
    from . import c07_rules2

    c07_rules2.corr_rules2(ctx, out)
    from . import c07_gen

    c07_gen.corr_gen(ctx, out)
    c07_gen.corr_nonleaf(ctx, out)
    return out


def _corr_rules(ctx, out):
    """one parameter's scoped settings on a REAL likelihood function vs Model/ParamRules.lean: after
    every set_param_rule (random scopes / constant / init / bounds / independent, malformed argument
    combinations) the exported rules of that parameter and its number of free parameters; errors by
    class; finally the REAL round trip (exported rules applied to a new function) against the model's"""
    from . import c07_rules as R

    rng = ctx.subrng("corr-rules")
    reqs, reals = [], []
    for _ in range(ctx.budget(120, 1500)):
        model, par = rng.choice(R.PARS)
        taxa_idx = rng.randrange(3)
        lf, edges, d = R.setup(taxa_idx, model, par)
        ops = [R.rand_op(rng, d["n"], par) for _ in range(rng.randint(1, 8))]
        init_real = dict(rules=R.canon_real_rules(lf, par, edges), nfp=lf.defn_for[par].get_num_free_params())
        steps = []
        for op in ops:
            err = R.apply_real(lf, par, edges, op)
            steps.append(dict(err=err, rules=R.canon_real_rules(lf, par, edges),
                              nfp=lf.defn_for[par].get_num_free_params()))
        # the real round trip
        from .c07_lf import _Quiet, new_lf

        fresh = new_lf(dict(model=model, taxa=taxa_idx, aln0=0))
        with _Quiet():
            fresh.apply_param_rules([r for r in lf.get_param_rules() if r["par_name"] == par])
        rt = dict(rules=R.canon_real_rules(fresh, par, edges), nfp=fresh.defn_for[par].get_num_free_params())
        reqs.append(("rules", R.to_req(d, ops)))
        reals.append((ops, steps, d, model, par, rt, init_real))
    for (ops, steps, d, model, par, rt, init_real), m in zip(reals, ctx.driver.batch(reqs)):
        out["evaluations"] += 1
        inp = dict(model=model, par=par, defn=d, ops=ops)
        if "error" in m:
            add_failure(out, "corr", "rules model: driver error", inp, None, m, confirmed=False)
            continue
        # the newly built function (`Rules.fresh`): exported rules and nfp before any set_param_rule
        mi = m["init"]
        if not R.rules_close(init_real["rules"], R.canon_model_rules(mi["rules"])) or init_real["nfp"] != mi["nfp"]:
            add_failure(out, "corr", "newly built function: exported rules / nfp of the parameter differ from the model's "
                        "fresh state", dict(inp, ops=[]), mi, init_real, confirmed=False)
            continue
        ok = True
        for i, (a, b) in enumerate(zip(steps, m["steps"])):
            bump(out, "rules_step", "raises:" + a["err"] if a["err"] else "ok")
            if a["err"] or "err" in b:
                # exception CLASS is compared (the model's error strings are the class names)
                if (a["err"] or None) != b.get("err"):
                    add_failure(out, "corr", "set_param_rule raises differently from the model",
                                dict(inp, ops=ops[: i + 1]), b.get("err"), a["err"], confirmed=False)
                    ok = False
                    break
                continue
            mr = R.canon_model_rules(b["rules"])
            if not R.rules_close(a["rules"], mr) or a["nfp"] != b["nfp"]:
                add_failure(out, "corr", "exported rules / nfp of the parameter differ from the model",
                            dict(inp, ops=ops[: i + 1]), dict(rules=mr, nfp=b["nfp"]),
                            dict(rules=a["rules"], nfp=a["nfp"]), confirmed=False)
                ok = False
                break
        if not ok:
            continue
        mrt = m["roundtrip"]
        if "err" in mrt or not R.rules_close(rt["rules"], R.canon_model_rules(mrt["rules"])) or rt["nfp"] != mrt["nfp"]:
            add_failure(out, "corr", "round trip of exported rules on a new function differs from the model's",
                        inp, mrt, rt, confirmed=False)
            continue
        # property level, on the real code: the re-imported function exports the same rules and nfp
        if not R.rules_close(rt["rules"], steps[-1]["rules"]) or rt["nfp"] != steps[-1]["nfp"]:
            add_failure(out, "spec", "get_param_rules -> apply_param_rules on a new function does not reproduce the "
                        "parameter's scoped settings", dict(kind="rules", **inp), steps[-1], rt,
                        sig=f"rules:roundtrip:{'indep' if d['indep'] else 'shared'}")
            continue
        if len(steps[-1]["rules"]) > 1:
            out["nontrivial"].add(("rules", len(out["nontrivial"])))


def _corr_ctl(ctx, out):
    """REAL ParameterController over toy Defn graphs vs Model/Controller.lean, after every op:
    all defn values, the dirty set, _update_suspended (blocks entered/left through the context
    manager protocol, also left by an exception)"""
    from . import c07_ctl as ct

    rng = ctx.subrng("corr-ctl")
    reqs, reals = [], []
    for _ in range(ctx.budget(400, 6000)):
        c = ct.rand_ctl_case(rng)
        rq, init, steps = ct.run_real_ctl(c)
        reqs.append(("ctl", rq))
        reals.append((init, steps))
    for (_, rq), (init, steps), m in zip(reqs, reals, ctx.driver.batch(reqs)):
        out["evaluations"] += 1
        if "error" in m or init != m["init"]:
            add_failure(out, "corr", "ParameterController initial values differ from model", rq, m.get("init", m), init,
                        confirmed=False)
            continue
        for i, (a, b) in enumerate(zip(steps, m["steps"])):
            bump(out, "ctl_op", rq["ops"][i][0])
            a = {k: v for k, v in a.items() if k != "raised"}
            if a != b:
                add_failure(out, "corr", "ParameterController state after op differs from model",
                            dict(rq, ops=rq["ops"][: i + 1]), b, a, confirmed=False)
                break
        else:
            if any(o[0] == "exit" for o in rq["ops"]):
                out["nontrivial"].add(("ctl", len(out["nontrivial"])))


def _corr_ctl_failing(ctx, out):
    """as _corr_ctl, but the toy graphs contain definitions whose update() raises ValueError for some
    argument values, so walks over the dirty definitions are cut short (at an assignment or in the
    finally: of a block) — vs Model/ControllerFail.lean: values, the DIRTY SET LEFT BEHIND, flag,
    depth and whether the operation raised, after every op"""
    from . import c07_ctl as ct

    rng = ctx.subrng("corr-ctl-failing")
    reqs, reals = [], []
    for _ in range(ctx.budget(300, 5000)):
        c = ct.rand_ctl_case(rng, failing=True)
        try:
            rq, init, steps = ct.run_real_ctl(c)
        except ValueError:
            bump(out, "ctlf_init", "raises")
            continue
        reqs.append(("ctlf", rq))
        reals.append((init, steps))
    for (_, rq), (init, steps), m in zip(reqs, reals, ctx.driver.batch(reqs)):
        out["evaluations"] += 1
        if "error" in m or dict(init, raised=False) != m["init"]:
            add_failure(out, "corr", "ParameterController (failing definitions): initial state differs from model",
                        rq, m.get("init", m), init, confirmed=False)
            continue
        nfail = 0
        for i, (a, b) in enumerate(zip(steps, m["steps"])):
            nfail += a["raised"]
            bump(out, "ctlf_op", rq["ops"][i][0] + (":raises" if a["raised"] else ""))
            if a != b:
                add_failure(out, "corr", "ParameterController state after an op differs from the failing-update model",
                            dict(rq, ops=rq["ops"][: i + 1]), b, a, confirmed=False)
                break
        else:
            if nfail:
                out["nontrivial"].add(("ctlf", len(out["nontrivial"])))


# --------------------------------------------------------------------------
# spec-level differential
# --------------------------------------------------------------------------
def _calc_check(graph, x0, ops, trace=False):
    """REAL Calculator (optionally in trace mode) on one history vs the independent from-scratch
    evaluation at the vector it reports. -> (failure dict or None, n_returning, n_raising)"""
    from . import c07_calc as cc

    t = ":trace" if trace else ""
    init, steps, calc = cc.run_real(graph, x0, ops, trace=trace)
    if init == "raises":
        return None, 0, 0
    nret = nraise = 0

    def fail(what, sig, i, expected, got):
        return dict(what=what + (" (trace mode)" if trace else ""), sig=sig + t, expected=expected, got=got,
                    input=dict(kind="calculator", graph=graph, x0=x0, ops=ops[: i + 1], trace=trace))

    for i, s in enumerate(steps):
        op = ops[i]
        want = cc.fresh_python(graph, s["last"])
        if s["raised"] and str(s["exc"]).startswith("ESCAPED:"):
            return fail("the calculator let an exception out that is neither ParameterOutOfBoundsError nor "
                        "ArithmeticError, and is left at a vector / buffer that is not a fresh evaluation",
                        "calc:escaped:" + s["exc"].split(":")[1], i, dict(fresh_at_reported=want),
                        dict(exc=s["exc"], reported=s["last"], buffer=s["cur"])), nret, nraise
        if s["reported"] != s["last"]:
            return fail("get_value_array() differs from last_values", "calc:reported-vs-last", i, s["last"],
                        s["reported"]), nret, nraise
        if want is None or want != s["cur"]:
            return fail("Calculator buffer is not a fresh evaluation at the vector it reports",
                        "calc:stale-buffer:" + ("fail" if s["raised"] else "ok"), i, want, s["cur"]), nret, nraise
        if not s["raised"]:
            if s["ret"] != want[-1]:
                return fail("Calculator return value is not the fresh value", "calc:stale-return", i, want[-1],
                            s["ret"]), nret, nraise
            if op[0] == "call" and s["last"] != list(op[1]):
                return fail("after a successful call the calculator is not at the requested vector",
                            "calc:not-at-request", i, list(op[1]), s["last"]), nret, nraise
            if op[0] == "call" and cc.fresh_python(graph, list(op[1])) is None:
                return fail("call succeeded where a fresh evaluation raises", "calc:missed-raise", i, None,
                            s["ret"]), nret, nraise
            nret += 1
        else:
            if op[0] == "call" and cc.fresh_python(graph, list(op[1])) is not None:
                return fail("call raised where a fresh evaluation succeeds", "calc:spurious-raise", i, "value",
                            s["exc"]), nret, nraise
            nraise += 1
    return None, nret, nraise


def _spec_calc(ctx, out, rng, n_hist):
    """REAL Calculator vs the independent fresh evaluation (plain python) at the vector it reports;
    every fifth history runs the calculator in trace mode (Calculator(trace=True), what
    make_calculator(trace=True) / COGENT3_TRACE give), which must behave identically"""
    for ci, c in enumerate(_calc_cases(rng, n_hist, 30, malformed=False)):
        trace = ci % 5 == 4
        f, nret, nraise = _calc_check(c["graph"], c["x0"], c["ops"], trace=trace)
        out["evaluations"] += 1
        key = "spec_calc_step_trace" if trace else "spec_calc_step"
        out["dist"].setdefault(key, {})
        out["dist"][key]["returns"] = out["dist"][key].get("returns", 0) + nret
        out["dist"][key]["raises"] = out["dist"][key].get("raises", 0) + nraise
        if f:
            add_failure(out, "spec", f["what"], f["input"], f["expected"], f["got"], sig=f["sig"])
        else:
            out["nontrivial"].add(("spec-calc", trace, json.dumps(c["ops"][:3])))


def _hard(fails):
    """failures that end a history: everything except the export gap for optimisable inputs that are not user
    parameters, which the comparison functions compensate for (their settings are copied by hand), so the rest of
    the history remains a valid search for OTHER defects"""
    return [f for f in fails if not f["sig"].startswith("lf:rules-hidden-optpar")]


def _lf_case(case, out, sample=False):
    """run one history on a real likelihood function; returns list of failures (dicts)"""
    from . import c07_lf as L

    fails = []
    lf = L.new_lf(case)
    ml = ":ml" if L.is_ml(case) else ""
    executed = []  # flattened simple ops with result (+ snapshot for opt / calc)
    cur_aln = case["aln0"]

    def fail(what, sig, idx, expected, got, extra=None):
        inp = dict(kind="lf", **{k: v for k, v in case.items() if k != "ops"}, ops=case["ops"][: idx + 1])
        if extra:
            inp.update(extra)
        fails.append(dict(what=what, sig=sig, input=inp, expected=expected, got=got))

    state = dict(idx=0)

    def _failed_op_checks(before, kind):
        """a call that raised must leave the function unchanged and consistent"""
        obs0, rules0 = before
        obs1, rules1 = L.observe(lf), L.rules_canon(lf)
        idx = state["idx"]
        if (not L.close(obs0["lnL"], obs1["lnL"]) or obs0["nfp"] != obs1["nfp"] or rules0 != rules1
                or not L.vec_close(obs0["optvec"], obs1["optvec"], 1e-12)):
            diff = [r for r in rules1 if r not in rules0][:3]
            fail("an operation that raised changed the function (lnL / nfp / exported rules / optimiser vector)",
                 f"lf:failed-op-changed:{kind}", idx, dict(lnL=obs0["lnL"], nfp=obs0["nfp"]),
                 dict(lnL=obs1["lnL"], nfp=obs1["nfp"], new_rules=diff))
            return
        with L._Quiet():
            lf.update_intermediate_values()
            l2 = float(lf.lnL)
        if not L.close(obs1["lnL"], l2):
            fail("after an operation that raised, recomputing every definition changes lnL: the failed call left "
                 "assignments behind that were not propagated", f"lf:failed-op-stale:{kind}", idx, obs1["lnL"], l2)

    def run(op, log, depth):
        k = op[0]
        if k in ("block", "xblock"):
            try:
                with lf.updates_postponed():
                    for o in op[1]:
                        r = run(o, log, depth + 1)
                        if r != "ok" and k == "xblock":
                            raise RuntimeError("propagate")  # the caller did not catch inside the block
            except RuntimeError:
                return "propagated"
            return "ok"
        if k == "failrepair":
            # op = [failrepair, body, in_block, repair_idx]
            def body():
                for o in op[1]:
                    run(o, log, depth + 1)
                lf.set_alignment(L.bad_alignment(case, cur_aln))

            try:
                with L._Quiet():
                    if op[2]:
                        with lf.updates_postponed():
                            body()
                    else:
                        body()
                failed = False
            except Exception:  # noqa  (expected: the alignment cannot be converted)
                failed = True
            bump(out, "lf_failrepair", ("block" if op[2] else "direct") + (":raised" if failed else ":accepted"))
            return run(["aln", op[3]], log, depth)  # the caller repairs the alignment, nothing else
        if k == "latefail":
            # op = [latefail, par, edge, upper_side]: make the parameter independent per edge, give ONE edge
            # narrower bounds, then a rule for all edges that violates the bounds of that edge only
            par, edge, upper_side = op[1], op[2], op[3]
            base = 0.1 if par == "length" else 1.0
            r1 = run(["rule", par, {"is_independent": True, "init": base}], log, depth)
            if upper_side:
                r2 = run(["rule", par, {"edge": edge, "upper": base * 5, "init": base}], log, depth)
                bad_kw = {"is_independent": True, "lower": base * 8}
            else:
                r2 = run(["rule", par, {"edge": edge, "lower": base / 5, "init": base}], log, depth)
                bad_kw = {"is_independent": True, "upper": base / 8}
            if r1 != "ok" or r2 != "ok":
                return r1 if r1 != "ok" else r2
            before = (L.observe(lf), L.rules_canon(lf))
            r3 = L.apply_op(lf, ["rule", par, bad_kw], log)
            executed.append(dict(op=["bad", "latefail"], res=r3))
            bump(out, "lf_latefail", "raised" if r3 != "ok" else "accepted")
            if r3 != "ok":
                _failed_op_checks(before, "latefail")
            return "ok"
        before = (L.observe(lf), L.rules_canon(lf)) if (k == "bad" and depth == 0) else None
        r = L.apply_op(lf, op, log)
        if before is not None and r != "ok":
            _failed_op_checks(before, "bad:" + str(op[1]))
        ent = dict(op=op, res=r)
        if r == "ok" and k in ("opt", "calc"):
            with L._Quiet():
                ent["snapshot"] = lf.get_param_rules()
            # what the optimiser moved but rules cannot name (replayed by hand on the comparison function)
            ent["hidden"] = L.hidden_snapshot(lf)
        executed.append(ent)
        return r

    for idx, op in enumerate(case["ops"]):
        log = []
        state["idx"] = idx
        res = run(op, log, 0)
        bump(out, "lf_op", op[0])
        bump(out, "lf_op_result", res if res in ("ok", "propagated") else "raises")
        unexpected = [e for e in executed if e["res"] != "ok" and e["op"][0] != "bad"]
        if unexpected:
            bump(out, "lf_history_cut", unexpected[0]["res"])
            break  # an op we meant to succeed raised: its partial effect is unspecified; end the history here
        for e in executed:
            if e["op"][0] == "aln" and e["res"] == "ok":
                cur_aln = e["op"][1]
        # calculator steps made inside this op
        for st in log:
            if st.get("kind") != "calc_step":
                continue
            bump(out, "lf_calc_step", "raises" if st["failed"] else "returns")
            if not L.close(st["cur"], st["fresh_at_reported"]):
                fail("real likelihood calculator: current value differs from a new calculator at the reported vector",
                     "lf:calc-stale:" + ("fail" if st["failed"] else "ok"), idx, st["fresh_at_reported"], st["cur"],
                     dict(step=st))
            if not st["failed"] and not L.close(st["got"], st["cur"]):
                fail("real likelihood calculator: returned value differs from current value", "lf:calc-return",
                     idx, st["cur"], st["got"], dict(step=st))
        if lf._update_suspended:
            fail("updates stay suspended after an exception left an updates_postponed block; later changes are ignored",
                 "lf:suspended-after-block-exception", idx, False, True)
            # repair by hand so that the rest of the history still searches for other defects
            lf._update_suspended = False
            lf._updateIntermediateValues()
        obs = L.observe(lf)
        opk = op[0]
        # O0: the value the function reported right after the operation must be the value it has once EVERY
        # definition is recomputed (make_calculator does that, whatever the dirty set says), and the value of
        # the calculator made from it: no change may be left unpropagated, whoever made it (rule, alignment,
        # block, or the hand-back of an optimiser's calculator)
        if "lnL_recomputed" in obs and not (L.close(obs["lnL"], obs["lnL_recomputed"])
                                             and L.close(obs["lnL_recomputed"], obs["calc_value"])):
            fail("lnL reported after the operation differs from lnL once every definition is recomputed / from a "
                 "calculator made from the function: a changed input was not propagated",
                 f"lf:stale-intermediate:{opk}{ml}", idx,
                 dict(recomputed=obs["lnL_recomputed"], calculator=obs["calc_value"]), obs["lnL"])
        # O1: a new function given the same (successful) settings, one at a time
        f1 = L.new_lf(case)
        bad_replay = False
        for e in executed:
            if e["res"] != "ok" or e["op"][0] == "bad":
                continue
            if "snapshot" in e:
                with L._Quiet():
                    f1.apply_param_rules(copy.deepcopy(e["snapshot"]))
                L.apply_hidden(f1, e.get("hidden") or {})
            else:
                if L.apply_op(f1, e["op"], []) != "ok":
                    bad_replay = True
        if bad_replay:
            bump(out, "lf_replay", "op-raised-on-fresh")
            break
        o1 = L.observe(f1)
        if not L.close(obs["lnL"], o1["lnL"]):
            fail("lnL differs from a newly built function given the same settings one by one",
                 f"lf:replay-lnL:{opk}", idx, o1["lnL"], obs["lnL"])
        elif obs["nfp"] != o1["nfp"]:
            fail("nfp differs from a newly built function given the same settings", f"lf:replay-nfp:{opk}{ml}", idx,
                 o1["nfp"], obs["nfp"])
        elif not L.vec_close(obs["optvec"], o1["optvec"], 1e-7):
            fail("optimiser parameter vector differs from a newly built function given the same settings",
                 f"lf:replay-optvec:{opk}{ml}", idx, o1["optvec"], obs["optvec"])
        else:
            for key, v in obs["values"].items():
                w = o1["values"].get(key)
                if isinstance(v, float) and isinstance(w, float) and not L.close(v, w, 1e-7):
                    fail("reported parameter value differs from a newly built function", f"lf:replay-value:{opk}",
                         idx, {key: w}, {key: v})
                    break
        # O2: export rules -> new function
        try:
            f2 = L.fresh_from_rules(case, lf, cur_aln)
            o2 = L.observe(f2)
            bad = None
            if not L.close(obs["lnL"], o2["lnL"]):
                bad = ("lnL", "get_param_rules -> apply_param_rules on a new function gives a different lnL",
                       obs["lnL"], o2["lnL"])
            elif obs["nfp"] != o2["nfp"]:
                bad = ("nfp", "get_param_rules -> apply_param_rules on a new function gives a different nfp",
                       obs["nfp"], o2["nfp"])
            elif not L.vec_close(obs["optvec"], o2["optvec"], 1e-9):
                bad = ("optvec", "get_param_rules -> apply_param_rules on a new function gives a different optimiser "
                       "parameter vector", obs["optvec"], o2["optvec"])
            if bad:
                # diagnostic: are the exported rules right and only their ORDER wrong?
                order_only = False
                try:
                    o2b = L.observe(L.fresh_from_rules(case, lf, cur_aln, reorder=True))
                    order_only = (L.close(obs["lnL"], o2b["lnL"]) and obs["nfp"] == o2b["nfp"]
                                  and L.vec_close(obs["optvec"], o2b["optvec"], 1e-9))
                except Exception:  # noqa
                    pass
                hidden_only = False
                if not order_only and L.hidden_optpars(lf):
                    try:
                        o2c = L.observe(L.fresh_from_rules(case, lf, cur_aln, hidden=True))
                        hidden_only = (L.close(obs["lnL"], o2c["lnL"]) and obs["nfp"] == o2c["nfp"]
                                       and L.vec_close(obs["optvec"], o2c["optvec"], 1e-9))
                    except Exception:  # noqa
                        pass
                if hidden_only:
                    fail("exported rules do not reproduce the function: an optimisable input that is not a user "
                         "parameter (" + ", ".join(L.hidden_optpars(lf)) + ") is not exported, the re-imported function "
                         "has it at its default (" + bad[0] + " differs; copying that input over by hand repairs it)",
                         f"lf:rules-hidden-optpar{ml}", idx, bad[2], bad[3])
                elif order_only:
                    fail("exported rules reproduce the function only when applied in another order: a rule whose "
                         "scope rectangle covers another rule's scope is exported after it (" + bad[0] + " differs)",
                         f"lf:rules-order{ml}", idx, bad[2], bad[3])
                else:
                    fail(bad[1], f"lf:rules-{bad[0]}:{opk}{ml}", idx, bad[2], bad[3])
        except Exception as e:  # noqa
            fail("exported rules cannot be applied to a new function", f"lf:rules-raise:{type(e).__name__}", idx,
                 "applies", repr(e)[:200])
        # O3: everything constant at the reported values (single-locus, single-bin functions only)
        if ml:
            if _hard(fails):
                break
            continue
        try:
            f3 = L.fresh_constant(case, lf, cur_aln, obs)
            with L._Quiet():
                l3 = float(f3.lnL)
            if not L.close(obs["lnL"], l3, 1e-8):
                fail("lnL differs from a new function holding every reported value constant", f"lf:const-lnL:{opk}",
                     idx, l3, obs["lnL"])
        except Exception as e:  # noqa
            bump(out, "lf_const_oracle", "raised:" + type(e).__name__)
        if _hard(fails):
            break
    else:
        idx = len(case["ops"]) - 1
    if sample and not fails:
        out["samples"].append(dict(kind="lf-history", model=case["model"], taxa=case["taxa"], n_ops=len(case["ops"]),
                                   ops=[o if o[0] != "block" else ["block", len(o[1])] for o in case["ops"][:5]],
                                   lnL=L.observe(lf)["lnL"], nfp=int(lf.nfp)))
    return fails


def _add_xblocks(rng, ops):
    """turn some blocks into blocks that an exception leaves (the failing op is not caught inside)"""
    res = []
    for op in ops:
        if op[0] == "block" and rng.random() < 0.35:
            inner = list(op[1])
            inner.insert(rng.randrange(len(inner) + 1), ["bad", rng.choice(["unknown_par", "unknown_edge"])])
            res.append(["xblock", inner])
        else:
            res.append(op)
    return res


def _spec_lf(ctx, out, rng, n_cases, n_ops, opt_budget):
    from . import c07_lf as L

    # fixed cases first: operations that FAIL (inside / outside a postponed block) followed by a repair
    # and further changes; a multi-scope rule failing validation on one scope only
    fixed = [
        dict(model="HKY85", taxa=0, aln0=0, ops=[
            ["failrepair", [["rule", "kappa", {"init": 4.0}], ["rule", "length", {"edge": "Cat", "init": 0.3}]], True, 1],
            ["rule", "length", {"edge": "Human", "init": 0.2}]]),
        dict(model="GTR", taxa=2, aln0=1, ops=[
            ["rule", "A/G", {"init": 2.5}],
            ["failrepair", [["rule", "A/G", {"init": 0.6}], ["mprobs", {"T": 0.1, "C": 0.2, "A": 0.3, "G": 0.4}]], False, 2],
            ["xblock", [["rule", "C/T", {"init": 3.0}], ["bad", "unknown_edge"]]],
            ["rule", "A/C", {"edges": ["Cat", "Dog"], "is_independent": False, "init": 1.7}]]),
        dict(model="HKY85", taxa=1, aln0=0, ops=[
            ["latefail", "kappa", "Human", True], ["latefail", "kappa", "edge.1", False],
            ["rule", "kappa", {"edge": "Cow", "init": 2.0}]]),
        dict(model="F81", taxa=0, aln0=2, ops=[
            ["latefail", "length", "Rat", True], ["bad", "unknown_par"], ["latefail", "length", "Cat", False]]),
        dict(model="TN93", taxa=0, aln0=3, ops=[
            ["block", [["rule", "kappa_y", {"init": 2.0}], ["failrepair", [["rule", "kappa_r", {"init": 3.0}]], True, 0]]],
            ["rule", "kappa_y", {"is_constant": True, "value": 1.3}]]),
    ]
    for ci in range(len(fixed) + n_cases):
        if ci < len(fixed):
            case = fixed[ci]
        else:
            case = L.rand_case(rng, n_ops, opt_budget)
            case["ops"] = _add_xblocks(rng, case["ops"])
        out["evaluations"] += 1
        bump(out, "lf_model", case["model"])
        try:
            fails = _lf_case(case, out, sample=ci < 2)
        except Exception as e:  # noqa  (a function that cannot even be built / observed)
            fails = [dict(what="likelihood function history could not be run: " + repr(e)[:150],
                          sig="lf:raised:" + type(e).__name__, expected="runs",
                          got=type(e).__name__, input=dict(kind="lf", **case))]
        for f in fails:
            add_failure(out, "spec", f["what"], f["input"], f["expected"], f["got"], sig=f["sig"])
        if not fails:
            out["nontrivial"].add(("lf", ci, case["model"]))


def _spec_ctl(ctx, out, rng, n):
    """REAL ParameterController vs recomputing every definition from the last assigned settings,
    whenever no updates_postponed block is open and the last operation completed. Half of the
    graphs contain definitions whose update() raises for some argument values, so that walks over
    the dirty definitions fail part way (at an assignment or at the end of a block) and are later
    completed by a repairing assignment: no dirty mark may be lost."""
    from . import c07_ctl as ct

    for ci in range(n):
        failing = ci % 2 == 1
        for _ in range(20):
            c = ct.rand_ctl_case(rng, failing=failing)
            try:
                rq, init, steps = ct.run_real_ctl(c)
                break
            except ValueError:  # the defaults already hit a failing definition
                continue
        else:
            continue
        out["evaluations"] += 1
        f = _ctl_check(rq, init, steps)
        for s in steps:
            if s.get("raised"):
                bump(out, "ctl_failing_walk", "at-depth-%d" % min(s["depth"], 2))
        if f:
            add_failure(out, "spec", f["what"], f["input"], f["expected"], f["got"], sig=f["sig"])
        else:
            out["nontrivial"].add(("spec-ctl", failing, json.dumps(rq["ops"][:4])))


def _ctl_check(rq, init, steps):
    from . import c07_ctl as ct

    settings = list(rq["settings"])
    failed_before = False
    for i, (op, s) in enumerate(zip(rq["ops"], steps)):
        if op[0] == "assign":
            settings[op[1]] = op[2]
        if s.get("raised"):
            failed_before = True
            continue  # a failed walk: values are half updated, the dirty set must remember the rest
        if s["depth"] == 0:
            want = ct.fresh_values(rq, settings)
            if s["values"] != want or s["suspended"]:
                tag = ("suspended" if s["suspended"] else "not-suspended") + (":after-failed-update" if failed_before else "")
                return dict(
                    what="ParameterController values differ from recomputing every definition from the current "
                         "settings although no updates_postponed block is open and the operation completed"
                         + (" (an earlier update() had failed part way)" if failed_before else ""),
                    sig="ctl:stale-values:" + tag,
                    input=dict(kind="ctl", defns=rq["defns"], settings=rq["settings"], ops=rq["ops"][: i + 1]),
                    expected=want, got=s["values"])
    return None


def _rules_real_roundtrip(model, par, taxa_idx, ops):
    """REAL code only: history of set_param_rule on one parameter, export, apply to a new function,
    compare the parameter's exported rules, nfp and lnL. Returns a failure dict or None."""
    from . import c07_rules as R
    from .c07_lf import _Quiet, close, new_lf

    lf, edges, d = R.setup(taxa_idx, model, par)
    for op in ops:
        R.apply_real(lf, par, edges, op)
    before = dict(rules=R.canon_real_rules(lf, par, edges), nfp=int(lf.nfp))
    fresh = new_lf(dict(model=model, taxa=taxa_idx, aln0=0))
    with _Quiet():
        fresh.apply_param_rules(lf.get_param_rules())
        after = dict(rules=R.canon_real_rules(fresh, par, edges), nfp=int(fresh.nfp))
        l1, l2 = float(lf.lnL), float(fresh.lnL)
    if not R.rules_close(before["rules"], after["rules"]) or before["nfp"] != after["nfp"] or not close(l1, l2):
        return dict(what="get_param_rules -> apply_param_rules on a new function does not reproduce the "
                         "parameter's scoped settings / nfp / lnL",
                    sig=f"rules:roundtrip:{'indep' if d['indep'] else 'shared'}",
                    input=dict(kind="rules", model=model, par=par, taxa=taxa_idx, ops=ops),
                    expected=dict(before, lnL=l1), got=dict(after, lnL=l2))
    return None


def _spec_lf_ml(ctx, out, rng, n_cases, n_ops):
    """multi-locus / discrete-time (BH, DT) / gamma-bin functions: parameters tied or split across
    edges, loci and bins at once, per-locus motif probs, constants and bounds"""
    from . import c07_lf as L

    # fixed cases first: one parameter tied over several scope dimensions at once, in every order
    # the dimensions can take in the exported rule
    gam = dict(with_rate=True, distribution="gamma")
    e4 = ["Cat", "Human", "Rat"]
    fixed = [
        dict(model="BH", loci=["a", "b"], nodeg=True, taxa=0, aln0=0,
             ops=[["rule", "psubs", {"locus": "a", "edges": e4[:2], "is_independent": False}]]),
        dict(model="DT", loci=["a", "b"], nodeg=True, taxa=0, aln0=1,
             ops=[["rule", "psubs", {"loci": ["a", "b"], "edge": "Human", "is_independent": False}]]),
        dict(model="BH", loci=["a", "b"], nodeg=True, taxa=0, aln0=0,
             ops=[["rule", "psubs", {"loci": ["a", "b"], "edges": e4, "is_independent": False}],
                  ["rule", "psubs", {"locus": "b", "edge": "Cat", "is_constant": True}]]),
        dict(model="HKY85", loci=["a", "b"], taxa=0, aln0=0,
             ops=[["rule", "kappa", {"loci": ["a", "b"], "is_independent": True, "init": 2.0}],
                  ["rule", "kappa", {"locus": "a", "edges": e4[:2], "is_independent": False, "init": 3.0, "upper": 9.0}],
                  ["mprobs", {"T": 0.1, "C": 0.2, "A": 0.3, "G": 0.4}, {"locus": "b"}]]),
        dict(model="HKY85", mkw=gam, bins=2, taxa=0, aln0=2,
             ops=[["rule", "kappa", {"bins": ["bin0", "bin1"], "is_independent": True, "init": 2.0}],
                  ["rule", "kappa", {"bin": "bin0", "edges": e4, "is_independent": False, "is_constant": True, "value": 1.5}]]),
        dict(model="HKY85", mkw=gam, bins=2, loci=["a", "b"], taxa=2, aln0=0,
             ops=[["rule", "kappa", {"bins": ["bin0", "bin1"], "loci": ["a", "b"], "is_independent": True, "init": 2.0}],
                  ["rule", "kappa", {"bin": "bin1", "locus": "a", "edges": ["Cat", "Dog"], "is_independent": False, "init": 0.7}]]),
        # optimisable inputs that are not user parameters (free distribution over site classes): the hand-back of
        # an optimiser's calculator must propagate them like any other input
        dict(model="HKY85", mkw=dict(ordered_param="rate", distribution="free"), bins=2, taxa=0, aln0=0,
             ops=[["opt", dict(max_evaluations=25, local=True)], ["rule", "length", {"edge": "Cat", "init": 0.25}],
                  ["calc", 12345, 4], ["rule", "kappa", {"bin": "bin1", "init": 3.0}]]),
        dict(model="HKY85", mkw=dict(ordered_param="kappa", distribution="free"), bins=3, taxa=2, aln0=1,
             ops=[["rule", "kappa", {"init": 2.0}], ["calc", 777, 5],
                  ["block", [["rule", "length", {"edges": ["Cat", "Dog"], "is_independent": False, "init": 0.2}]]],
                  ["opt", dict(max_evaluations=12, local=True)]]),
        dict(model="GN", loci=["a", "b"], taxa=2, aln0=1,
             ops=[["rule", "A>G", {"loci": ["a", "b"], "is_independent": True, "init": 1.7}],
                  ["rule", "length", {"edges": ["Cat", "Dog"], "is_independent": False, "init": 0.2}],
                  ["mprobs", {"T": 0.3, "C": 0.2, "A": 0.3, "G": 0.2}, {"locus": "a"}]]),
    ]
    for ci in range(len(fixed) + n_cases):
        case = fixed[ci] if ci < len(fixed) else L.rand_ml_case(rng, n_ops)
        out["evaluations"] += 1
        bump(out, "lf_ml_config", f"{case['model']}:loci={len(case.get('loci') or [])}:bins={case.get('bins') or 0}")
        try:
            fails = _lf_case(case, out, sample=ci < 1)
        except Exception as e:  # noqa
            fails = [dict(what="likelihood function history could not be run: " + repr(e)[:150],
                          sig="lf:raised:" + type(e).__name__ + ":ml", expected="runs",
                          got=type(e).__name__, input=dict(kind="lf", **case))]
        for f in fails:
            add_failure(out, "spec", f["what"], f["input"], f["expected"], f["got"], sig=f["sig"])
        if not fails:
            out["nontrivial"].add(("lf-ml", ci, case["model"]))


def _spec_rules(ctx, out, rng, n):
    from . import c07_rules as R

    for _ in range(n):
        model, par = rng.choice(R.PARS)
        taxa_idx = rng.randrange(3)
        nedges = 2 * len(R.TAXA_SETS[taxa_idx][0]) - 3
        ops = [R.rand_op(rng, nedges, par) for _ in range(rng.randint(1, 8))]
        out["evaluations"] += 1
        f = _rules_real_roundtrip(model, par, taxa_idx, ops)
        if f:
            add_failure(out, "spec", f["what"], f["input"], f["expected"], f["got"], sig=f["sig"])
        else:
            out["nontrivial"].add(("spec-rules", json.dumps(ops[:2])))


def spec_check(ctx, budget):
    out = new_outcome(
        "(a) REAL Calculator on random cell graphs/histories vs an independent from-scratch evaluation at the vector "
        "the calculator reports (buffer, return value, raises iff fresh raises, at requested vector after success); "
        "(b) REAL likelihood functions (HKY85/GTR/F81/TN93/JC69/K80/GN on 3-5 taxa of brca1): random histories of "
        "set_param_rule / set_motif_probs / set_alignment / nested updates_postponed blocks (also left by an exception) "
        "/ optimise(max_evaluations=k) / calculator walks with reversals and out-of-bounds vectors, checked after "
        "every op against three newly built functions: same settings applied one by one, exported rules applied, "
        "every reported value held constant (lnL rel 1e-9, nfp exact). non-trivial = histories completed without cut"
    )
    rng = ctx.subrng(f"spec{budget}")
    _spec_calc(ctx, out, rng, 600 * budget)
    _spec_ctl(ctx, out, rng, 300 * budget)
    _spec_rules(ctx, out, rng, 60 * budget)
    n_cases = 45 * budget if not ctx.thorough else 40 * budget
    _spec_lf(ctx, out, rng, n_cases, 7, (4, 10, 25))
    _spec_lf_ml(ctx, out, rng, (18 * budget) if not ctx.thorough else 20 * budget, 5)
    return out


# --------------------------------------------------------------------------
# findings
# --------------------------------------------------------------------------
def match_finding(f, k):
    if f.get("sig") not in k.get("sigs", []):
        return False
    r = k.get("restrict") or {}
    inp = f.get("input") or {}
    if r.get("kind") and inp.get("kind") != r["kind"]:
        return False
    if r.get("needs_multidim"):
        # the defect needs a second scope dimension: at least two loci or at least two bins
        if not (len(inp.get("loci") or []) >= 2 or int(inp.get("bins") or 0) >= 2):
            return False
    if r.get("needs_trace") and not inp.get("trace"):
        return False
    if r.get("needs_hidden_optpar"):
        # the defect needs an optimisable input that is not a user parameter: a FREE distribution over >= 2 site
        # classes, and an optimiser / calculator hand-back in the history
        if (inp.get("mkw") or {}).get("distribution") != "free" or int(inp.get("bins") or 0) < 2:
            return False
        if not any(o[0] in ("opt", "calc") for o in (inp.get("ops") or [])):
            return False
    if r.get("needs_exception_exit"):
        # the failing step must be (lf) the block an exception left, or (toy controller) come after such an exit
        ops = inp.get("ops") or []
        if inp.get("kind") == "lf":
            if not ops or ops[-1][0] != "xblock":
                return False
        elif inp.get("kind") == "ctl":
            if not any(o[0] == "xexit" for o in ops):
                return False
        else:
            return False
    return True


def _replay_input(inp):
    from . import c07_calc as cc

    if inp.get("kind") == "calculator":
        f, _, _ = _calc_check(inp["graph"], inp["x0"], inp["ops"], trace=bool(inp.get("trace")))
        if f:
            print(f["sig"], "expected", f["expected"], "got", f["got"])
        return bool(f)
    if inp.get("kind") == "rules":
        f = _rules_real_roundtrip(inp["model"], inp["par"], inp["taxa"], inp["ops"])
        if f:
            print("expected", f["expected"], "got", f["got"])
        return bool(f)
    if inp.get("kind") == "ctl":
        from . import c07_ctl as ct

        rq, init, steps = _ctl_replay(inp)
        f = _ctl_check(rq, init, steps)
        if f:
            print(f["sig"], "expected", f["expected"], "got", f["got"])
        return bool(f)
    if inp.get("kind") == "lf":
        out = new_outcome()
        try:
            fails = _lf_case({k: v for k, v in inp.items() if k not in ("kind", "step")}, out)
        except Exception as e:  # noqa
            print("raised", repr(e)[:200])
            return True
        for f in fails:
            print(f["sig"], "expected", f["expected"], "got", f["got"])
        return bool(fails)
    return False


def _ctl_replay(inp):
    """re-run a recorded toy-controller history (defns are already in controller order)"""
    from . import c07_ctl as ct

    nodes = []
    for i, d in enumerate(inp["defns"]):
        if d["k"] == "leaf":
            nodes.append(dict(k="leaf", name=f"n{i:03d}", v=inp["settings"][i]))
        else:
            nodes.append(dict(k="derived", name=f"n{i:03d}", args=d["args"], salt=d["salt"], mult=d["mult"],
                              rmod=d.get("rmod", 0), rres=d.get("rres", 0)))
    rq, init, steps = ct.run_real_ctl(dict(nodes=nodes, ops=inp["ops"]))
    return rq, init, steps


def replay(ctx, data):
    f = data.get("failing_input") or {}
    inp = f.get("input")
    if not inp:
        return False
    return _replay_input(inp)


def check_witness(ctx, w):
    out = new_outcome()
    if w.get("kind") == "lf":
        fails = _lf_case({k: v for k, v in w.items() if k != "kind"}, out)
        for f in fails:
            add_failure(out, "spec", f["what"], f["input"], f["expected"], f["got"], sig=f["sig"])
        return out["failures"][0] if out["failures"] else None
    if w.get("kind") == "calculator":
        f, _, _ = _calc_check(w["graph"], w["x0"], w["ops"], trace=bool(w.get("trace")))
        if f:
            add_failure(out, "spec", f["what"], f["input"], f["expected"], f["got"], sig=f["sig"])
            return out["failures"][0]
    return None
