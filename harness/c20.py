"""C20 — Tables follow the list-of-rows model and survive delimited round-trips.

Three parties are compared on the same generated inputs:

  REAL   cogent3.util.table.Table (make_table / load_table / Table.write) from /repo
  MODEL  lean/CogentModel/Model/TableOps.lean + Model/Csv.lean through the native driver drv_c20
  ORACLE plain python on a list of row tuples (list comprehensions, Counter, set, zip, sorted-ness
         check) and, for the csv layer, CPython's own `csv` module

correspondence(): MODEL vs REAL (table ops) and MODEL vs CPython csv (writer + reader state machine,
                  exhaustive small box + seeded random + malformed texts) and vs Table.write/load_delimited.
spec_check():     REAL vs ORACLE for every op with generated arguments, and write/load_table round trips
                  over tsv/csv/tsv.gz/csv.gz/json/pickle.
"""
from __future__ import annotations

import csv
import io
import itertools
import math
import re
from collections import Counter
from fractions import Fraction

from .common import add_failure, bump, new_outcome, rat, unrat

PROP = "C20"
PROPS_FILES = ["CogentModel/Props/C20.lean"]
LEAN_TARGETS = ["CogentModel.Props.C20"]
DRIVER = "drv_c20"
TRUSTED = [
    "hand-written models lean/CogentModel/Model/TableOps.lean (column store, hash join, mask/fancy indexing, "
    "reversal transforms, merge-sort as *a* sorting permutation) and Model/Csv.lean (CPython _csv.c writer "
    "QUOTE_MINIMAL + reader state machine, excel dialect), tied by the correspondence runs of this harness",
    "Spec/TableRows.lean (list-of-row-tuples operations) and the python row oracle in harness/c20.py",
    "numpy fancy/boolean indexing, numpy.rec argsort (any sorting permutation), CPython csv/json/pickle/gzip "
    "are modelled or used as oracles, not verified",
]
ASSUMPTIONS = [
    "float cells are float64 values without NaN/inf for relational ops (exact rationals in the model); ints fit int64",
    "sort keys are homogeneous int/float/str/bool columns without missing values (mixed/None keys raise TypeError "
    "in python as well and are only checked for 'raises or sorted')",
    "file round trips use cells over printable ASCII plus TAB (no CR/LF inside cells); header names are stripped, "
    "unique and non-empty (Columns.__setitem__ strips names)",
    "a delimited column whose every cell text parses with int()/float() counts as a numeric column and must come "
    "back as those numbers; every other column must come back with identical cell text",
    "the eval()-based mixed-type inference of cast_str_to_array is exercised, not modelled; strings that would "
    "call functions / build huge values under eval are not generated (the harness must survive)",
    "index_name handling, formatting (to_string/markdown/latex/html) and column_templates are outside the property",
]

FORMATS = ["tsv", "csv", "tsv.gz", "csv.gz", "json", "pickle"]


# --------------------------------------------------------------------------
# canonical forms
# --------------------------------------------------------------------------
def _py(v):
    try:
        import numpy

        if isinstance(v, numpy.generic):
            return v.item()
    except Exception:
        pass
    return v


def canon(v):
    """python `==` classes of scalar cells: True == 1 == 1.0; None; str"""
    v = _py(v)
    if v is None:
        return None
    if isinstance(v, bool):
        return Fraction(int(v))
    if isinstance(v, int):
        return Fraction(v)
    if isinstance(v, float):
        if v != v:
            return ("nan",)
        if math.isinf(v):
            return ("inf", v > 0)
        return Fraction(v)
    if isinstance(v, Fraction):
        return v
    if isinstance(v, complex):
        return canon(v.real) if v.imag == 0 else ("c", canon(v.real), canon(v.imag))
    if isinstance(v, str):
        return ("s", str(v))
    if isinstance(v, (list, tuple)):
        return tuple(canon(x) for x in v)
    return ("?", repr(v))


def canon_rows(rows):
    return [tuple(canon(x) for x in r) for r in rows]


def show(v):
    """json-able, loss-free rendering for failure records"""
    v = _py(v)
    if isinstance(v, (list, tuple)):
        return [show(x) for x in v]
    if isinstance(v, Fraction):
        return rat(v)
    if isinstance(v, dict):
        return {str(k): show(x) for k, x in v.items()}
    if v is None or isinstance(v, (bool, int, float, str)):
        return v
    return repr(v)


def cell_j(v):
    v = _py(v)
    if v is None or isinstance(v, (bool, str)):
        return v
    if isinstance(v, int):
        return v
    if isinstance(v, float):
        return {"f": rat(v)}
    raise ValueError(f"cell {v!r}")


def uncell(j):
    if j is None:
        return None
    if isinstance(j, bool):
        return Fraction(int(j))
    if isinstance(j, int):
        return Fraction(j)
    if isinstance(j, dict):
        return unrat(j["f"])
    return ("s", j)


def table_j(td):
    return dict(header=td["header"], cols=[[cell_j(v) for v in c] for c in td["cols"]], title=td.get("title", ""))


def rows_of(td):
    n = len(td["cols"][0]) if td["cols"] else 0
    return [[c[i] for c in td["cols"]] for i in range(n)]


# --------------------------------------------------------------------------
# generators
# --------------------------------------------------------------------------
INT_POOL = [-3, -1, 0, 1, 1, 2, 2, 3, 5, 7, 10, 2**40, -(2**40)]
FLOAT_POOL = [0.5, -1.25, 2.0, 2.0, 3.75, 0.125, -0.5, 1024.0, 1.0, 0.0]  # dyadic: sums stay exact
STR_POOL = ["a", "ab", "b", "abc", "", "B", "a b", "ba", "a", "b", "x,y", 'q"r', "it's", "abd", "aa", "z", "Ab", "~", " "]
NAMES = ["k", "n", "s", "x", "y", "val", "c d", "id", "f", "b", "w", "p,q", 'h"i', "t\tu", "#z", "K"]
FILE_TOKENS = [
    "", "a", "ab", "b", "a\tb", "x,y", ",", "\t", '"', '""', 'q"r', '"a"', "'a'", "it's", " lead", "trail ", " ",
    "a b", "1", "01", "1.50", "1e5", ".5", "5.", "-3", "+2", "1_0", "0x10", "1 ", " 1", "nan", "inf", "None", "True",
    "False", "true", "id", "max", "set", "re", "v", "1,2", "[1]", "{}", "()", "(1)", "1;2", "a,b\tc", '"x",y', "#c",
    "a=b", "\\", "\\t", "'", "''", '"""', "~", "1/2", "1/0", "1-1", "2+2", "a.b", "e", "E1", "1e", "--", "0.1",
]
SAFE_CHARS = (
    "abcxyzABZ 0123456789" + ',\t"' + "'.;:-+_#=/|\\!?@$%&[]{}~^`" + ',\t"' + "  "
)  # no ( ) * < > : strings are eval()'d by the loader


def eval_dangerous(s: str) -> bool:
    """strings the loader's eval() could turn into a call / a huge computation: never generated"""
    return bool("*" in s or "<<" in s or "(" in s and re.search(r"[A-Za-z_\]\)\}'\"]\s*\(", s)) or len(s) > 40


def gen_cell_text(rng):
    r = rng.random()
    if r < 0.55:
        return rng.choice(FILE_TOKENS)
    n = rng.choice([1, 1, 2, 2, 3, 4, 6, 9])
    while True:
        s = "".join(rng.choice(SAFE_CHARS) for _ in range(n))
        if not eval_dangerous(s):
            return s


def gen_column(rng, kind, n, file_mode=False):
    if kind == "int":
        pool = INT_POOL if not file_mode else INT_POOL + [2**62, -(2**62), 123456789012]
        return [rng.choice(pool) for _ in range(n)]
    if kind == "float":
        pool = FLOAT_POOL if not file_mode else FLOAT_POOL + [0.1, 1e-7, 1e22, 5e-324, 1.7976931348623157e308, -0.0, 1 / 3, 2.5e-5]
        return [rng.choice(pool) for _ in range(n)]
    if kind == "bool":
        return [rng.random() < 0.5 for _ in range(n)]
    if kind == "str":
        if file_mode:
            return [gen_cell_text(rng) for _ in range(n)]
        pool = rng.choice([STR_POOL, STR_POOL[:4], ["a", "ab", "abc", "b"], STR_POOL])
        return [rng.choice(pool) for _ in range(n)]
    if kind == "strnum":  # strings that all look like numbers (file mode)
        return [rng.choice(["1", "2", "01", "1.50", "-3", "1e5", ".5", "7", "10"]) for _ in range(n)]
    # mixed / missing values (object dtype)
    base = rng.choice(["int", "float", "str", "bool", "any"])
    out = []
    for _ in range(n):
        if rng.random() < 0.3:
            out.append(None)
        elif base == "any":
            out.append(gen_column(rng, rng.choice(["int", "float", "str", "bool"]), 1, file_mode)[0])
        else:
            out.append(gen_column(rng, base, 1, file_mode)[0])
    return out


def col_kind(values):
    ts = {type(v) for v in values}
    if not ts:
        return "empty"
    if ts <= {int, float}:
        return "num"
    if ts == {str}:
        return "str"
    if ts == {bool}:
        return "bool"
    return "obj"


def gen_table(rng, nrows=None, ncols=None, names=None, file_mode=False, kinds=None):
    if nrows is None:
        nrows = rng.choice([0, 1, 1, 2, 3, 3, 4, 5, 6, 8, 12, 20, 40])
    if names is None:
        ncols = ncols or rng.choice([1, 2, 2, 3, 3, 4, 5])
        names = rng.sample(NAMES, ncols)
    cols = []
    for i, _ in enumerate(names):
        k = kinds[i] if kinds else rng.choice(
            ["int", "int", "float", "str", "str", "str", "bool", "mixed"] + (["strnum"] if file_mode else [])
        )
        cols.append(gen_column(rng, k, nrows, file_mode))
    title = rng.choice(["", "", "T1", "my title", "t,1"])
    return dict(header=list(names), cols=cols, title=title)


# predicate / function mini languages (mirrored in lean/Driver/C20.lean)
def mk_pred(spec):
    k = spec[0]
    if k == "true":
        return lambda r: True
    if k == "numgt":
        i, q = spec[1], unrat(spec[2])

        def f(r):
            x = _py(r[i])
            return isinstance(x, (int, float)) and not isinstance(x, bool) and Fraction(x) > q

        return f
    if k == "eq":
        i, c = spec[1], canon(spec[2])
        return lambda r: canon(r[i]) == c
    if k == "ismissing":
        return lambda r: _py(r[spec[1]]) is None
    if k == "strlen_gt":
        return lambda r: isinstance(_py(r[spec[1]]), str) and len(r[spec[1]]) > spec[2]
    if k == "and":
        a, b = mk_pred(spec[1]), mk_pred(spec[2])
        return lambda r: a(r) and b(r)
    if k == "or":
        a, b = mk_pred(spec[1]), mk_pred(spec[2])
        return lambda r: a(r) or b(r)
    if k == "not":
        a = mk_pred(spec[1])
        return lambda r: not a(r)
    raise ValueError(spec)


def pred_j(spec):
    k = spec[0]
    if k == "eq":
        return ["eq", spec[1], cell_j(spec[2])]
    if k in ("and", "or"):
        return [k, pred_j(spec[1]), pred_j(spec[2])]
    if k == "not":
        return [k, pred_j(spec[1])]
    return list(spec)


def gen_pred(rng, cols, depth=0):
    n = len(cols)
    i = rng.randrange(n)
    r = rng.random()
    if depth < 2 and r < 0.25:
        return [rng.choice(["and", "or"]), gen_pred(rng, cols, depth + 1), gen_pred(rng, cols, depth + 1)]
    if depth < 2 and r < 0.33:
        return ["not", gen_pred(rng, cols, depth + 1)]
    r = rng.random()
    if r < 0.3:
        return ["numgt", i, rat(Fraction(rng.choice([-1, 0, 1, 2, 3])) + Fraction(rng.choice([0, 1]), 2))]
    if r < 0.65:
        pool = [v for v in cols[i]] or [1]
        return ["eq", i, rng.choice(pool + [1, "a", True, None, 2.0])]
    if r < 0.8:
        return ["ismissing", i]
    if r < 0.95:
        return ["strlen_gt", i, rng.choice([0, 1, 2])]
    return ["true"]


def mk_fn(spec):
    k = spec[0]
    if k == "const":
        return lambda r: spec[1]
    if k == "sum":

        def f(r):
            xs = [_py(x) for x in r]
            xs = [x for x in xs if isinstance(x, (int, float)) and not isinstance(x, bool)]
            tot = sum((Fraction(x) for x in xs), Fraction(0))
            return float(tot) if any(isinstance(x, float) for x in xs) else int(tot)

        return f
    if k == "concat":
        return lambda r: "".join(str(x) for x in r if isinstance(_py(x), str))
    if k == "nmissing":
        return lambda r: sum(1 for x in r if _py(x) is None)
    raise ValueError(spec)


def fn_j(spec):
    return ["const", cell_j(spec[1])] if spec[0] == "const" else list(spec)


def sortable(td):
    """names of columns usable as sort keys: homogeneous, no missing"""
    return [h for h, c in zip(td["header"], td["cols"]) if col_kind(c) in ("num", "str", "bool")]


def gen_case(rng, op=None):
    """one operation with generated tables and arguments (json-able dict)"""
    op = op or rng.choice(
        ["sorted", "sorted", "sorted", "inner_join", "inner_join", "natural_join", "cross_join", "filtered", "filtered",
         "count_unique", "distinct_values", "appended", "transposed", "get_columns", "with_new_column"]
    )
    if op == "sorted":
        t = gen_table(rng, nrows=rng.choice([1, 2, 3, 3, 4, 5, 6, 9, 15, 30, 60]))
        ok = sortable(t)
        if not ok:
            t["header"].append("zz")
            t["cols"].append(gen_column(rng, rng.choice(["int", "str"]), len(t["cols"][0])))
            ok = ["zz"]
        mode = rng.random()
        k = rng.randint(1, min(3, len(ok)))
        cols = rng.sample(ok, k)
        if mode < 0.3:
            columns, reverse = cols, []
        elif mode < 0.55:
            columns, reverse = None, cols
        elif mode < 0.85:
            columns, reverse = cols, [c for c in cols if rng.random() < 0.5]
        else:
            rest = [c for c in ok if c not in cols]
            columns, reverse = cols, rng.sample(rest, min(len(rest), 1))
        if columns is not None and len(columns) == 1 and rng.random() < 0.3:
            columns = columns[0]
        if len(reverse) == 1 and rng.random() < 0.3:
            reverse = reverse[0]
        if reverse == [] and rng.random() < 0.5:
            reverse = None
        return dict(op=op, t=t, columns=columns, reverse=reverse)
    if op in ("inner_join", "natural_join", "cross_join"):
        small = op == "cross_join"
        t = gen_table(rng, nrows=rng.choice([0, 1, 2, 3, 4, 6] if small else [0, 1, 2, 3, 5, 8, 14]))
        nk = rng.choice([1, 1, 2]) if op != "cross_join" else 0
        nk = min(nk, len(t["header"]))
        ks = rng.sample(t["header"], nk)
        # other table: shares the key columns' value pools (duplicate keys on both sides)
        others = [n for n in NAMES if n not in t["header"]]
        extra = rng.sample(others, rng.choice([0, 1, 2]))
        if op == "natural_join":
            ko = list(ks)
            names = ko + extra
            rng.shuffle(names)
            if len(ks) == 2 and rng.random() < 0.5:  # shared columns in a different relative order
                i, j = names.index(ks[0]), names.index(ks[1])
                if i < j:
                    names[i], names[j] = names[j], names[i]
        else:
            ko = [rng.choice(["kk", "k2", "key", "o"]) + str(i) for i in range(nk)]
            names = ko + extra
            rng.shuffle(names)
        m = rng.choice([0, 1, 2, 3, 4, 6] if small else [0, 1, 2, 3, 5, 8, 14])
        ucols = []
        for nme in names:
            if nme in ko:
                src = t["cols"][t["header"].index(ks[ko.index(nme)])]
                pool = list(src) + gen_column(rng, "mixed", 2)
                ucols.append([rng.choice(pool) for _ in range(m)])
            else:
                ucols.append(gen_column(rng, rng.choice(["int", "float", "str", "bool", "mixed"]), m))
        if not names:
            names = ["only"]
            ucols = [gen_column(rng, "int", m)]
        u = dict(header=names, cols=ucols, title="U")
        case = dict(op=op, t=t, u=u)
        if op == "inner_join":
            case.update(ks=ks, ko=ko)
        return case
    if op == "filtered":
        t = gen_table(rng)
        k = rng.randint(1, len(t["header"]))
        columns = rng.sample(t["header"], k)
        sub = [t["cols"][t["header"].index(c)] for c in columns]
        return dict(op=op, t=t, columns=columns, pred=gen_pred(rng, sub))
    if op in ("count_unique", "distinct_values", "get_columns"):
        t = gen_table(rng)
        k = rng.randint(1, len(t["header"]))
        return dict(op=op, t=t, columns=rng.sample(t["header"], k))
    if op == "with_new_column":
        t = gen_table(rng)
        k = rng.randint(1, len(t["header"]))
        columns = rng.sample(t["header"], k)
        fn = rng.choice([["sum"], ["sum"], ["concat"], ["nmissing"], ["const", rng.choice([1, "c", 2.5])]])
        new = rng.choice(["new", "new", "N w", t["header"][0]])
        return dict(op=op, t=t, columns=columns, fn=fn, new=new)
    if op == "appended":
        t = gen_table(rng, nrows=rng.choice([0, 1, 2, 3, 5]))
        kinds = None
        others = []
        for i in range(rng.choice([1, 1, 2, 3])):
            names = list(t["header"])
            rng.shuffle(names)
            same = rng.random() < 0.6
            cols = []
            m = rng.choice([0, 1, 2, 4])
            for nme in names:
                src = t["cols"][t["header"].index(nme)]
                if same and src:
                    cols.append([rng.choice(src) for _ in range(m)])
                else:
                    cols.append(gen_column(rng, rng.choice(["int", "float", "str", "bool", "mixed"]), m))
            others.append(dict(header=names, cols=cols, title=rng.choice(["", "o%d" % i, "second"])))
        return dict(op=op, t=t, others=others, new=rng.choice([None, "src", "which one"]))
    if op == "transposed":
        n = rng.choice([0, 1, 2, 3, 4])
        ncols = rng.choice([1, 2, 3, 4])
        names = rng.sample(NAMES, ncols)
        t = gen_table(rng, nrows=n, names=names)
        si = rng.randrange(ncols)
        kind = rng.choice(["str", "int", "dup"])
        if kind == "str":
            t["cols"][si] = rng.sample(["r1", "r2", "gene", "x y", "A", "b", "c,d"], n)
        elif kind == "int":
            t["cols"][si] = rng.sample(range(-2, 9), n)
        else:
            t["cols"][si] = [rng.choice(["u", "v", 1]) for _ in range(n)]
        return dict(op=op, t=t, new=rng.choice(["hdr", "name"]), select=None if si == 0 and rng.random() < 0.5 else names[si])
    raise ValueError(op)


# --------------------------------------------------------------------------
# REAL
# --------------------------------------------------------------------------
def real_table(td):
    from cogent3 import make_table

    return make_table(header=list(td["header"]), data={h: list(c) for h, c in zip(td["header"], td["cols"])}, title=td.get("title", ""))


def table_rows(t):
    """rows as observed through to_list()"""
    if t.shape[1] == 0:
        return []
    rows = t.to_list()
    if t.shape[1] == 1:
        rows = [[v] for v in rows]
    return [list(r) for r in rows]


def _cb(f, ncols):
    if ncols == 1:
        return lambda x: f([x])
    return lambda x: f(list(x))


def run_real(case):
    """-> dict(header=, rows=) | dict(counts=) | dict(values=) | dict(err=)"""
    op = case["op"]
    try:
        t = real_table(case["t"])
        if op == "sorted":
            kw = {}
            if case["columns"] is not None:
                kw["columns"] = case["columns"]
            if case["reverse"] is not None:
                kw["reverse"] = case["reverse"]
            r = t.sorted(**kw)
        elif op == "inner_join":
            r = t.inner_join(real_table(case["u"]), columns_self=case["ks"], columns_other=case["ko"])
        elif op == "natural_join":
            r = t.joined(real_table(case["u"]))
        elif op == "cross_join":
            r = t.joined(real_table(case["u"]), inner_join=False) if case.get("via_joined") else t.cross_join(real_table(case["u"]))
        elif op == "filtered":
            r = t.filtered(_cb(mk_pred(case["pred"]), len(case["columns"])), columns=case["columns"])
        elif op == "count_unique":
            c = t.count_unique(case["columns"])
            single = len(case["columns"]) == 1
            return dict(counts=Counter({(canon(k),) if single else canon(k): int(n) for k, n in c.items()}))
        elif op == "distinct_values":
            s = t.distinct_values(case["columns"])
            single = len(case["columns"]) == 1
            return dict(values={(canon(k),) if single else canon(k) for k in s}, size=len(s))
        elif op == "get_columns":
            r = t.get_columns(case["columns"])
        elif op == "with_new_column":
            r = t.with_new_column(case["new"], _cb(mk_fn(case["fn"]), len(case["columns"])), columns=case["columns"])
        elif op == "appended":
            r = t.appended(case["new"], *[real_table(o) for o in case["others"]])
        elif op == "transposed":
            r = t.transposed(case["new"], select_as_header=case["select"])
        else:
            raise ValueError(op)
        return dict(header=list(r.header), rows=table_rows(r), shape=list(r.shape))
    except (SystemExit, KeyboardInterrupt):
        raise
    except Exception as e:  # noqa: BLE001
        return dict(err=type(e).__name__, msg=str(e)[:200])


# --------------------------------------------------------------------------
# ORACLE: plain list-of-row-tuples semantics
# --------------------------------------------------------------------------
def _aslist(x):
    if x is None:
        return None
    return [x] if isinstance(x, str) else list(x)


def sort_columns_spec(header, columns, reverse):
    """docstring of Table.sorted: `columns` gives the order, `reverse` the reversed ones; only reverse given ->
    that order; reverse columns not among columns are appended"""
    columns, reverse = _aslist(columns), _aslist(reverse) or []
    if columns is None:
        columns = list(reverse) if reverse else list(header)
    columns = list(columns) + [c for c in reverse if c not in columns]
    return columns, reverse


def row_cmp(a, b, idx, rev):
    for j, r in zip(idx, rev):
        x, y = canon(a[j]), canon(b[j])
        if x == y:
            continue
        lt = x < y
        return (-1 if lt else 1) * (-1 if r else 1)
    return 0


def oracle(case):
    """expected result on the list of row tuples; for `sorted` returns the checker inputs"""
    op = case["op"]
    t = case["t"]
    R = rows_of(t)
    H = t["header"]
    if op in ("inner_join", "natural_join", "cross_join"):
        u = case["u"]
        S, HU = rows_of(u), u["header"]
        if op == "cross_join":
            return dict(header=H + ["right_" + c for c in HU], rows=[r + s for r in R for s in S])
        if op == "natural_join":
            shared = [c for c in H if c in HU]
            ks = ko = shared
        else:
            ks, ko = case["ks"], case["ko"]
        iS, iO = [H.index(c) for c in ks], [HU.index(c) for c in ko]
        keep = [j for j, c in enumerate(HU) if c not in ko]
        rows = [r + [s[j] for j in keep] for r in R for s in S if [canon(r[i]) for i in iS] == [canon(s[i]) for i in iO]]
        return dict(header=H + ["right_" + HU[j] for j in keep], rows=rows)
    if op == "filtered":
        idx = [H.index(c) for c in case["columns"]]
        p = mk_pred(case["pred"])
        return dict(header=H, rows=[r for r in R if p([r[i] for i in idx])])
    if op == "count_unique":
        idx = [H.index(c) for c in case["columns"]]
        return dict(counts=Counter(tuple(canon(r[i]) for i in idx) for r in R))
    if op == "distinct_values":
        idx = [H.index(c) for c in case["columns"]]
        return dict(values={tuple(canon(r[i]) for i in idx) for r in R})
    if op == "get_columns":
        idx = [H.index(c) for c in case["columns"]]
        return dict(header=list(case["columns"]), rows=[[r[i] for i in idx] for r in R])
    if op == "with_new_column":
        idx = [H.index(c) for c in case["columns"]]
        f = mk_fn(case["fn"])
        keep = [j for j, c in enumerate(H) if c != case["new"]]
        return dict(header=[H[j] for j in keep] + [case["new"]], rows=[[r[j] for j in keep] + [f([r[i] for i in idx])] for r in R])
    if op == "appended":
        rows = []
        for tab in [t] + case["others"]:
            perm = [tab["header"].index(c) for c in H]
            for r in rows_of(tab):
                rr = [r[j] for j in perm]
                rows.append(([tab.get("title", "")] if case["new"] is not None else []) + rr)
        return dict(header=([case["new"]] if case["new"] is not None else []) + H, rows=rows)
    if op == "transposed":
        sel = case["select"] or H[0]
        si = H.index(sel)
        if len({canon(r[si]) for r in R}) != len(R):
            return dict(err="ValueError")
        others = [j for j in range(len(H)) if j != si]
        return dict(header=[case["new"]] + [str(r[si]).strip() for r in R], rows=[[H[j]] + [r[j] for r in R] for j in others])
    raise ValueError(op)


def classify_sort_violation(a, b, idx, rev, header):
    """which key column decides the mis-ordered adjacent pair, and whether a proper-prefix pair is involved"""
    for j, r in zip(idx, rev):
        x, y = _py(a[j]), _py(b[j])
        if canon(x) == canon(y):
            continue
        kind = "str" if isinstance(x, str) else "bool" if isinstance(x, bool) else "num"
        pre = ""
        if kind == "str":
            pre = ":prefix" if (x.startswith(y) or y.startswith(x)) else ":noprefix"
        return f"{'rev' if r else 'fwd'}-{kind}{pre}"
    return "tie"


def check_op(case, real=None):
    """REAL vs ORACLE. returns None or (what, expected, got, sig)"""
    op = case["op"]
    real = real if real is not None else run_real(case)
    if op == "sorted":
        t = case["t"]
        H = t["header"]
        cols, reverse = sort_columns_spec(H, case["columns"], case["reverse"])
        kinds = {h: col_kind(c) for h, c in zip(H, t["cols"])}
        if "err" in real:
            # the class of the failure: kinds of the reversed key columns that are neither numeric nor str
            rk = sorted({"rev-" + kinds[c] for c in cols if c in reverse and kinds[c] not in ("num", "str")}) or ["other"]
            return (f"sorted(columns={case['columns']}, reverse={case['reverse']}) raised {real['err']}: {real.get('msg')}",
                    "a sorted permutation of the rows", real, f"sorted:raises:{real['err']}:{'+'.join(rk)}")
        R = rows_of(t)
        if real["header"] != H:
            return ("sorted changed the header", H, real["header"], "sorted:header")
        if Counter(canon_rows(R)) != Counter(canon_rows(real["rows"])):
            return ("sorted result is not a permutation of the rows", show(R), show(real["rows"]), "sorted:not-permutation")
        idx = [H.index(c) for c in cols]
        rev = [c in reverse for c in cols]
        out = real["rows"]
        for a, b in zip(out, out[1:]):
            if row_cmp(a, b, idx, rev) > 0:
                cls = classify_sort_violation(a, b, idx, rev, H)
                return (
                    f"sorted result not in order (columns={cols}, reverse={reverse}): {show(a)} before {show(b)}",
                    "rows ordered by the key columns, reversed columns descending",
                    show(out),
                    f"sorted:order:{cls}",
                )
        return None
    exp = oracle(case)
    if "err" in exp:
        if real.get("err") == exp["err"]:
            return None
        return (f"{op}: expected {exp['err']}", exp, show(real), f"{op}:expected-{exp['err']}")
    if "err" in real:
        return (f"{op} raised {real['err']}: {real.get('msg')}", show(exp), real, f"{op}:raises:{real['err']}")
    if "counts" in exp:
        if exp["counts"] != real["counts"]:
            return (f"{op} differs from Counter over row tuples", show(sorted(exp["counts"].items(), key=repr)), show(sorted(real["counts"].items(), key=repr)), f"{op}:counts")
        return None
    if "values" in exp:
        if exp["values"] != real["values"] or real["size"] != len(exp["values"]):
            return (f"{op} differs from the set of row tuples", show(sorted(exp["values"], key=repr)), show(sorted(real["values"], key=repr)), f"{op}:values")
        return None
    # (a result without rows is not asked for its header: Table.__getitem__ drops zero-length columns)
    if real["rows"] and [str(h) for h in real["header"]] != exp["header"]:
        return (f"{op}: header differs", exp["header"], real["header"], f"{op}:header")
    if canon_rows(real["rows"]) != canon_rows(exp["rows"]):
        sig = f"{op}:rows"
        if op == "natural_join":
            H, HU = case["t"]["header"], case["u"]["header"]
            sh1, sh2 = [c for c in H if c in HU], [c for c in HU if c in H]
            sig += ":shared-order-differs" if sh1 != sh2 else ":same-order"
        if len(real["rows"]) != len(exp["rows"]):
            sig += ":count"
        return (f"{op}: rows differ from the list-of-row-tuples result", show(exp["rows"]), show(real["rows"]), sig)
    return None


# --------------------------------------------------------------------------
# file round trips
# --------------------------------------------------------------------------
def expected_text(v):
    v = _py(v)
    if v is None:
        return ""
    if isinstance(v, bool):
        return "True" if v else "False"
    if isinstance(v, float):
        return repr(v)
    return str(v)


def loaded_text(w):
    w = _py(w)
    if isinstance(w, str):
        return w
    if isinstance(w, float):
        return repr(w)
    return str(w)


def parse_num(e):
    try:
        return int(e)
    except (ValueError, TypeError):
        pass
    try:
        return float(e)
    except (ValueError, TypeError):
        pass
    try:
        return complex(e)  # cast_str_to_numeric tries int, float, complex
    except (ValueError, TypeError):
        return None


def gen_file_table(rng):
    nrows = rng.choice([0, 1, 1, 2, 3, 4, 6, 10])
    ncols = rng.choice([1, 1, 2, 3, 4])
    hpool = ["a", "b", "c d", "x,y", 'q"z', "t\tu", "#n", "1", "id", "name", "v", "'k'", "A;B", "col 2"]
    names = rng.sample(hpool, ncols)
    td = gen_table(rng, nrows=nrows, names=names, file_mode=True)
    td["title"] = rng.choice(["", "", "", "T", "a title, with comma", "tab\ttitle", 'say "hi"'])
    td["legend"] = rng.choice(["", "", "", "L", "legend text, more", 'the "legend"\there'])
    return td


def check_file(ctx, td, fmt, counter=[0]):
    """write td as fmt under ctx.scratch, load it back. returns None or (what, expected, got, sig)"""
    from cogent3 import load_table, make_table

    counter[0] += 1
    path = ctx.scratch / f"t{counter[0]}.{fmt}"
    H = td["header"]
    delimited = fmt.split(".")[0] in ("tsv", "csv")
    base = fmt.split(".")[0]
    try:
        t = make_table(header=list(H), data={h: list(c) for h, c in zip(H, td["cols"])}, title=td.get("title", ""), legend=td.get("legend", ""))
        t.write(str(path))
    except (SystemExit, KeyboardInterrupt):
        raise
    except Exception as e:  # noqa: BLE001
        return (f"write({fmt}) raised {type(e).__name__}: {e}", "file written", repr(e), f"write:{base}:raises:{type(e).__name__}")
    nrows = len(td["cols"][0]) if td["cols"] else 0
    try:
        kw = {}
        if delimited:
            kw = dict(with_title=bool(td.get("title")), with_legend=bool(td.get("legend")))
        r = load_table(str(path), **kw)
        got_header = [str(h) for h in r.header]
        got_cols = [[_py(v) for v in r.columns[h].tolist()] for h in r.header]
        got_title, got_legend = r.title, r.legend
        got_shape = tuple(r.shape)
    except (SystemExit, KeyboardInterrupt):
        raise
    except BaseException as e:  # noqa: BLE001
        return (
            f"load_table({fmt}) raised {type(e).__name__}: {str(e)[:120]} ({nrows} rows)",
            "table loaded",
            repr(e)[:200],
            f"load:{'delimited' if delimited else base}:raises:{type(e).__name__}:{'zero-rows' if nrows == 0 else 'rows'}",
        )
    finally:
        try:
            path.unlink()
        except OSError:
            pass
    kind = "delimited" if delimited else base
    if got_header != H:
        return (f"{fmt}: header differs after round trip", H, got_header, f"load:{kind}:header")
    if got_shape != (nrows, len(H)):
        return (f"{fmt}: shape differs after round trip", [nrows, len(H)], list(got_shape), f"load:{kind}:shape")
    if (got_title or "") != (td.get("title") or "") or (got_legend or "") != (td.get("legend") or ""):
        return (f"{fmt}: title/legend differ", [td.get("title"), td.get("legend")], [got_title, got_legend], f"load:{kind}:title-legend")
    for h, col, got in zip(H, td["cols"], got_cols):
        if not delimited:
            # typed formats: same values, text cells stay text, numbers stay numbers
            for v, w in zip(col, got):
                if canon(v) != canon(w) or isinstance(v, str) != isinstance(w, str) or (v is None) != (w is None):
                    return (f"{fmt}: cell differs after round trip (column {h!r})", show(col), show(got), f"load:{kind}:cell")
            continue
        E = [expected_text(v) for v in col]
        nums = [parse_num(e) for e in E]
        if E and all(n is not None for n in nums):
            # numeric column (every cell text is a number): restored as numbers
            all_int = all(isinstance(n, int) for n in nums)
            for e, n, w in zip(E, nums, got):
                okv = isinstance(w, (int, float, complex)) and not isinstance(w, bool) and (canon(w) == canon(n))
                if all_int and not isinstance(w, int):
                    okv = False  # a column of integer texts comes back as ints (text unchanged), not as 1.0
                if not okv and loaded_text(w) != e:
                    return (f"{fmt}: numeric column {h!r} not restored as numbers", E, show(got), f"load:{kind}:numeric-column")
            continue
        for e, w in zip(E, got):
            if loaded_text(w) != e:
                cls = "other"
                if not eval_dangerous(e):
                    try:
                        ev = eval(e, {}, {})  # noqa: S307 - what cast_str_to_array does (names differ)
                        cls = "eval" if loaded_text(ev) == loaded_text(w) else "eval-env"
                    except Exception:  # noqa: BLE001
                        cls = "eval-env" if re.fullmatch(r"[A-Za-z_]\w*(\.\w+)*", e or "") else "other"
                return (
                    f"{fmt}: cell text {e!r} came back as {loaded_text(w)!r} (column {h!r}: {E})",
                    E,
                    show(got),
                    f"load:{kind}:text-changed:{cls}",
                )
    return None


# --------------------------------------------------------------------------
# csv layer: MODEL vs CPython csv
# --------------------------------------------------------------------------
def py_csv_write(rows, delim, lt):
    s = io.StringIO(newline="")
    w = csv.writer(s, delimiter=delim, lineterminator=lt)
    for r in rows:
        w.writerow(r)
    return s.getvalue()


def py_csv_read(text, delim):
    try:
        return [list(r) for r in csv.reader(io.StringIO(text, newline=""), dialect="excel", delimiter=delim)]
    except csv.Error as e:
        return {"err": "new-line character seen in unquoted field" if "new-line" in str(e) else str(e)}


def corr_csv(ctx, out):
    rng = ctx.subrng("csv")
    drv = ctx.driver
    # writer: exhaustive fields over a 6-letter alphabet, length <= 3, rows of <= 2 fields; then random
    alpha = ["a", '"', "\t", ",", "\n", "\r", " "]
    fields = [""] + ["".join(p) for n in (1, 2, 3) for p in itertools.product(alpha[:6], repeat=n)]
    wcases = []
    for delim, lt in (("\t", "\n"), (",", "\n"), (",", "\r\n")):
        rows1 = [[f] for f in fields]
        wcases.append((delim, lt, rows1 + [[]]))
        for _ in range(ctx.budget(30, 400)):
            rows = [[rng.choice(fields) for _ in range(rng.choice([0, 1, 1, 2, 3, 5]))] for _ in range(rng.choice([0, 1, 2, 4]))]
            wcases.append((delim, lt, rows))
        for _ in range(ctx.budget(60, 1500)):
            rows = [["".join(rng.choice(SAFE_CHARS + '"\n\r,\t') for _ in range(rng.choice([0, 0, 1, 2, 4, 9]))) for _ in range(rng.choice([1, 1, 2, 3, 6]))] for _ in range(rng.choice([1, 2, 5]))]
            wcases.append((delim, lt, rows))
    reps = drv.batch([("csv_write", dict(delim=d, lt=lt, rows=rows)) for d, lt, rows in wcases])
    texts = []
    for (d, lt, rows), rep in zip(wcases, reps):
        out["evaluations"] += 1
        want = py_csv_write(rows, d, lt)
        bump(out, "csv_writer", f"delim={d!r} lt={lt!r}")
        if rep != want:
            add_failure(out, "corr", "csv writer model differs from csv.writer", dict(delim=d, lt=lt, rows=rows), want, rep, confirmed=False)
        else:
            if any(any(c in f for c in (d, '"', "\n")) for r in rows for f in r):
                out["nontrivial"].add(("w", d, lt, want[:60]))
            texts.append((d, want, rows, lt))
    # reader on writer output (round trip through both implementations) ...
    rcases = [(d, t) for d, t, _, _ in texts]
    # ... exhaustively on every text of length <= 5 over {a " \t \n \r}, and on random malformed texts
    small = ["a", '"', "\t", "\n", "\r"]
    for n in range(0, ctx.budget(6, 7)):
        for p in itertools.product(small, repeat=n):
            rcases.append(("\t", "".join(p)))
    for _ in range(ctx.budget(1500, 30000)):
        d = rng.choice(["\t", ","])
        n = rng.choice([3, 6, 9, 14, 25])
        rcases.append((d, "".join(rng.choice(["a", "b", '"', '"', d, d, "\n", "\r", " ", "\r\n", 'x"', '""']) for _ in range(n))))
    reps = drv.batch([("csv_read", dict(delim=d, text=t)) for d, t in rcases])
    for (d, t), rep in zip(rcases, reps):
        out["evaluations"] += 1
        want = py_csv_read(t, d)
        if isinstance(rep, dict) and "err" in rep and isinstance(want, dict):
            bump(out, "csv_reader", "error")
            out["nontrivial"].add(("rerr", d, t[:40]))
            continue
        if rep != want:
            add_failure(out, "corr", "csv reader model differs from csv.reader", dict(delim=d, text=t), want, rep, confirmed=False)
        else:
            bump(out, "csv_reader", "ok")
            if '"' in t:
                out["nontrivial"].add(("r", d, t[:40]))
    # round trip of the real pair on the no-CR/LF domain of the theorem (sanity of the theorem's reading)
    for d, text, rows, lt in texts:
        if lt == "\n" and not any(("\n" in f or "\r" in f) for r in rows for f in r):
            back = py_csv_read(text, d)
            if back != rows:
                add_failure(out, "corr", "CPython csv does not round-trip on the theorem's domain", dict(delim=d, rows=rows), rows, back, confirmed=False)
    if len(out["samples"]) < 8:
        d, text, rows, lt = texts[len(texts) // 2]
        out["samples"].append(dict(kind="csv", delim=d, rows=rows, text=text))


def corr_table_text(ctx, out):
    """Table.write (delimited) text and load_delimited vs the model's tableWrite / loadDelimited"""
    from cogent3 import make_table
    from cogent3.parse.table import load_delimited

    rng = ctx.subrng("tabletext")
    reqs, meta = [], []
    for i in range(ctx.budget(60, 600)):
        td = gen_file_table(rng)
        # the model layer is text only: make every column a str column that does not look numeric
        td["cols"] = [[gen_cell_text(rng) for _ in c] for c in td["cols"]]
        fmt = rng.choice(["tsv", "csv"])
        delim = "\t" if fmt == "tsv" else ","
        path = ctx.scratch / f"w{i}.{fmt}"
        t = make_table(header=list(td["header"]), data={h: list(c) for h, c in zip(td["header"], td["cols"])}, title=td["title"], legend=td["legend"])
        t.write(str(path))
        with open(path, newline="") as f:
            text = f.read()
        hdr, rows, title, legend = load_delimited(str(path), sep=delim, with_title=bool(td["title"]), with_legend=bool(td["legend"]))
        path.unlink()
        reqs.append(("table_write", dict(delim=delim, header=td["header"], rows=rows_of(td), title=td["title"], legend=td["legend"])))
        meta.append(("w", td, text))
        reqs.append(("load_delimited", dict(delim=delim, text=text, with_title=bool(td["title"]), with_legend=bool(td["legend"]))))
        meta.append(("r", td, dict(header=hdr, rows=rows, title=title, legend=legend)))
    for (kind, td, want), rep in zip(meta, ctx.driver.batch(reqs)):
        out["evaluations"] += 1
        bump(out, "table_text", kind)
        if rep != want:
            add_failure(out, "corr", f"table text layer ({'Table.write' if kind == 'w' else 'load_delimited'}) differs from model", show(td), want, rep, confirmed=False)
        elif td["cols"] and td["cols"][0]:
            out["nontrivial"].add(("tt", kind, str(want)[:80]))


# --------------------------------------------------------------------------
# correspondence: MODEL vs REAL for table ops
# --------------------------------------------------------------------------
def model_req(case):
    op = case["op"]
    d = dict(op=op, t=table_j(case["t"]))
    if "u" in case:
        d["u"] = table_j(case["u"])
    for k in ("ks", "ko", "new", "select"):
        if k in case:
            d[k] = case[k]
    if "columns" in case:
        d["columns"] = _aslist(case["columns"])
    if op == "sorted":
        d["reverse"] = _aslist(case["reverse"]) or []
    if "pred" in case:
        d["pred"] = pred_j(case["pred"])
    if "fn" in case:
        d["fn"] = fn_j(case["fn"])
    if "others" in case:
        d["others"] = [table_j(o) for o in case["others"]]
    return ("op", d)


def modelable(case):
    """cases the Lean model covers"""
    def ok_table(td):
        for c in td["cols"]:
            for v in c:
                if isinstance(v, float) and (v != v or math.isinf(v)):
                    return False
        return True

    tabs = [case["t"]] + ([case["u"]] if "u" in case else []) + case.get("others", [])
    if not all(ok_table(t) for t in tabs):
        return False
    if case["op"] == "transposed":
        t = case["t"]
        si = t["header"].index(case["select"] or t["header"][0])
        return not any(isinstance(v, float) for v in t["cols"][si])
    return True


def compare_model_real(case, rep, real):
    """None or (what, expected(model), got(real))"""
    op = case["op"]
    if isinstance(rep, dict) and "error" in rep:
        return ("driver protocol error", rep, real)
    if "err" in rep or "err" in real:
        me, re_ = rep.get("err"), real.get("err")
        if me == re_:
            return None
        if op == "sorted" and me and re_:
            # keys outside the property's domain (object columns: None / mixed types): python offers no order for
            # them; which of AttributeError / TypeError surfaces first is not compared
            H = case["t"]["header"]
            cols, _ = sort_columns_spec(H, case["columns"], case["reverse"])
            if any(c in H and col_kind(case["t"]["cols"][H.index(c)]) == "obj" for c in cols):
                return None
        return (f"{op}: model error {me} vs real {re_}", rep, real)
    if op == "count_unique":
        m = Counter({tuple(uncell(x) for x in k): n for k, n in rep})
        return None if m == real["counts"] else (f"{op}: counts differ", show(sorted(m.items(), key=repr)), show(sorted(real["counts"].items(), key=repr)))
    if op == "distinct_values":
        m = {tuple(uncell(x) for x in k) for k in rep}
        return None if m == real["values"] and len(rep) == real["size"] else (f"{op}: values differ", show(sorted(m, key=repr)), show(sorted(real["values"], key=repr)))
    mrows = [tuple(uncell(x) for x in r) for r in rep["rows"]]
    rrows = canon_rows(real["rows"])
    if [str(h) for h in real["header"]] != rep["header"]:
        return (f"{op}: header differs", rep["header"], real["header"])
    if op == "sorted":
        # numpy's argsort is not stable: compare the multiset of rows and the sequence of key tuples
        H = case["t"]["header"]
        cols, _ = sort_columns_spec(H, case["columns"], case["reverse"])
        idx = [H.index(c) for c in cols]
        if Counter(mrows) != Counter(rrows) or [tuple(r[i] for i in idx) for r in mrows] != [tuple(r[i] for i in idx) for r in rrows]:
            return ("sorted: key sequence / row multiset differs", show(mrows), show(rrows))
        return None
    if rep.get("ncols") == 0 or real["shape"][1] == 0:
        return None if not mrows and not rrows else (f"{op}: rows differ", show(mrows), show(rrows))
    if mrows != rrows:
        return (f"{op}: rows differ", show(mrows), show(rrows))
    return None


def model_as_real(case, rep):
    """the model's reply in the shape of run_real()'s result (to put the *model* under the row oracle)"""
    def val(j):
        return unrat(j["f"]) if isinstance(j, dict) else j

    if isinstance(rep, dict) and "err" in rep:
        return dict(err=rep["err"], msg="(model)")
    if case["op"] == "count_unique":
        return dict(counts=Counter({tuple(canon(val(x)) for x in k): n for k, n in rep}))
    if case["op"] == "distinct_values":
        return dict(values={tuple(canon(val(x)) for x in k) for k in rep}, size=len(rep))
    return dict(header=rep["header"], rows=[[val(x) for x in r] for r in rep["rows"]], shape=[len(rep["rows"]), rep.get("ncols", 0)])


def malformed_case(rng):
    """inputs off the happy path: unknown column names, key dimension mismatch, partial reverse overlap,
    reversed bool / mixed columns"""
    k = rng.choice(["badcol", "dims", "partial", "revbool", "revobj", "mixedkey"])
    if k == "badcol":
        c = gen_case(rng, rng.choice(["filtered", "get_columns", "count_unique", "distinct_values"]))
        c["columns"] = c["columns"][:-1] + ["nope"]
        if c["op"] == "filtered":
            c["pred"] = ["true"]
        return c
    if k == "dims":
        c = gen_case(rng, "inner_join")
        if len(c["ks"]) >= 1 and len(c["t"]["header"]) >= 2:
            extra = [h for h in c["t"]["header"] if h not in c["ks"]]
            if extra:
                c["ks"] = c["ks"] + [extra[0]]
        return c
    t = gen_table(rng, nrows=rng.choice([1, 2, 3, 5]), names=["i", "s", "b", "m"], kinds=["int", "str", "bool", "mixed"])
    if k == "partial":
        return dict(op="sorted", t=t, columns=["i", "s"], reverse=["s", "b"])
    if k == "revbool":
        return dict(op="sorted", t=t, columns=rng.choice([["b"], ["i", "b"], None]), reverse=["b"])
    if k == "revobj":
        return dict(op="sorted", t=t, columns=None, reverse=["m"])
    t = gen_table(rng, nrows=rng.choice([2, 3, 5]), names=["i", "s", "b", "m"], kinds=["int", "str", "bool", "mixed"])
    t["cols"][3][rng.randrange(len(t["cols"][3]))] = None  # a None among the first key column: every sort compares it
    return dict(op="sorted", t=t, columns=["m", "i"], reverse=None)


def correspondence(ctx):
    out = new_outcome(
        "table ops: seeded generated tables (int/float/str/bool/object columns, duplicate keys, 0..60 rows, None cells) "
        "x every op with generated arguments + a malformed stream (unknown columns, key-dimension mismatch, reverse of "
        "bool/object columns); csv: exhaustive fields/texts over a small alphabet incl. delimiter, quote, CR, LF + random; "
        "non-trivial = distinct cases whose result has >= 1 row or raises (ops), texts with quotes/delimiters (csv)"
    )
    corr_csv(ctx, out)
    corr_table_text(ctx, out)
    rng = ctx.subrng("corr-ops")
    cases = [gen_case(rng) for _ in range(ctx.budget(5000, 100000))]
    cases += [malformed_case(rng) for _ in range(ctx.budget(500, 6000))]
    cases = [c for c in cases if modelable(c)]
    reps = ctx.driver.batch([model_req(c) for c in cases])
    for case, rep in zip(cases, reps):
        out["evaluations"] += 1
        real = run_real(case)
        bump(out, "op", case["op"])
        bump(out, "rows_in", min(len(case["t"]["cols"][0]) if case["t"]["cols"] else 0, 20) // 5 * 5)
        if "err" in real:
            bump(out, "real_error", real["err"])
        d = compare_model_real(case, rep, real)
        if d:
            # The model mirrors the code as it is, including the behaviours listed as known findings.  Where the
            # implementation and the model differ, the implementation satisfies the row oracle and the model does
            # not, the code has been repaired there and the (stale) model is the one that is wrong: not a mismatch
            # of interest.  Every other difference is reported.
            try:
                conforms = check_op(case, real) is None and check_op(case, model_as_real(case, rep)) is not None
            except Exception:  # noqa: BLE001
                conforms = False
            if conforms:
                bump(out, "model_stale_where_code_conforms_to_spec", case["op"])
                continue
            add_failure(out, "corr", d[0], case, d[1], d[2], confirmed=False)
            continue
        if "err" in real or real.get("rows") or real.get("counts") or real.get("values"):
            out["nontrivial"].add((case["op"], repr(case)[:300]))
        if len(out["samples"]) < 8 and real.get("rows") and len(real["rows"]) > 2 and case["op"] in ("inner_join", "sorted"):
            out["samples"].append(dict(case=show(case), real=show(real)))
    return out


# --------------------------------------------------------------------------
# spec check: REAL vs ORACLE (also the failing-input search)
# --------------------------------------------------------------------------
def exhaustive_sort_cases():
    """small exhaustive domain: all 3-row str columns over {a, ab, b, ''} with reverse on/off, plus bool/int keys"""
    cases = []
    for vals in itertools.product(["a", "ab", "b", ""], repeat=3):
        for rv in (False, True):
            t = dict(header=["s", "n"], cols=[list(vals), [1, 2, 3]], title="")
            cases.append(dict(op="sorted", t=t, columns=None if rv else "s", reverse="s" if rv else None))
    for vals in itertools.product([True, False], repeat=3):
        for rv in (False, True):
            t = dict(header=["b", "n"], cols=[list(vals), [3, 1, 2]], title="")
            cases.append(dict(op="sorted", t=t, columns=["b", "n"], reverse=["b"] if rv else None))
    for vals in itertools.product([1, 2, 2.5], repeat=3):
        for rv in (False, True):
            t = dict(header=["x", "s"], cols=[list(vals), ["p", "q", "p"]], title="")
            cases.append(dict(op="sorted", t=t, columns=["s", "x"], reverse=["x"] if rv else []))
    return cases


def spec_check(ctx, budget):
    out = new_outcome(
        "REAL Table vs plain list-of-row-tuples oracle for sorted/inner_join/joined/cross_join/filtered/count_unique/"
        "distinct_values/appended/transposed/get_columns/with_new_column with generated arguments (small exhaustive sort "
        "box + seeded random), and write()/load_table() over tsv/csv/tsv.gz/csv.gz/json/pickle comparing header, title, "
        "legend, cell text and numeric columns; non-trivial = distinct (op, tables, args) with a non-empty result, "
        "distinct (format, table) with >= 1 row"
    )
    rng = ctx.subrng(f"spec{budget}")
    per_sig = Counter()

    def fail(what, inp, exp, got, sig):
        per_sig[sig] += 1
        bump(out, "spec_failure_sig", sig)
        if per_sig[sig] <= 3:  # keep a few of each class so that one class cannot crowd out another
            add_failure(out, "spec", what, inp, exp, got, confirmed=True, sig=sig)

    cases = exhaustive_sort_cases()
    cases += [gen_case(rng) for _ in range(3000 * budget)]
    for c in cases:
        if c["op"] == "cross_join" and rng.random() < 0.5:
            c["via_joined"] = True
    for case in cases:
        out["evaluations"] += 1
        real = run_real(case)
        bump(out, "spec_op", case["op"])
        f = check_op(case, real)
        if f:
            fail(f[0], dict(kind="op", case=case), f[1], f[2], f[3])
            continue
        if real.get("rows") or real.get("counts") or real.get("values"):
            out["nontrivial"].add((case["op"], repr(case)[:300]))
        if len(out["samples"]) < 6 and real.get("rows") and len(real["rows"]) > 2 and case["op"] not in ("sorted",):
            out["samples"].append(dict(case=show(case), result=show(real["rows"][:6])))
    # file round trips
    frng = ctx.subrng(f"file{budget}")
    tables = [gen_file_table(frng) for _ in range(150 * budget)]
    # a few fixed shapes: zero rows, one empty cell, cells that are only delimiter / quote
    tables += [
        dict(header=["a", "b"], cols=[[], []], title="", legend=""),
        dict(header=["a"], cols=[[""]], title="", legend=""),
        dict(header=["a", "b"], cols=[["\t", ","], ['"', '""']], title="", legend=""),
        dict(header=["a", "b"], cols=[["x", ""], [1.5, None]], title="ti", legend="le"),
    ]
    for td in tables:
        for fmt in FORMATS:
            out["evaluations"] += 1
            bump(out, "file_format", fmt)
            f = check_file(ctx, td, fmt)
            if f:
                fail(f[0], dict(kind="file", table=td, format=fmt), f[1], f[2], f[3])
            elif td["cols"] and td["cols"][0]:
                out["nontrivial"].add(("file", fmt, repr(td)[:300]))
        bump(out, "file_rows", len(td["cols"][0]) if td["cols"] else 0)
    if tables and len(out["samples"]) < 8:
        out["samples"].append(dict(kind="file", table=show(tables[0]), formats=FORMATS))
    return out


# --------------------------------------------------------------------------
# findings
# --------------------------------------------------------------------------
def _check_input(ctx, inp):
    if inp.get("kind") == "file":
        f = check_file(ctx, inp["table"], inp["format"])
    else:
        f = check_op(inp["case"])
    return f


def match_finding(f, k):
    if f.get("sig") not in k.get("sigs", []):
        return False
    r = k.get("restrict") or {}
    inp = f.get("input") or {}
    if r.get("kind") and inp.get("kind") != r["kind"]:
        return False
    if r.get("op") and (inp.get("case") or {}).get("op") != r["op"]:
        return False
    if r.get("zero_rows"):
        td = inp.get("table") or {}
        if not td.get("cols") or len(td["cols"][0]) != 0:
            return False
    if r.get("formats") and inp.get("format") not in r["formats"]:
        return False
    if r.get("empty_side"):
        case = inp.get("case") or {}
        sizes = [len(td["cols"][0]) if td.get("cols") else 0 for td in (case.get("t") or {}, case.get("u") or {})]
        if 0 not in sizes:
            return False
    if r.get("eval_raises_if_raises") and ":raises:" in f.get("sig", ""):
        # the exception must be the one eval() of some text cell raises
        want = f["sig"].split(":")[3]
        hit = False
        for col in (inp.get("table") or {}).get("cols", []):
            for v in col:
                if isinstance(v, str) and not eval_dangerous(v):
                    try:
                        eval(v, {}, {})  # noqa: S307
                    except Exception as e:  # noqa: BLE001
                        hit = hit or type(e).__name__ == want
        if not hit:
            return False
    return True


def check_witness(ctx, w):
    f = _check_input(ctx, w)
    if not f:
        return None
    out = new_outcome()
    add_failure(out, "spec", f[0], w, f[1], f[2], confirmed=True, sig=f[3])
    return out["failures"][0]


def replay(ctx, data):
    f = data.get("failing_input") or {}
    inp = f.get("input")
    if not inp:
        return False
    r = _check_input(ctx, inp)
    if r:
        print(r[0])
        print(" expected:", str(r[1])[:400])
        print(" got:     ", str(r[2])[:400])
    return bool(r)
