"""C20 — Tables follow the list-of-rows model and survive delimited round-trips.

Three parties are compared on the same generated inputs:

  REAL   cogent3.util.table.Table (make_table / load_table / Table.write) from /repo
  MODEL  lean/CogentModel/Model/TableOps.lean + Model/Csv.lean through the native driver drv_c20
  ORACLE plain python on a list of row tuples (list comprehensions, Counter, set, zip, sorted-ness
         check) and, for the csv layer, CPython's own `csv` module

correspondence(): MODEL vs REAL (table ops) and MODEL vs CPython csv (writer + reader state machine,
                  exhaustive small box + seeded random + malformed texts) and vs Table.write/load_delimited.
spec_check():     REAL vs ORACLE for every op with generated arguments, and write/load_table round trips
                  over tsv/csv/tsv.gz/csv.gz/json/pickle.
"""
from __future__ import annotations

import csv
import io
import itertools
import math
import re
from collections import Counter
from fractions import Fraction

from .common import add_failure, bump, new_outcome, rat, unrat

PROP = "C20"
PROPS_FILES = ["CogentModel/Props/C20.lean"]
LEAN_TARGETS = ["CogentModel.Props.C20"]
DRIVER = "drv_c20"
TRUSTED = [
    "hand-written models lean/CogentModel/Model/TableOps.lean (column store, hash join, mask/fancy indexing, "
    "reversal transforms, merge-sort as *a* sorting permutation) and Model/Csv.lean (CPython _csv.c writer "
    "QUOTE_MINIMAL + reader state machine, excel dialect), tied by the correspondence runs of this harness",
    "Spec/TableRows.lean (list-of-row-tuples operations) and the python row oracle in harness/c20.py",
    "Model/CastStr.lean (int/float/text decision of cast_str_to_numeric; float64 parsing and repr are hypotheses of the theorem)",
    "translator/c20_args2lean.py (ast translation of the argument-resolution statements of Table.sorted / inner_join / "
    "joined into Gen/C20Args.lean, every run) and its value domain Model/TableArgs.lean (None | str | list | tuple of "
    "column NAMES; total primitives, TypeError guards only at strict positions; int positions / slices / masks outside)",
    "translator/c20_load2lean.py (ast translation of the row logic of parse/table.py::load_delimited into Gen/C20Load.lean, "
    "every run) and its primitives Model/TableLoad.lean (the csv reader = the list of records still to be yielded; "
    "next / pop(0) / pop(-1) return the value and the rest; the loop with break = a fold with a break flag)",
    "numpy fancy/boolean indexing, numpy.rec argsort (any sorting permutation), CPython csv/json/pickle/gzip "
    "are modelled or used as oracles, not verified",
]
ASSUMPTIONS = [
    "float cells are float64 values without NaN/inf for relational ops (exact rationals in the model); ints fit int64",
    "sort keys are homogeneous int/float/str/bool columns without missing values (mixed/None keys raise TypeError "
    "in python as well and are only checked for 'raises or sorted')",
    "file round trips use cells over printable ASCII plus TAB (no CR/LF inside cells); header names are stripped, "
    "unique and non-empty (Columns.__setitem__ strips names)",
    "a delimited column whose every cell text parses with int()/float() counts as a numeric column and must come "
    "back as those numbers; every other column must come back with identical cell text",
    "the eval()-based mixed-type inference of cast_str_to_array is exercised, not modelled; strings that would "
    "call functions / build huge values under eval are not generated (the harness must survive)",
    "tables are generated with and without index_name (unique labels; shown first) for every op; callbacks are python "
    "callables and string expressions; columns= is spelled as str / list / tuple in any order; join keys as None / str / "
    "list / tuple / positions on either or both sides; empty key arguments ([] / () / '') and a bare position 0 are not "
    "generated (see join_keys_empty_side_counter, sort_args_empty_tuple_counter)",
    "summed / normalized / to_categorical / head+tail (through the repr policy) / row selection by index label are "
    "exercised against the row oracle only (no Lean model, no theorem); row masks are only used on tables without "
    "index_name (DictArrayTemplate does not accept them) and int index labels are not used for row slicing (ambiguous)",
    "to_csv / to_tsv / to_string(format=csv|tsv) text is parsed with csv.reader and the Lean reader model; float columns "
    "are left out there (formatted to `digits`); markdown/latex/html/rst output and column_templates are outside the property",
]

FORMATS = ["tsv", "csv", "tsv.gz", "csv.gz", "json", "pickle"]


# --------------------------------------------------------------------------
# translator step: the argument resolution of Table.sorted / inner_join / joined, from the CURRENT source text
# --------------------------------------------------------------------------
def generate(ctx):
    import sys

    from .common import LEAN, SRC, VERIF

    sys.path.insert(0, str(VERIF))
    from translator import c20_args2lean

    lean, info, problems = c20_args2lean.translate(SRC / "util" / "table.py")
    ctx.notes.append(f"c20_args2lean: {info}")
    if lean is not None and c20_args2lean.write_if_changed(LEAN / "CogentModel" / "Gen" / "C20Args.lean", lean):
        ctx.notes.append("Gen/C20Args.lean was rewritten (the translated statements of util/table.py differ from the last generated text)")
    problems = [f"c20_args2lean: {p}" for p in problems]
    from translator import c20_load2lean

    lean, info, probs2 = c20_load2lean.translate(SRC / "parse" / "table.py")
    ctx.notes.append(f"c20_load2lean: {info}")
    if lean is not None and c20_load2lean.write_if_changed(LEAN / "CogentModel" / "Gen" / "C20Load.lean", lean):
        ctx.notes.append("Gen/C20Load.lean was rewritten (the statements of parse/table.py::load_delimited differ from the last generated text)")
    return problems + [f"c20_load2lean: {p}" for p in probs2]


# --------------------------------------------------------------------------
# canonical forms
# --------------------------------------------------------------------------
def _py(v):
    try:
        import numpy

        if isinstance(v, numpy.generic):
            return v.item()
    except Exception:
        pass
    return v


def canon(v):
    """python `==` classes of scalar cells: True == 1 == 1.0; None; str"""
    v = _py(v)
    if v is None:
        return None
    if isinstance(v, bool):
        return Fraction(int(v))
    if isinstance(v, int):
        return Fraction(v)
    if isinstance(v, float):
        if v != v:
            return ("nan",)
        if math.isinf(v):
            return ("inf", v > 0)
        return Fraction(v)
    if isinstance(v, Fraction):
        return v
    if isinstance(v, complex):
        return canon(v.real) if v.imag == 0 else ("c", canon(v.real), canon(v.imag))
    if isinstance(v, str):
        return ("s", str(v))
    if isinstance(v, (list, tuple)):
        return tuple(canon(x) for x in v)
    return ("?", repr(v))


def canon_rows(rows):
    return [tuple(canon(x) for x in r) for r in rows]


def show(v):
    """json-able, loss-free rendering for failure records"""
    v = _py(v)
    if isinstance(v, (list, tuple)):
        return [show(x) for x in v]
    if isinstance(v, Fraction):
        return rat(v)
    if isinstance(v, dict):
        return {str(k): show(x) for k, x in v.items()}
    if v is None or isinstance(v, (bool, int, float, str)):
        return v
    return repr(v)


def cell_j(v):
    v = _py(v)
    if v is None or isinstance(v, (bool, str)):
        return v
    if isinstance(v, int):
        return v
    if isinstance(v, float):
        return {"f": rat(v)}
    raise ValueError(f"cell {v!r}")


def uncell(j):
    if j is None:
        return None
    if isinstance(j, bool):
        return Fraction(int(j))
    if isinstance(j, int):
        return Fraction(j)
    if isinstance(j, dict):
        return unrat(j["f"])
    return ("s", j)


def table_j(td):
    return dict(header=td["header"], cols=[[cell_j(v) for v in c] for c in td["cols"]], title=td.get("title", ""), index=td.get("index"))


def norm(td):
    """the table as `Table.header` shows it: a column named as index_name is displayed first"""
    k = td.get("index")
    if k is None or k not in td["header"] or td["header"][0] == k:
        return td
    i = td["header"].index(k)
    order = [i] + [j for j in range(len(td["header"])) if j != i]
    return dict(td, header=[td["header"][j] for j in order], cols=[td["cols"][j] for j in order])


def rows_of(td):
    n = len(td["cols"][0]) if td["cols"] else 0
    return [[c[i] for c in td["cols"]] for i in range(n)]


# --------------------------------------------------------------------------
# generators
# --------------------------------------------------------------------------
INT_POOL = [-3, -1, 0, 1, 1, 2, 2, 3, 5, 7, 10, 2**40, -(2**40)]
FLOAT_POOL = [0.5, -1.25, 2.0, 2.0, 3.75, 0.125, -0.5, 1024.0, 1.0, 0.0]  # dyadic: sums stay exact
STR_POOL = ["a", "ab", "b", "abc", "", "B", "a b", "ba", "a", "b", "x,y", 'q"r', "it's", "abd", "aa", "z", "Ab", "~", " "]
NAMES = ["k", "n", "s", "x", "y", "val", "c d", "id", "f", "b", "w", "p,q", 'h"i', "t\tu", "#z", "K"]
FILE_TOKENS = [
    "", "a", "ab", "b", "a\tb", "x,y", ",", "\t", '"', '""', 'q"r', '"a"', "'a'", "it's", " lead", "trail ", " ",
    "a b", "1", "01", "1.50", "1e5", ".5", "5.", "-3", "+2", "1_0", "0x10", "1 ", " 1", "nan", "inf", "None", "True",
    "False", "true", "id", "max", "set", "re", "v", "1,2", "[1]", "{}", "()", "(1)", "1;2", "a,b\tc", '"x",y', "#c",
    "a=b", "\\", "\\t", "'", "''", '"""', "~", "1/2", "1/0", "1-1", "2+2", "a.b", "e", "E1", "1e", "--", "0.1",
]
SAFE_CHARS = (
    "abcxyzABZ 0123456789" + ',\t"' + "'.;:-+_#=/|\\!?@$%&[]{}~^`" + ',\t"' + "  "
)  # no ( ) * < > : strings are eval()'d by the loader


def eval_dangerous(s: str) -> bool:
    """strings the loader's eval() could turn into a call / a huge computation: never generated"""
    return bool("*" in s or "<<" in s or "(" in s and re.search(r"[A-Za-z_\]\)\}'\"]\s*\(", s)) or len(s) > 40


def gen_cell_text(rng):
    r = rng.random()
    if r < 0.55:
        return rng.choice(FILE_TOKENS)
    n = rng.choice([1, 1, 2, 2, 3, 4, 6, 9])
    while True:
        s = "".join(rng.choice(SAFE_CHARS) for _ in range(n))
        if not eval_dangerous(s):
            return s


def gen_column(rng, kind, n, file_mode=False):
    if kind == "int":
        pool = INT_POOL if not file_mode else INT_POOL + [2**62, -(2**62), 123456789012]
        return [rng.choice(pool) for _ in range(n)]
    if kind == "float":
        pool = FLOAT_POOL if not file_mode else FLOAT_POOL + [0.1, 1e-7, 1e22, 5e-324, 1.7976931348623157e308, -0.0, 1 / 3, 2.5e-5]
        return [rng.choice(pool) for _ in range(n)]
    if kind == "bool":
        return [rng.random() < 0.5 for _ in range(n)]
    if kind == "str":
        if file_mode:
            return [gen_cell_text(rng) for _ in range(n)]
        pool = rng.choice([STR_POOL, STR_POOL[:4], ["a", "ab", "abc", "b"], STR_POOL])
        return [rng.choice(pool) for _ in range(n)]
    if kind == "strnum":  # strings that all look like numbers (file mode)
        return [rng.choice(["1", "2", "01", "1.50", "-3", "1e5", ".5", "7", "10"]) for _ in range(n)]
    # mixed / missing values (object dtype)
    base = rng.choice(["int", "float", "str", "bool", "any"])
    out = []
    for _ in range(n):
        if rng.random() < 0.3:
            out.append(None)
        elif base == "any":
            out.append(gen_column(rng, rng.choice(["int", "float", "str", "bool"]), 1, file_mode)[0])
        else:
            out.append(gen_column(rng, base, 1, file_mode)[0])
    return out


def col_kind(values):
    ts = {type(v) for v in values}
    if not ts:
        return "empty"
    if ts <= {int, float}:
        return "num"
    if ts == {str}:
        return "str"
    if ts == {bool}:
        return "bool"
    return "obj"


def gen_table(rng, nrows=None, ncols=None, names=None, file_mode=False, kinds=None, index=None):
    if nrows is None:
        nrows = rng.choice([0, 1, 1, 2, 3, 3, 4, 5, 6, 8, 12, 20, 40])
    if names is None:
        ncols = ncols or rng.choice([1, 2, 2, 3, 3, 4, 5])
        names = rng.sample(NAMES, ncols)
    cols = []
    for i, _ in enumerate(names):
        k = kinds[i] if kinds else rng.choice(
            ["int", "int", "float", "str", "str", "str", "bool", "mixed"] + (["strnum"] if file_mode else [])
        )
        cols.append(gen_column(rng, k, nrows, file_mode))
    title = rng.choice(["", "", "T1", "my title", "t,1"])
    td = dict(header=list(names), cols=cols, title=title)
    if index is None:
        index = rng.random() < 0.3
    if index and names:
        add_index(rng, td)
    return td


def add_index(rng, td, pos=None, str_labels=False):
    """turn one column into an index column (unique values) and name it as index_name"""
    n = len(td["cols"][0]) if td["cols"] else 0
    i = rng.randrange(len(td["header"])) if pos is None else pos
    if str_labels or rng.random() < 0.7:
        labels = rng.sample(["r%d" % j for j in range(n + 3)] + ["g,1", "x y", "A"], n)
    else:
        labels = rng.sample(range(-2, n + 5), n)
    td["cols"][i] = labels
    td["index"] = td["header"][i]
    return td


# predicate / function mini languages (mirrored in lean/Driver/C20.lean)
def mk_pred(spec):
    k = spec[0]
    if k == "true":
        return lambda r: True
    if k == "numgt":
        i, q = spec[1], unrat(spec[2])

        def f(r):
            x = _py(r[i])
            return isinstance(x, (int, float)) and not isinstance(x, bool) and Fraction(x) > q

        return f
    if k == "eq":
        i, c = spec[1], canon(spec[2])
        return lambda r: canon(r[i]) == c
    if k == "ismissing":
        return lambda r: _py(r[spec[1]]) is None
    if k == "strlen_gt":
        return lambda r: isinstance(_py(r[spec[1]]), str) and len(r[spec[1]]) > spec[2]
    if k == "and":
        a, b = mk_pred(spec[1]), mk_pred(spec[2])
        return lambda r: a(r) and b(r)
    if k == "or":
        a, b = mk_pred(spec[1]), mk_pred(spec[2])
        return lambda r: a(r) or b(r)
    if k == "not":
        a = mk_pred(spec[1])
        return lambda r: not a(r)
    raise ValueError(spec)


def pred_j(spec):
    k = spec[0]
    if k == "eq":
        return ["eq", spec[1], cell_j(spec[2])]
    if k in ("and", "or"):
        return [k, pred_j(spec[1]), pred_j(spec[2])]
    if k == "not":
        return [k, pred_j(spec[1])]
    return list(spec)


def gen_pred(rng, cols, depth=0):
    n = len(cols)
    i = rng.randrange(n)
    r = rng.random()
    if depth < 2 and r < 0.25:
        return [rng.choice(["and", "or"]), gen_pred(rng, cols, depth + 1), gen_pred(rng, cols, depth + 1)]
    if depth < 2 and r < 0.33:
        return ["not", gen_pred(rng, cols, depth + 1)]
    r = rng.random()
    if r < 0.3:
        return ["numgt", i, rat(Fraction(rng.choice([-1, 0, 1, 2, 3])) + Fraction(rng.choice([0, 1]), 2))]
    if r < 0.65:
        pool = [v for v in cols[i]] or [1]
        return ["eq", i, rng.choice(pool + [1, "a", True, None, 2.0])]
    if r < 0.8:
        return ["ismissing", i]
    if r < 0.95:
        return ["strlen_gt", i, rng.choice([0, 1, 2])]
    return ["true"]


def mk_fn(spec):
    k = spec[0]
    if k == "const":
        return lambda r: spec[1]
    if k == "sum":

        def f(r):
            xs = [_py(x) for x in r]
            xs = [x for x in xs if isinstance(x, (int, float)) and not isinstance(x, bool)]
            tot = sum((Fraction(x) for x in xs), Fraction(0))
            return float(tot) if any(isinstance(x, float) for x in xs) else int(tot)

        return f
    if k == "concat":
        return lambda r: "".join(str(x) for x in r if isinstance(_py(x), str))
    if k == "nmissing":
        return lambda r: sum(1 for x in r if _py(x) is None)
    raise ValueError(spec)


def fn_j(spec):
    return ["const", cell_j(spec[1])] if spec[0] == "const" else list(spec)


IDENT = ["k", "n", "s", "x", "y", "val", "f", "b", "w", "idx", "K", "c_d"]


def gen_cols_form(rng, columns, allow_str=True):
    """how the `columns=` argument is spelled: list / tuple / (a single name) plain str"""
    if len(columns) == 1 and allow_str and rng.random() < 0.5:
        return "str"
    return rng.choice(["list", "list", "tuple"])


def spell_cols(case):
    f = case.get("cols_form", "list")
    c = case["columns"]
    if f == "none":
        return None
    if f == "str":
        return c[0]
    return tuple(c) if f == "tuple" else list(c)


def gen_pred_typed(rng, cols, depth=0):
    """predicates that never compare values of different types (usable as python source on the raw cells)"""
    i = rng.randrange(len(cols))
    kd = col_kind(cols[i])
    r = rng.random()
    if depth < 2 and r < 0.25:
        return [rng.choice(["and", "or"]), gen_pred_typed(rng, cols, depth + 1), gen_pred_typed(rng, cols, depth + 1)]
    if depth < 2 and r < 0.33:
        return ["not", gen_pred_typed(rng, cols, depth + 1)]
    opts = [["eq", i, rng.choice(list(cols[i]) + [1, "a"])], ["ismissing", i]]
    if kd == "num":
        opts += [["numgt", i, rat(Fraction(rng.choice([-1, 0, 1, 2, 3])) + Fraction(rng.choice([0, 1]), 2))]] * 3
    if kd == "str":
        opts += [["strlen_gt", i, rng.choice([0, 1, 2])]] * 2
    return rng.choice(opts)


def pred_src(spec, names):
    """python source of a typed predicate in terms of the column names (string callbacks)"""
    k = spec[0]
    if k == "true":
        return "True"
    if k == "numgt":
        q = unrat(spec[2])
        return f"({names[spec[1]]} > {q.numerator}/{q.denominator})"
    if k == "eq":
        return f"({names[spec[1]]} == {spec[2]!r})"
    if k == "ismissing":
        return f"({names[spec[1]]} is None)"
    if k == "strlen_gt":
        return f"(len({names[spec[1]]}) > {spec[2]})"
    if k in ("and", "or"):
        return f"({pred_src(spec[1], names)} {k} {pred_src(spec[2], names)})"
    if k == "not":
        return f"(not {pred_src(spec[1], names)})"
    raise ValueError(spec)


def fn_src(spec, names):
    if spec[0] == "const":
        return repr(spec[1])
    if spec[0] in ("sum", "concat"):
        return " + ".join(names)
    raise ValueError(spec)


def sortable(td):
    """names of columns usable as sort keys: homogeneous, no missing"""
    return [h for h, c in zip(td["header"], td["cols"]) if col_kind(c) in ("num", "str", "bool")]


def gen_case(rng, op=None):
    """one operation with generated tables and arguments (json-able dict)"""
    op = op or rng.choice(
        ["sorted", "sorted", "sorted", "inner_join", "inner_join", "natural_join", "cross_join", "filtered", "filtered",
         "count_unique", "distinct_values", "appended", "transposed", "get_columns", "with_new_column", "with_new_column",
         "count", "row_indices", "filtered_by_column", "getitem", "getitem", "inner_join_args", "inner_join_args", "joined_args"]
    )
    if op == "sorted":
        t = gen_table(rng, nrows=rng.choice([1, 2, 3, 3, 4, 5, 6, 9, 15, 30, 60]))
        ok = sortable(t)
        if not ok:
            t["header"].append("zz")
            t["cols"].append(gen_column(rng, rng.choice(["int", "str"]), len(t["cols"][0])))
            ok = ["zz"]
        mode = rng.random()
        k = rng.randint(1, min(3, len(ok)))
        cols = rng.sample(ok, k)
        if mode < 0.3:
            columns, reverse = cols, []
        elif mode < 0.55:
            columns, reverse = None, cols
        elif mode < 0.85:
            columns, reverse = cols, [c for c in cols if rng.random() < 0.5]
        else:
            rest = [c for c in ok if c not in cols]
            columns, reverse = cols, rng.sample(rest, min(len(rest), 1))
        if columns is not None and len(columns) == 1 and rng.random() < 0.3:
            columns = columns[0]
        if len(reverse) == 1 and rng.random() < 0.3:
            reverse = reverse[0]
        if reverse == [] and rng.random() < 0.5:
            reverse = None
        case = dict(op=op, t=t, columns=columns, reverse=reverse)
        # the arguments may also be tuples (`reverse=()` is not generated: `() != []` sends the code down the
        # "only reverse given" path with no key column at all, see sort_args_empty_tuple_counter)
        if isinstance(columns, list) and rng.random() < 0.25:
            case["columns_form"] = "tuple"
        if isinstance(reverse, list) and reverse and rng.random() < 0.25:
            case["reverse_form"] = "tuple"
        return case
    if op in ("inner_join_args", "joined_args"):
        return gen_join_args(rng, op)
    if op in ("inner_join", "natural_join", "cross_join"):
        small = op == "cross_join"
        t = gen_table(rng, nrows=rng.choice([0, 1, 2, 3, 4, 6] if small else [0, 1, 2, 3, 5, 8, 14]))
        nk = rng.choice([1, 1, 2]) if op != "cross_join" else 0
        nk = min(nk, len(t["header"]))
        ks = rng.sample(t["header"], nk)
        # other table: shares the key columns' value pools (duplicate keys on both sides)
        others = [n for n in NAMES if n not in t["header"]]
        extra = rng.sample(others, rng.choice([0, 1, 2]))
        if op == "natural_join":
            ko = list(ks)
            names = ko + extra
            rng.shuffle(names)
            if len(ks) == 2 and rng.random() < 0.5:  # shared columns in a different relative order
                i, j = names.index(ks[0]), names.index(ks[1])
                if i < j:
                    names[i], names[j] = names[j], names[i]
        else:
            ko = [rng.choice(["kk", "k2", "key", "o"]) + str(i) for i in range(nk)]
            names = ko + extra
            rng.shuffle(names)
        m = rng.choice([0, 1, 2, 3, 4, 6] if small else [0, 1, 2, 3, 5, 8, 14])
        ucols = []
        for nme in names:
            if nme in ko:
                src = t["cols"][t["header"].index(ks[ko.index(nme)])]
                pool = list(src) + gen_column(rng, "mixed", 2)
                ucols.append([rng.choice(pool) for _ in range(m)])
            else:
                ucols.append(gen_column(rng, rng.choice(["int", "float", "str", "bool", "mixed"]), m))
        if not names:
            names = ["only"]
            ucols = [gen_column(rng, "int", m)]
        u = dict(header=names, cols=ucols, title="U")
        case = dict(op=op, t=t, u=u)
        if op == "inner_join":
            case.update(ks=ks, ko=ko)
        return case
    if op in ("filtered", "count", "row_indices"):
        cb = rng.choice(["callable", "callable", "string"])
        t = gen_table(rng, names=rng.sample(IDENT, rng.choice([1, 2, 3, 4])) if cb == "string" else None)
        tn = norm(t)
        k = rng.randint(1, len(t["header"]))
        columns = rng.sample(t["header"], k)
        sub = [t["cols"][t["header"].index(c)] for c in columns]
        if cb == "string":
            # a string callback is eval()'d with the row as namespace: it sees all the selected columns by name
            pred = gen_pred_typed(rng, sub)
        else:
            pred = gen_pred(rng, sub)
        case = dict(op=op, t=t, columns=columns, pred=pred, cb=cb, cols_form=gen_cols_form(rng, columns, allow_str=op != "row_indices"))
        if rng.random() < 0.15 and op != "row_indices":
            case["columns"], case["cols_form"] = list(tn["header"]), "none"  # columns=None: all columns, in header order
            case["pred"] = gen_pred_typed(rng, tn["cols"]) if cb == "string" else gen_pred(rng, tn["cols"])
        if op == "row_indices":
            case["negate"] = rng.random() < 0.5
        return case
    if op in ("count_unique", "distinct_values"):
        t = gen_table(rng)
        k = rng.randint(1, len(t["header"]))
        columns = rng.sample(t["header"], k)
        case = dict(op=op, t=t, columns=columns, cols_form=gen_cols_form(rng, columns))
        if op == "count_unique" and rng.random() < 0.15:
            case["columns"], case["cols_form"] = list(norm(t)["header"]), "none"  # columns=None: all columns, in header order
        return case
    if op == "get_columns":
        t = gen_table(rng)
        k = rng.randint(1, len(t["header"]))
        columns = rng.sample(t["header"], k)
        return dict(op=op, t=t, columns=columns, cols_form=gen_cols_form(rng, columns, allow_str=False), with_index=rng.random() < 0.6)
    if op == "filtered_by_column":
        t = gen_table(rng)
        return dict(op=op, t=t, cpred=[rng.choice(["allnum", "nomissing", "anystr", "true"])])
    if op == "getitem":
        t = gen_table(rng, nrows=rng.choice([1, 2, 3, 4, 6, 9]), index=False)
        if rng.random() < 0.35:
            add_index(rng, t, str_labels=True)  # (int labels would be ambiguous with row positions)
        n, m = len(t["cols"][0]), len(t["header"])
        H = norm(t)["header"]
        r = rng.random()
        if r < 0.15:
            rows = ["all"]
        elif r < 0.35:
            rows = ["int", rng.randint(-n - 1, n)]
        elif r < 0.65:
            rows = ["slice", rng.choice([None, 0, 1, -1, -2, 2, n, -n - 1]), rng.choice([None, 0, 1, -1, 2, n + 2, -n]), rng.choice([None, None, 1, 2, -1, -2])]
        elif r < 0.85 or t.get("index") is not None:
            rows = ["ints", [rng.randint(-n, n - 1) for _ in range(rng.choice([1, 2, 3]))]]
        else:
            rows = ["mask", [rng.random() < 0.5 for _ in range(n)]]  # numpy bool array (tables without index_name)
        r = rng.random()
        if r < 0.15:
            cols = ["all"]
        elif r < 0.4:
            cols = ["names", rng.sample(H, rng.randint(1, m))]
        elif r < 0.5:
            cols = ["str", rng.choice(H)]
        elif r < 0.62:
            cols = ["int", rng.randint(-m - 1, m)]
        elif r < 0.74:
            cols = ["ints", [j - rng.choice([0, m]) for j in rng.sample(range(m), rng.choice([1, min(2, m)]))]]
        elif r < 0.88:
            cols = ["slice", rng.choice([None, 0, 1, -1, -2]), rng.choice([None, 1, -1, m, m + 2]), rng.choice([None, None, 1, 2, -1])]
        else:
            cols = ["bools", [rng.random() < 0.6 for _ in range(m)]]
            cols[1][rng.randrange(m)] = True
        if t.get("index") is not None and rng.random() < 0.2:
            rows = ["label", rng.choice(t["cols"][t["header"].index(t["index"])])]
        return dict(op=op, t=t, rows=rows, cols=cols)
    if op == "with_new_column":
        cb = rng.choice(["callable", "callable", "string"])
        t = gen_table(rng, names=rng.sample(IDENT, rng.choice([1, 2, 3, 4])) if cb == "string" else None)
        k = rng.randint(1, len(t["header"]))
        columns = rng.sample(t["header"], k)
        kinds = [col_kind(t["cols"][t["header"].index(c)]) for c in columns]
        if cb == "string":
            opts = [["const", rng.choice([1, "c", 2.5])]]
            if all(kd == "num" for kd in kinds):
                opts += [["sum"], ["sum"]]
            if all(kd == "str" for kd in kinds):
                opts += [["concat"], ["concat"]]
            fn = rng.choice(opts)
        else:
            fn = rng.choice([["sum"], ["sum"], ["concat"], ["nmissing"], ["const", rng.choice([1, "c", 2.5])]])
        new = rng.choice(["new", "new", "N w", t["header"][0], t["header"][-1]])
        return dict(op=op, t=t, columns=columns, fn=fn, new=new, cb=cb, cols_form=gen_cols_form(rng, columns))
    if op == "appended":
        t = gen_table(rng, nrows=rng.choice([0, 1, 2, 3, 5]))
        kinds = None
        others = []
        for i in range(rng.choice([1, 1, 2, 3])):
            names = list(t["header"])
            rng.shuffle(names)
            same = rng.random() < 0.6
            cols = []
            m = rng.choice([0, 1, 2, 4])
            for nme in names:
                src = t["cols"][t["header"].index(nme)]
                if nme == t.get("index"):
                    # labels: fresh ones, or (sometimes) ones the first table already uses
                    fresh = ["n%d_%d" % (i, j) for j in range(m)]
                    cols.append([rng.choice(src) if src and rng.random() < 0.15 else f for f in fresh])
                elif same and src:
                    cols.append([rng.choice(src) for _ in range(m)])
                else:
                    cols.append(gen_column(rng, rng.choice(["int", "float", "str", "bool", "mixed"]), m))
            others.append(dict(header=names, cols=cols, title=rng.choice(["", "o%d" % i, "second"])))
        case = dict(op=op, t=t, others=others, new=rng.choice([None, "src", "which one"]))
        if rng.random() < 0.25:
            case["as_list"] = True
        return case
    if op == "transposed":
        n = rng.choice([0, 1, 2, 3, 4])
        ncols = rng.choice([1, 2, 3, 4])
        names = rng.sample(NAMES, ncols)
        t = gen_table(rng, nrows=n, names=names, index=False)
        si = rng.randrange(ncols)
        kind = rng.choice(["str", "int", "dup"])
        if kind == "str":
            t["cols"][si] = rng.sample(["r1", "r2", "gene", "x y", "A", "b", "c,d"], n)
        elif kind == "int":
            t["cols"][si] = rng.sample(range(-2, 9), n)
        else:
            t["cols"][si] = [rng.choice(["u", "v", 1]) for _ in range(n)]
        select = None if si == 0 and rng.random() < 0.5 else names[si]
        if rng.random() < 0.3:  # with an index column: it is displayed first and is the default header source
            add_index(rng, t)
            if rng.random() < 0.6:
                select = None
        return dict(op=op, t=t, new=rng.choice(["hdr", "name"]), select=select)
    raise ValueError(op)


def arg_form(rng, names):
    """how a key-column argument is spelled: {"form": none|str|list|tuple, "names": [...]}"""
    if names is None:
        return dict(form="none", names=[])
    if len(names) == 1 and rng.random() < 0.4:
        return dict(form="str", names=list(names))
    return dict(form=rng.choice(["list", "list", "tuple"]), names=list(names))


def spell_arg(a):
    if a is None or a["form"] == "none":
        return None
    if a["form"] == "str":
        return a["names"][0]
    if a["form"] == "ints":
        return list(a["ints"])  # column positions (`Columns._get_keys_` resolves them; outside the Lean value domain)
    return tuple(a["names"]) if a["form"] == "tuple" else list(a["names"])


def arg_names(a):
    return None if a is None or a["form"] == "none" else list(a["names"])


def arg_j(a):
    """json of an argument for the driver: null | "name" | [names] | {"tuple": [names]}"""
    v = spell_arg(a)
    return {"tuple": list(v)} if isinstance(v, tuple) else v


def gen_join_args(rng, op):
    """inner_join / joined with every way of (not) saying which columns are the keys: both sides, one side only,
    none (natural join; the two index columns with use_index), as str / list / tuple, with use_index, col_prefix,
    inner_join=False with and without columns"""
    if op == "inner_join_args":
        mode = rng.choice(["both", "both", "self_only", "other_only", "natural", "index", "index", "index_missing"])
    else:
        mode = rng.choice(["both", "self_only", "other_only", "natural", "natural", "cross", "cross_cols"])
    if mode in ("index", "index_missing"):
        t = gen_table(rng, nrows=rng.choice([0, 1, 2, 3, 5, 8]), index=False)
        add_index(rng, t)
        others = [n for n in NAMES if n not in t["header"]]
        u = gen_table(rng, nrows=rng.choice([0, 1, 2, 3, 5, 8]), names=rng.sample(others, rng.choice([1, 2, 3])), index=False)
        m = len(u["cols"][0])
        j = rng.randrange(len(u["header"]))
        tl = list(t["cols"][t["header"].index(t["index"])])
        pool = tl + [x for x in ["zz1", "zz2", "zz3", -7, -8, "r1", "r2"] if x not in tl]
        # labels of other: unique, partly shared with self's
        cand = []
        for x in pool:
            if canon(x) not in [canon(y) for y in cand]:
                cand.append(x)
        while len(cand) < m:
            cand.append("u%d" % len(cand))
        u["cols"][j] = rng.sample(cand, m)
        u["index"] = u["header"][j]
        u["title"] = "U"
        if mode == "index_missing":
            which = rng.choice(["t", "u", "both"])
            if which in ("t", "both"):
                t.pop("index")
            if which in ("u", "both"):
                u.pop("index")
        case = dict(op=op, t=t, u=u, cs=arg_form(rng, None), co=arg_form(rng, None), mode=mode)
        if rng.random() < 0.5:
            case["use_index"] = True  # (the default)
        return case
    base = gen_case(rng, "inner_join" if mode == "both" else "natural_join")
    t, u = base["t"], base["u"]
    t.pop("index", None)
    if mode == "both":
        ks, ko = base["ks"], base["ko"]
    else:
        ks = ko = [c for c in t["header"] if c in u["header"]]
        if mode in ("self_only", "other_only") and len(ks) > 1 and rng.random() < 0.5:
            ks = ko = rng.sample(ks, len(ks))  # the given order need not be the header's
    case = dict(op=op, t=t, u=u, mode=mode)
    case["cs"] = arg_form(rng, ks if mode in ("both", "self_only") or (mode == "cross_cols" and rng.random() < 0.6) else None)
    case["co"] = arg_form(rng, ko if mode in ("both", "other_only") or (mode == "cross_cols" and case["cs"]["form"] == "none") else None)
    if op == "inner_join_args":
        if mode == "natural":
            case["use_index"] = False
        elif rng.random() < 0.6:
            case["use_index"] = rng.random() < 0.5  # ignored when columns are given
    else:
        inner = mode not in ("cross", "cross_cols")
        if not inner or rng.random() < 0.5:
            case["inner"] = inner
    if mode not in ("cross", "cross_cols") and rng.random() < 0.3:
        case["col_prefix"] = rng.choice(["x_", "other ", "r"])
    if mode in ("both", "self_only", "other_only") and rng.random() < 0.15:
        # key columns by position ("can be either column index, or a string matching the column header"): resolved
        # to names in the table they are given for
        for k, td in (("cs", t), ("co", u)):
            a = case[k]
            if a["form"] in ("list", "tuple"):
                a["form"], a["ints"] = "ints", [td["header"].index(c) for c in a["names"]]
    return case


def gen_arg_corner(rng):
    """the argument forms the docstrings do not speak about: empty list / tuple / '' as key or sort columns, a name
    reverse given as tuple with columns=None.  The HAND model (sortArgs / joinKeysH, Lean)
    says what the code does with them; used by the failing-input search (`args_vs_hand`)."""
    if rng.random() < 0.45:
        c = gen_case(rng, "sorted")
        c.pop("columns_form", None)
        c.pop("reverse_form", None)
        ok = sortable(c["t"])
        # (a name REPEATED in `reverse` is not generated: the later loop of Table.sorted then reverses that column
        # twice, or numpy rejects the duplicated field - outside both the argument resolution and the table model)
        k = rng.choice(["rev_empty", "rev_tuple", "cols_tuple_rev_str", "plain"])
        if k == "rev_empty":
            c["reverse"] = []
            c["reverse_form"] = rng.choice(["list", "tuple"])
            if c["columns"] is None or c["reverse_form"] == "tuple" and rng.random() < 0.5:
                c["columns"] = rng.sample(ok, rng.randint(1, min(2, len(ok))))  # (reverse=() with columns=None: no key at all)
        elif k == "rev_tuple":
            c["columns"], c["reverse"], c["reverse_form"] = None, rng.sample(ok, rng.randint(1, min(2, len(ok)))), "tuple"
        elif k == "cols_tuple_rev_str":
            c["columns"], c["columns_form"] = rng.sample(ok, rng.randint(1, min(2, len(ok)))), "tuple"
            c["reverse"] = rng.choice(ok)
        return c
    c = gen_join_args(rng, rng.choice(["inner_join_args", "inner_join_args", "joined_args"]))
    if c.get("mode") in ("index", "index_missing", "cross", "cross_cols"):
        return c
    for k in ("cs", "co"):
        if c[k]["form"] == "ints":
            c[k]["form"] = "list"
    k = rng.choice(["empty_other", "empty_both", "empty_self", "empty_str", "plain"])
    empty = lambda: dict(form=rng.choice(["list", "tuple"]), names=[])  # noqa: E731
    if k == "empty_other":
        c["co"] = empty()
    elif k == "empty_both":
        c["cs"], c["co"] = empty(), empty()
    elif k == "empty_self":
        c["cs"] = empty()
    elif k == "empty_str":
        c[rng.choice(["cs", "co"])] = dict(form="str", names=[""])
    return c


def hand_req(case):
    cmd, d = model_req(case)
    return (cmd, dict(d, hand=True))


def check_args_vs_hand(ctx, case, rep=None):
    """REAL sorted / inner_join / joined vs the Lean HAND model of the argument resolution (sortArgs, joinKeysH,
    joinedCallH - what the theorems sorted_args_translated / join_keys_translated are about) followed by the table
    model.  None or (what, expected, got, sig)"""
    if not modelable(case) or getattr(ctx, "driver", None) is None:
        return None
    if rep is None:
        rep = ctx.driver.batch([hand_req(case)])[0]
    real = run_real(case)
    diff = compare_model_real(case, rep, real)
    if diff is None:
        return None
    forms = "+".join(
        f"{k}={'none' if v is None else type(v).__name__ if not isinstance(v, dict) else v['form'] + ('-empty' if v['form'] != 'none' and not v['names'] else '')}"
        for k, v in ((k, case.get(k)) for k in ("columns", "reverse", "cs", "co")) if k in case
    )
    return (f"{case['op']}: the code resolves its arguments differently from the hand model ({diff[0]})", diff[1], show(diff[2]), f"args:{case['op']}:{forms}")


# --------------------------------------------------------------------------
# REAL
# --------------------------------------------------------------------------
def real_table(td):
    from cogent3 import make_table

    return make_table(
        header=list(td["header"]), data={h: list(c) for h, c in zip(td["header"], td["cols"])}, title=td.get("title", ""),
        index_name=td.get("index"),
    )


def table_rows(t):
    """rows as observed through to_list()"""
    if t.shape[1] == 0:
        return []
    rows = t.to_list()
    if t.shape[1] == 1:
        rows = [[v] for v in rows]
    return [list(r) for r in rows]


def _cb(f, ncols):
    if ncols == 1:
        return lambda x: f([x])
    return lambda x: f(list(x))


def real_callback(case, kind):
    """the callback argument: a python callable, or python source evaluated with the row as namespace"""
    if case.get("cb") == "string":
        return pred_src(case["pred"], case["columns"]) if kind == "pred" else fn_src(case["fn"], case["columns"])
    f = mk_pred(case["pred"]) if kind == "pred" else mk_fn(case["fn"])
    return _cb(f, len(case["columns"]))


def mk_cpred(spec):
    k = spec[0]
    vals = lambda c: [_py(v) for v in c.tolist()]
    if k == "allnum":
        return lambda c: all(isinstance(v, (int, float)) and not isinstance(v, bool) for v in vals(c))
    if k == "nomissing":
        return lambda c: all(v is not None for v in vals(c))
    if k == "anystr":
        return lambda c: any(isinstance(v, str) for v in vals(c))
    return lambda c: True


def py_rowsel(case, numpy):
    r = case["rows"]
    if r[0] == "all":
        return slice(None)
    if r[0] == "int":
        return r[1]
    if r[0] == "slice":
        return slice(r[1], r[2], r[3])
    if r[0] == "ints":
        return list(r[1])
    if r[0] == "mask":
        return numpy.array(r[1], dtype=bool)
    if r[0] == "label":
        return r[1]
    raise ValueError(r)


def py_colsel(case):
    c = case["cols"]
    if c[0] == "all":
        return None
    if c[0] in ("names", "ints", "bools"):
        return list(c[1])
    if c[0] in ("str", "int"):
        return c[1]
    if c[0] == "slice":
        return slice(c[1], c[2], c[3])
    raise ValueError(c)


def run_real(case):
    """-> dict(header=, rows=) | dict(counts=) | dict(values=) | dict(mask=) | dict(count=) | dict(err=)"""
    import numpy

    op = case["op"]
    try:
        t = real_table(case["t"])
        if op == "sorted":
            kw = {}
            if case["columns"] is not None:
                kw["columns"] = tuple(case["columns"]) if case.get("columns_form") == "tuple" else case["columns"]
            if case["reverse"] is not None:
                kw["reverse"] = tuple(case["reverse"]) if case.get("reverse_form") == "tuple" else case["reverse"]
            r = t.sorted(**kw)
        elif op in ("inner_join_args", "joined_args"):
            kw = {}
            if case["cs"]["form"] != "none":
                kw["columns_self"] = spell_arg(case["cs"])
            if case["co"]["form"] != "none":
                kw["columns_other"] = spell_arg(case["co"])
            for k_case, k_real in (("use_index", "use_index"), ("inner", "inner_join"), ("col_prefix", "col_prefix")):
                if k_case in case:
                    kw[k_real] = case[k_case]
            r = (t.inner_join if op == "inner_join_args" else t.joined)(real_table(case["u"]), **kw)
        elif op == "inner_join":
            r = t.inner_join(real_table(case["u"]), columns_self=case["ks"], columns_other=case["ko"])
        elif op == "natural_join":
            r = t.joined(real_table(case["u"]))
        elif op == "cross_join":
            r = t.joined(real_table(case["u"]), inner_join=False) if case.get("via_joined") else t.cross_join(real_table(case["u"]))
        elif op == "filtered":
            r = t.filtered(real_callback(case, "pred"), columns=spell_cols(case))
        elif op == "count":
            return dict(count=int(t.count(real_callback(case, "pred"), columns=spell_cols(case))))
        elif op == "row_indices":
            m = t.get_row_indices(real_callback(case, "pred"), spell_cols(case), negate=case["negate"])
            return dict(mask=[bool(x) for x in m.tolist()])
        elif op == "filtered_by_column":
            r = t.filtered_by_column(mk_cpred(case["cpred"]))
        elif op == "count_unique":
            c = t.count_unique(spell_cols(case))
            single = len(case["columns"]) == 1
            return dict(counts=Counter({(canon(k),) if single else canon(k): int(n) for k, n in c.items()}))
        elif op == "distinct_values":
            s = t.distinct_values(spell_cols(case))
            single = len(case["columns"]) == 1
            return dict(values={(canon(k),) if single else canon(k) for k in s}, size=len(s))
        elif op == "get_columns":
            r = t.get_columns(spell_cols(case), with_index=case.get("with_index", True))
        elif op == "getitem":
            rs, cs = py_rowsel(case, numpy), py_colsel(case)
            r = t[rs] if cs is None and case.get("rows_only", True) else t[rs, slice(None) if cs is None else cs]
            if not hasattr(r, "header"):  # a single cell (or a 1-element array)
                v = r.tolist() if hasattr(r, "tolist") else r
                return dict(scalar=v[0] if isinstance(v, list) and len(v) == 1 else v)
        elif op == "with_new_column":
            r = t.with_new_column(case["new"], real_callback(case, "fn"), columns=spell_cols(case))
        elif op == "appended":
            if case.get("as_list"):  # the tables may also be given as ONE list / tuple
                r = t.appended(case["new"], [real_table(o) for o in case["others"]])
            else:
                r = t.appended(case["new"], *[real_table(o) for o in case["others"]])
        elif op == "transposed":
            r = t.transposed(case["new"], select_as_header=case["select"])
        else:
            raise ValueError(op)
        # reading index_name first: a handed-on index_name is only validated / moved to the front on first use
        ix = r.index_name
        return dict(header=list(r.header), rows=table_rows(r), shape=list(r.shape), index=ix)
    except (SystemExit, KeyboardInterrupt):
        raise
    except Exception as e:  # noqa: BLE001
        return dict(err=type(e).__name__, msg=str(e)[:200])


# --------------------------------------------------------------------------
# ORACLE: plain list-of-row-tuples semantics
# --------------------------------------------------------------------------
def _aslist(x):
    if x is None:
        return None
    return [x] if isinstance(x, str) else list(x)


def sort_columns_spec(header, columns, reverse):
    """docstring of Table.sorted: `columns` gives the order, `reverse` the reversed ones; only reverse given ->
    that order; reverse columns not among columns are appended"""
    columns, reverse = _aslist(columns), _aslist(reverse) or []
    if columns is None:
        columns = list(reverse) if reverse else list(header)
    columns = list(columns) + [c for c in reverse if c not in columns]
    return columns, reverse


def row_cmp(a, b, idx, rev):
    for j, r in zip(idx, rev):
        x, y = canon(a[j]), canon(b[j])
        if x == y:
            continue
        lt = x < y
        return (-1 if lt else 1) * (-1 if r else 1)
    return 0


def py_index_list(n, r):
    """row / column positions selected by an index expression (python list semantics)"""
    base = list(range(n))
    if r[0] == "all":
        return base
    if r[0] == "int":
        return [base[r[1]]]
    if r[0] == "slice":
        return base[slice(r[1], r[2], r[3])]
    if r[0] == "ints":
        return [base[i] for i in r[1]]
    if r[0] in ("mask", "bools"):
        return [i for i, b in enumerate(r[1]) if b]
    raise ValueError(r)


def index_first(k, hdr, rows):
    """`Columns.order`: a result that still contains the index column shows it first; its values must be unique"""
    if k is None or k not in hdr:
        return dict(header=hdr, rows=rows)
    i = hdr.index(k)
    if len({canon(r[i]) for r in rows}) != len(rows):
        return dict(err="ValueError")  # not usable as index_name
    order = [i] + [j for j in range(len(hdr)) if j != i]
    return dict(header=[hdr[j] for j in order], rows=[[r[j] for j in order] for r in rows])


def oracle(case):
    """expected result on the list of row tuples; for `sorted` returns the checker inputs"""
    op = case["op"]
    t = norm(case["t"])
    R = rows_of(t)
    H = t["header"]
    if op in ("inner_join", "natural_join", "cross_join", "inner_join_args", "joined_args"):
        u = norm(case["u"])
        S, HU = rows_of(u), u["header"]
        pre = case.get("col_prefix") or "right_"
        if op in ("inner_join_args", "joined_args"):
            # the docstrings: key columns as given (a single name = a one-element list); only one side given: the same
            # labels for both tables; none given: the shared names (natural join: joined, use_index=False) or the two
            # index columns (use_index, the default of inner_join); joined(inner_join=False) is the cross join and
            # takes no columns
            cs, co = arg_names(case["cs"]), arg_names(case["co"])
            if op == "joined_args" and not case.get("inner", True):
                if cs is not None or co is not None:
                    return dict(err="AssertionError")
                return dict(header=H + ["right_" + c for c in HU], rows=[r + s for r in R for s in S])
            use_index = case.get("use_index", True) if op == "inner_join_args" else False
            if cs is None and co is None:
                if use_index:
                    if t.get("index") is None or u.get("index") is None:
                        return dict(err="ValueError")
                    ks, ko = [t["index"]], [u["index"]]
                else:
                    ks = ko = [c for c in H if c in HU]
            elif cs is None:
                ks = ko = co
            elif co is None:
                ks = ko = cs
            else:
                ks, ko = cs, co
            if len(ks) != len(ko):
                return dict(err="RuntimeError")
        elif op == "cross_join":
            return dict(header=H + ["right_" + c for c in HU], rows=[r + s for r in R for s in S])
        elif op == "natural_join":
            shared = [c for c in H if c in HU]
            ks = ko = shared
        else:
            ks, ko = case["ks"], case["ko"]
        iS, iO = [H.index(c) for c in ks], [HU.index(c) for c in ko]
        keep = [j for j, c in enumerate(HU) if c not in ko]
        rows = [r + [s[j] for j in keep] for r in R for s in S if [canon(r[i]) for i in iS] == [canon(s[i]) for i in iO]]
        return dict(header=H + [pre + HU[j] for j in keep], rows=rows)
    if op in ("filtered", "count", "row_indices"):
        idx = [H.index(c) for c in case["columns"]]
        p = mk_pred(case["pred"])
        if op == "filtered":
            return dict(header=H, rows=[r for r in R if p([r[i] for i in idx])])
        if op == "count":
            return dict(count=sum(1 for r in R if p([r[i] for i in idx])))
        return dict(mask=[bool(p([r[i] for i in idx])) != case["negate"] for r in R])
    if op == "filtered_by_column":
        keep = []
        for j, c in enumerate(t["cols"]):
            vals = list(c)
            ok = dict(
                allnum=all(isinstance(v, (int, float)) and not isinstance(v, bool) for v in vals),
                nomissing=all(v is not None for v in vals),
                anystr=any(isinstance(v, str) for v in vals),
                true=True,
            )[case["cpred"][0]]
            if ok:
                keep.append(j)
        return dict(header=[H[j] for j in keep], rows=[[r[j] for j in keep] for r in R] if keep else [])
    if op == "count_unique":
        idx = [H.index(c) for c in case["columns"]]
        return dict(counts=Counter(tuple(canon(r[i]) for i in idx) for r in R))
    if op == "distinct_values":
        idx = [H.index(c) for c in case["columns"]]
        return dict(values={tuple(canon(r[i]) for i in idx) for r in R})
    if op == "get_columns":
        cols = list(case["columns"])
        k = t.get("index")
        if k is not None and case.get("with_index", True):
            cols = [k] + [c for c in cols if c != k]
        idx = [H.index(c) for c in cols]
        return index_first(k, cols, [[r[i] for i in idx] for r in R])
    if op == "getitem":
        try:
            c = case["cols"]
            if c[0] == "names":
                cidx = [H.index(x) for x in c[1]]
            elif c[0] == "str":
                cidx = [H.index(c[1])]
            else:
                cidx = py_index_list(len(H), c)
            if not cidx:
                return dict(header=[], rows=[])
            if case["rows"][0] == "label":
                ridx = [[canon(x) for x in t["cols"][0]].index(canon(case["rows"][1]))]
            else:
                ridx = py_index_list(len(R), case["rows"])
        except (IndexError, ValueError):
            return dict(err="IndexError|KeyError")
        rows = [[R[i][j] for j in cidx] for i in ridx]
        single_row = case["rows"][0] in ("int", "label") or (case["rows"][0] == "ints" and len(ridx) == 1)
        if single_row and len(cidx) == 1 and len(ridx) == 1:
            return dict(scalar=rows[0][0])
        return index_first(t.get("index"), [H[j] for j in cidx], rows)
    if op == "with_new_column":
        idx = [H.index(c) for c in case["columns"]]
        f = mk_fn(case["fn"])
        keep = [j for j, c in enumerate(H) if c != case["new"]]
        hdr = [H[j] for j in keep] + [case["new"]]
        rows = [[r[j] for j in keep] + [f([r[i] for i in idx])] for r in R]
        k = t.get("index")
        if k is not None and k == case["new"]:
            return index_first(k, hdr, rows)  # the new column takes over the index_name
        return dict(header=hdr, rows=rows)
    if op == "appended":
        rows = []
        for tab in [t] + [norm(o) for o in case["others"]]:
            perm = [tab["header"].index(c) for c in H]
            for r in rows_of(tab):
                rr = [r[j] for j in perm]
                rows.append(([tab.get("title", "")] if case["new"] is not None else []) + rr)
        hdr = ([case["new"]] if case["new"] is not None else []) + H
        k = t.get("index")
        if k is not None and case["new"] is not None:
            ki = hdr.index(k)
            if len({canon(r[ki]) for r in rows}) == len(rows):  # still usable as index_name: that column stays first
                hdr = [H[0], case["new"]] + H[1:]
                rows = [[r[1], r[0]] + r[2:] for r in rows]
        return dict(header=hdr, rows=rows)
    if op == "transposed":
        sel = case["select"] or H[0]
        si = H.index(sel)
        if len({canon(r[si]) for r in R}) != len(R):
            return dict(err="ValueError")
        others = [j for j in range(len(H)) if j != si]
        return dict(header=[case["new"]] + [str(r[si]).strip() for r in R], rows=[[H[j]] + [r[j] for r in R] for j in others])
    raise ValueError(op)


def classify_sort_violation(a, b, idx, rev, header):
    """which key column decides the mis-ordered adjacent pair, and whether a proper-prefix pair is involved"""
    for j, r in zip(idx, rev):
        x, y = _py(a[j]), _py(b[j])
        if canon(x) == canon(y):
            continue
        kind = "str" if isinstance(x, str) else "bool" if isinstance(x, bool) else "num"
        pre = ""
        if kind == "str":
            pre = ":prefix" if (x.startswith(y) or y.startswith(x)) else ":noprefix"
        return f"{'rev' if r else 'fwd'}-{kind}{pre}"
    return "tie"


def check_op(case, real=None):
    """REAL vs ORACLE. returns None or (what, expected, got, sig); the sig says whether an index_name is involved"""
    f = _check_op(case, real)
    if f and any(td.get("index") is not None for td in [case["t"], case.get("u") or {}] + case.get("others", [])):
        f = (f[0], f[1], f[2], f[3] + ":indexed")
    return f


def _check_op(case, real=None):
    op = case["op"]
    real = real if real is not None else run_real(case)
    if op == "sorted":
        t = norm(case["t"])
        H = t["header"]
        cols, reverse = sort_columns_spec(H, case["columns"], case["reverse"])
        kinds = {h: col_kind(c) for h, c in zip(H, t["cols"])}
        if "err" in real:
            # the class of the failure: kinds of the reversed key columns that are neither numeric nor str
            rk = sorted({"rev-" + kinds[c] for c in cols if c in reverse and kinds[c] not in ("num", "str")}) or ["other"]
            return (f"sorted(columns={case['columns']}, reverse={case['reverse']}) raised {real['err']}: {real.get('msg')}",
                    "a sorted permutation of the rows", real, f"sorted:raises:{real['err']}:{'+'.join(rk)}")
        R = rows_of(t)
        if real["header"] != H:
            return ("sorted changed the header", H, real["header"], "sorted:header")
        if Counter(canon_rows(R)) != Counter(canon_rows(real["rows"])):
            return ("sorted result is not a permutation of the rows", show(R), show(real["rows"]), "sorted:not-permutation")
        idx = [H.index(c) for c in cols]
        rev = [c in reverse for c in cols]
        out = real["rows"]
        for a, b in zip(out, out[1:]):
            if row_cmp(a, b, idx, rev) > 0:
                cls = classify_sort_violation(a, b, idx, rev, H)
                return (
                    f"sorted result not in order (columns={cols}, reverse={reverse}): {show(a)} before {show(b)}",
                    "rows ordered by the key columns, reversed columns descending",
                    show(out),
                    f"sorted:order:{cls}",
                )
        return None
    exp = oracle(case)
    if "err" in exp:
        if real.get("err") in exp["err"].split("|"):
            return None
        return (f"{op}: expected {exp['err']}", exp, show(real), f"{op}:expected-{exp['err']}")
    if "err" in real:
        extra = ":index_name" if "index_name" in (real.get("msg") or "") else ""
        return (f"{op} raised {real['err']}: {real.get('msg')}", show(exp), real, f"{op}:raises:{real['err']}{extra}")
    if "scalar" in real and "rows" in exp:
        if len(exp["rows"]) == 1 and len(exp["rows"][0]) == 1 and canon(exp["rows"][0][0]) == canon(real["scalar"]):
            return None
        return (f"{op}: rows differ from the list-of-row-tuples result", show(exp["rows"]), show(real), f"{op}:rows")
    for key in ("mask", "count", "scalar"):
        if key in exp:
            got = real.get(key, real)
            same = canon(got) == canon(exp[key]) if key == "scalar" and not isinstance(got, dict) else got == exp[key]
            if not same:
                return (f"{op}: {key} differs from the row-list result", show(exp[key]), show(got), f"{op}:{key}")
            return None
    if "counts" in exp:
        if exp["counts"] != real["counts"]:
            return (f"{op} differs from Counter over row tuples", show(sorted(exp["counts"].items(), key=repr)), show(sorted(real["counts"].items(), key=repr)), f"{op}:counts")
        return None
    if "values" in exp:
        if exp["values"] != real["values"] or real["size"] != len(exp["values"]):
            return (f"{op} differs from the set of row tuples", show(sorted(exp["values"], key=repr)), show(sorted(real["values"], key=repr)), f"{op}:values")
        return None
    # (a result without rows is not asked for its header: Table.__getitem__ drops zero-length columns)
    if real["rows"] and [str(h) for h in real["header"]] != exp["header"]:
        return (f"{op}: header differs", exp["header"], real["header"], f"{op}:header")
    if canon_rows(real["rows"]) != canon_rows(exp["rows"]):
        sig = f"{op}:rows"
        if op == "natural_join":
            H, HU = case["t"]["header"], case["u"]["header"]
            sh1, sh2 = [c for c in H if c in HU], [c for c in HU if c in H]
            sig += ":shared-order-differs" if sh1 != sh2 else ":same-order"
        if len(real["rows"]) != len(exp["rows"]):
            sig += ":count"
        return (f"{op}: rows differ from the list-of-row-tuples result", show(exp["rows"]), show(real["rows"]), sig)
    return None


# --------------------------------------------------------------------------
# exercised only (REAL vs ORACLE, no Lean model): summed / normalized / to_categorical / head+tail policy
# --------------------------------------------------------------------------
def numeric_sum(values):
    xs = [_py(v) for v in values]
    xs = [v for v in xs if isinstance(v, (int, float, bool))]
    if not xs:
        return float("nan")
    tot = sum((Fraction(int(v) if isinstance(v, bool) else v) for v in xs), Fraction(0))
    return float(tot) if any(isinstance(v, float) for v in xs) else int(tot)


def gen_extra(rng):
    kind = rng.choice(["summed", "summed", "normalized", "to_categorical", "repr_policy", "to_list", "to_list", "to_dict"])
    if kind in ("to_list", "to_dict"):
        # the observation methods themselves, with their arguments: to_list(columns = None | name | names), to_dict()
        t = gen_table(rng, nrows=rng.choice([0, 1, 2, 3, 5]), ncols=rng.choice([1, 2, 3, 4]))
        if t.get("index") is not None and any(not isinstance(v, str) for v in t["cols"][t["header"].index(t["index"])]):
            t.pop("index")  # (to_dict keys: text labels only)
        H = t["header"]
        cols = rng.choice([None, rng.choice(H), rng.sample(H, rng.randint(1, len(H))), tuple(rng.sample(H, rng.randint(1, len(H))))])
        return dict(kind=kind, t=t, columns=cols, form="tuple" if isinstance(cols, tuple) else None)
    if kind == "summed":
        strict = rng.random() < 0.5
        n = rng.choice([1, 2, 3, 5])
        m = rng.choice([1, 2, 3])
        names = rng.sample(NAMES, m)
        kinds = [rng.choice(["int", "float"] if strict else ["int", "float", "str", "bool", "mixed"]) for _ in names]
        t = gen_table(rng, nrows=n, names=names, kinds=kinds, index=False)
        if not strict and rng.random() < 0.3:
            t["header"].append("lab")
            t["cols"].append(["r%d" % i for i in range(n)])
            t["index"] = "lab"
        col_sum = rng.random() < 0.5
        H = norm(t)["header"]
        if col_sum:
            indices = rng.choice([None, rng.choice(H), rng.sample(H, rng.randint(1, len(H)))])
        else:
            indices = rng.choice([None, None, rng.randrange(n), sorted(rng.sample(range(n), rng.randint(1, n)))])
            if t.get("index") and isinstance(indices, int) or len(t["header"]) < 2:
                indices = None  # (a single cell is returned as a scalar, which sum_rows does not expect)
        return dict(kind=kind, t=t, indices=indices, col_sum=col_sum, strict=strict)
    if kind == "normalized":
        n, m = rng.choice([1, 2, 3, 5]), rng.choice([1, 2, 3])
        t = dict(header=rng.sample(NAMES, m), cols=[[rng.choice([1, 2, 3, 0.5, 4.0, 7]) for _ in range(n)] for _ in range(m)], title="")
        return dict(kind=kind, t=t, by_row=rng.random() < 0.5)
    if kind == "to_categorical":
        n, m = rng.choice([2, 3, 4]), rng.choice([2, 3])
        names = rng.sample(IDENT, m + 1)
        t = dict(header=names, cols=[["r%d" % i for i in range(n)]] + [[rng.randint(1, 30) for _ in range(n)] for _ in range(m)], title="")
        pos = rng.randrange(m + 1)  # the label column need not be the first one
        t["header"] = names[1 : pos + 1] + [names[0]] + names[pos + 1 :]
        t["cols"] = t["cols"][1 : pos + 1] + [t["cols"][0]] + t["cols"][pos + 1 :]
        t["index"] = names[0]
        cols = rng.choice([None, None, rng.sample(names[1:], rng.randint(1, m)), rng.choice(names[1:])])
        return dict(kind=kind, t=t, columns=cols)
    n = rng.choice([1, 3, 6, 12, 60])
    t = gen_table(rng, nrows=n, ncols=rng.choice([2, 3, 4]), index=rng.random() < 0.3)
    h = rng.choice([None, 1, 2, 5])
    tl = rng.choice([None, 1, 2, 4])
    if (h or 0) + (tl or 0) > n:
        h, tl = (min(h or 1, n), None)
    return dict(kind="repr_policy", t=t, head=h, tail=tl)


def check_extra(c):
    import contextlib

    kind = c["kind"]
    t = norm(c["t"])
    H, R = t["header"], rows_of(t)
    try:
        rt = real_table(c["t"])
        if kind == "summed":
            got = rt.summed(indices=c["indices"], col_sum=c["col_sum"], strict=c["strict"])
            if c["col_sum"]:
                sel = H if c["indices"] is None else ([c["indices"]] if isinstance(c["indices"], str) else c["indices"])
                exp = [numeric_sum(t["cols"][H.index(x)]) for x in sel]
            else:
                ii = list(range(len(R))) if c["indices"] is None else ([c["indices"]] if isinstance(c["indices"], int) else c["indices"])
                exp = [numeric_sum(R[i]) for i in ii]
            exp = exp[0] if len(exp) == 1 else exp
            got = got.tolist() if hasattr(got, "tolist") else got
            if canon(got) != canon(exp):
                return (f"summed(indices={c['indices']}, col_sum={c['col_sum']}, strict={c['strict']}) differs", show(exp), show(got), f"summed:{'col' if c['col_sum'] else 'row'}:{'strict' if c['strict'] else 'nonstrict'}")
            return None
        if kind == "to_list":
            cols = tuple(c["columns"]) if c.get("form") == "tuple" else c["columns"]
            got = rt.to_list() if cols is None else rt.to_list(cols)
            want = H if cols is None else ([cols] if isinstance(cols, str) else list(cols))
            if len(want) == 1:
                exp = [r[H.index(want[0])] for r in R]  # "If one column, a 1D list is returned"
            else:
                k = t.get("index")
                if k is not None:
                    want = [k] + [x for x in want if x != k]  # get_columns: the index column comes along, first
                exp = [[r[H.index(x)] for x in want] for r in R]
            if canon(got) != canon(exp):
                return (f"to_list(columns={cols!r}) differs from the rows", show(exp), show(got), "to_list:" + ("all" if cols is None else "one" if len(want) == 1 else "some"))
            return None
        if kind == "to_dict":
            got = rt.to_dict()
            k = t.get("index")
            keys = [r[H.index(k)] for r in R] if k is not None else list(range(len(R)))
            exp = {key: {h: v for h, v in zip(H, r)} for key, r in zip(keys, R)}
            g2 = {kk: {h: canon(v) for h, v in row.items()} for kk, row in got.items()}
            e2 = {kk: {h: canon(v) for h, v in row.items()} for kk, row in exp.items()}
            if g2 != e2:
                return ("to_dict() differs from {row key: {column: value}}", show(sorted(e2.items(), key=repr)), show(sorted(g2.items(), key=repr)), "to_dict")
            return None
        if kind == "normalized":
            r = rt.normalized(by_row=c["by_row"])
            got = table_rows(r)
            tot_r = [sum(Fraction(v) for v in row) for row in R]
            tot_c = [sum(Fraction(v) for v in col) for col in t["cols"]]
            for i, row in enumerate(R):
                for j, v in enumerate(row):
                    e = Fraction(v) / (tot_r[i] if c["by_row"] else tot_c[j])
                    if abs(Fraction(got[i][j]) - e) > Fraction(1, 10**12) * max(1, abs(e)):
                        return ("normalized: cell differs from value / total", rat(e), got[i][j], f"normalized:{'row' if c['by_row'] else 'col'}")
            return None if list(r.header) == H else ("normalized: header differs", H, list(r.header), "normalized:header")
        if kind == "to_categorical":
            cc = rt.to_categorical(columns=c["columns"])
            obs = cc.observed
            cols = [x for x in H if x != t["index"]] if c["columns"] is None else ([c["columns"]] if isinstance(c["columns"], str) else list(c["columns"]))
            exp = [[r[H.index(x)] for x in cols] for r in R]
            got = obs.array.tolist()
            names = [list(x) for x in obs.template.names]
            if got != exp or names != [[r[0] for r in R], cols]:
                return ("to_categorical: counts / labels differ from the rows", dict(rows=exp, names=[[r[0] for r in R], cols]), dict(rows=got, names=names), "to_categorical")
            return None
        # repr policy = what head()/tail() show
        rt.set_repr_policy(head=c["head"], tail=c["tail"])
        tab, info, _ = rt._get_repr_()
        n = len(R)
        if not any([c["head"], c["tail"]]):
            exp = R if n < 50 else R[:5] + R[-5:]
        elif c["head"] and c["tail"]:
            exp = R[: c["head"]] + R[n - c["tail"] :]
        elif c["head"]:
            exp = R[: c["head"]]
        else:
            exp = R[n - c["tail"] :]
        got = table_rows(tab) if tab is not None else []
        if canon_rows(got) != canon_rows(exp):
            return (f"repr policy head={c['head']} tail={c['tail']} selects other rows", show(exp), show(got), "repr_policy:rows")
        with contextlib.redirect_stdout(io.StringIO()):
            rt.head(2)
            rt.tail(2)
        return None
    except (SystemExit, KeyboardInterrupt):
        raise
    except Exception as e:  # noqa: BLE001
        return (f"{kind} raised {type(e).__name__}: {str(e)[:150]}", "a result", repr(e)[:200], f"{kind}:raises:{type(e).__name__}")


# --------------------------------------------------------------------------
# histories on ONE table object: reads interleaved with state changes (stale caches are the class to catch)
# --------------------------------------------------------------------------
READS = ["array", "to_list", "iter", "len_shape", "header", "write_tsv", "write_csv", "write_csv_gz", "to_csv", "slice", "to_dict", "columns"]


def gen_history(rng):
    n = rng.choice([1, 2, 3, 4, 6])
    m = rng.choice([2, 3, 4])
    names = rng.sample(IDENT, m)
    kinds = [rng.choice(["int", "str", "str", "float", "bool"]) for _ in names]
    t = gen_table(rng, nrows=n, names=names, kinds=kinds, index=False)
    # at least two columns with unique values, usable as index_name
    for j in rng.sample(range(m), 2):
        t["cols"][j] = rng.sample(["r%d" % i for i in range(n + 3)], n)  # (str labels: int labels shadow row positions)
    t["title"] = ""
    uniq = [h for h, c in zip(t["header"], t["cols"]) if len({canon(v) for v in c}) == n and all(isinstance(v, str) for v in c)]
    steps = []
    fresh = iter(["new1", "new2", "new3", "new4"])
    live = list(names)
    for _ in range(rng.choice([3, 4, 6, 8])):
        r = rng.random()
        if r < 0.5:
            steps.append(["read", rng.choice(READS)])
        elif r < 0.72:
            cand = [h for h in uniq if h in live]
            steps.append(["index_name", rng.choice(cand + [None]) if cand else None])
        elif r < 0.78:
            steps.append([rng.choice(["title", "legend"]), rng.choice(["", "T", "a title"])])
        elif r < 0.84:
            steps.append(["format_column", rng.choice(live), "%s"])
        elif r < 0.91:
            nm = rng.choice([next(fresh, "newX"), rng.choice(live)])
            steps.append(["set_column", nm, gen_column(rng, rng.choice(["int", "str"]), n)])
            if nm not in live:
                live.append(nm)
            if nm in uniq:
                uniq.remove(nm)
        elif r < 0.95 and len(live) > 2:
            nm = rng.choice(live)
            steps.append(["del_column", nm])
            live.remove(nm)
        else:
            old = rng.choice(live)
            new = next(fresh, "newY")
            steps.append(["with_new_header", old, new])
            live[live.index(old)] = new
            if old in uniq:
                uniq[uniq.index(old)] = new
        steps.append(["read", rng.choice(READS)])
    return dict(t=t, steps=steps)


def check_history(ctx, hist, counter=[0]):
    """replays the history on one real Table and on the plain state (header, columns, index, title, legend);
    every read is compared with what the current state says.  returns None or (what, expected, got, sig)"""
    import gzip

    import numpy

    td = hist["t"]
    H = list(td["header"])
    C = {h: list(c) for h, c in zip(H, td["cols"])}
    index, title, legend = None, "", ""
    last = "start"
    done = []
    try:
        t = real_table(td)
    except Exception as e:  # noqa: BLE001
        return (f"make_table raised {e!r}", "table", repr(e), "history:make_table")

    def order():
        return list(H)  # (setting index_name moves that column to the front of the CURRENT order, see below)

    def rows():
        o = order()
        n = len(C[o[0]]) if o else 0
        return [[C[h][i] for h in o] for i in range(n)]

    for step in hist["steps"]:
        done.append(step)
        k = step[0]
        try:
            if k == "index_name":
                if step[1] is not None and (step[1] not in H or len({canon(v) for v in C[step[1]]}) != len(C[step[1]])):
                    continue
                if step[1] is None and index is not None:
                    continue  # (un-setting an index is not part of the histories)
                t.index_name = step[1]
                index = step[1]
                if index is not None:
                    H[:] = [index] + [h for h in H if h != index]
                last = "index_name"
            elif k in ("title", "legend"):
                setattr(t, k, step[1])
                if k == "title":
                    title = step[1]
                else:
                    legend = step[1]
                last = k
            elif k == "format_column":
                if step[1] in H and C[step[1]]:
                    t.format_column(step[1], step[2])
                    last = "format_column"
            elif k == "set_column":
                if step[1] == index:
                    continue
                t.columns[step[1]] = list(step[2])
                if step[1] not in H:
                    H.append(step[1])
                C[step[1]] = list(step[2])
                last = "set_column"
            elif k == "del_column":
                if step[1] == index or step[1] not in H or len(H) <= 1:
                    continue
                del t.columns[step[1]]
                H.remove(step[1])
                del C[step[1]]
                last = "del_column"
            elif k == "with_new_header":
                if step[1] == index or step[1] not in H or step[2] in H:
                    continue
                t = t.with_new_header(step[1], step[2])
                H[H.index(step[1])] = step[2]
                C[step[2]] = C.pop(step[1])
                last = "with_new_header"
            else:  # a read
                what = step[1]
                exp_rows, exp_hdr = rows(), order()
                got = None
                if what == "array":
                    got, exp = t.array.tolist(), exp_rows
                elif what == "to_list":
                    got, exp = table_rows(t), exp_rows
                elif what == "iter":
                    got, exp = [list(r.array.tolist()) for r in t], exp_rows
                elif what == "len_shape":
                    got, exp = [len(t), list(t.shape)], [len(exp_rows), [len(exp_rows), len(exp_hdr)]]
                elif what == "header":
                    got, exp = list(t.header), exp_hdr
                elif what == "columns":
                    got, exp = {h: t.columns[h].tolist() for h in t.header}, {h: C[h] for h in exp_hdr}
                    got, exp = [[h, got[h]] for h in got], [[h, exp[h]] for h in exp]
                elif what == "to_dict":
                    d = t.columns.to_dict()
                    got, exp = [[h, d[h]] for h in t.header], [[h, C[h]] for h in exp_hdr]
                elif what == "slice":
                    if not exp_rows:
                        continue
                    r = t[0 : max(1, len(exp_rows) - 1)]
                    got, exp = [list(r.header), table_rows(r)], [exp_hdr, exp_rows[0 : max(1, len(exp_rows) - 1)]]
                elif what == "to_csv":
                    got = py_csv_read(t.to_csv() + "\n", ",")
                    keep = [j for j, h in enumerate(exp_hdr) if all(isinstance(v, (str, int)) for v in C[h])]
                    if len(keep) != len(exp_hdr):
                        continue  # floats are formatted to `digits`
                    exp = [exp_hdr] + [[expected_text(v) for v in r] for r in exp_rows]
                else:  # write_tsv / write_csv / write_csv_gz
                    counter[0] += 1
                    ext = {"write_tsv": "tsv", "write_csv": "csv", "write_csv_gz": "csv.gz"}[what]
                    path = ctx.scratch / f"h{counter[0]}.{ext}"
                    t.write(str(path))
                    op = gzip.open if ext.endswith("gz") else open
                    with op(path, "rt", newline="") as f:
                        text = f.read()
                    path.unlink()
                    got = py_csv_read(text, "\t" if ext == "tsv" else ",")
                    exp = ([[title]] if title else []) + [exp_hdr] + [[expected_text(v) for v in r] for r in exp_rows] + ([[legend]] if legend else [])
                if canon(got) != canon(exp):
                    return (
                        f"history: {what} after {last} differs from the table's current state (steps so far: {show(done)})",
                        show(exp), show(got), f"history:{what.split('_')[0]}:after-{last}",
                    )
        except (SystemExit, KeyboardInterrupt):
            raise
        except Exception as e:  # noqa: BLE001
            return (f"history: step {step[:2]} after {last} raised {type(e).__name__}: {str(e)[:120]}", "no exception", repr(e)[:200],
                    f"history:{k if k != 'read' else step[1].split('_')[0]}:raises:{type(e).__name__}:after-{last}")
    return None


# --------------------------------------------------------------------------
# file round trips
# --------------------------------------------------------------------------
def expected_text(v):
    v = _py(v)
    if v is None:
        return ""
    if isinstance(v, bool):
        return "True" if v else "False"
    if isinstance(v, float):
        return repr(v)
    return str(v)


def loaded_text(w):
    w = _py(w)
    if isinstance(w, str):
        return w
    if isinstance(w, float):
        return repr(w)
    return str(w)


def parse_num(e):
    try:
        return int(e)
    except (ValueError, TypeError):
        pass
    try:
        return float(e)
    except (ValueError, TypeError):
        pass
    try:
        return complex(e)  # cast_str_to_numeric tries int, float, complex
    except (ValueError, TypeError):
        return None


def gen_file_table(rng):
    nrows = rng.choice([0, 1, 1, 2, 3, 4, 6, 10])
    ncols = rng.choice([1, 1, 2, 3, 4])
    hpool = ["a", "b", "c d", "x,y", 'q"z', "t\tu", "#n", "1", "id", "name", "v", "'k'", "A;B", "col 2"]
    names = rng.sample(hpool, ncols)
    td = gen_table(rng, nrows=nrows, names=names, file_mode=True, index=False)
    td["title"] = rng.choice(["", "", "", "T", "a title, with comma", "tab\ttitle", 'say "hi"'])
    td["legend"] = rng.choice(["", "", "", "L", "legend text, more", 'the "legend"\there'])
    return td


def is_plain(td):
    """tables a naive split-on-separator reader/writer can carry: non-empty cells without delimiters, quotes or
    blanks at the edges"""
    def ok(x):
        x = expected_text(x)
        return bool(x) and x == x.strip() and not any(c in x for c in ',\t;|"\'')

    return all(ok(h) for h in td["header"]) and all(ok(v) for c in td["cols"] for v in c) and not td.get("title") and not td.get("legend")


def gen_variant(rng, td):
    """how the table is written and loaded"""
    v = _gen_variant(rng, td)
    if rng.random() < 0.6:
        v["load_kw"] = {k: val for k, val in dict(
            static_column_types=rng.choice([True, False]), format=rng.choice(["simple", "md", "tsv"]), digits=rng.choice([1, 4, 9]),
            space=rng.choice([1, 4]), max_width=rng.choice([10, 1e100]),
        ).items() if rng.random() < 0.5}
    return v


def _gen_variant(rng, td):
    r = rng.random()
    nrows = len(td["cols"][0]) if td["cols"] else 0
    if r < 0.08:
        # the format is an ARGUMENT of write (the file name says nothing), the separator an argument of load_table
        return dict(fmt="txt", wformat=rng.choice(["tsv", "csv"]))
    if r < 0.14:
        # compress=True: write() appends .gz to the name
        return dict(fmt=rng.choice(["tsv", "csv"]), compress=True)
    if r < 0.3:
        sep = rng.choice([",", "\t", ";", "|"])
        v = dict(fmt="txt", sep=sep)
        if rng.random() < 0.3:
            v["delimiter_kw"] = True  # load_table(..., delimiter=sep) is the other spelling of sep=
        return v
    if r < 0.4:
        fmt = rng.choice(["tsv", "csv", "tsv.gz"])
        return dict(fmt=fmt, sep="\t" if fmt.startswith("tsv") else ",")
    if r < 0.55 and nrows >= 1 and not td.get("legend"):
        return dict(fmt=rng.choice(["tsv", "csv", "csv.gz"]), limit=rng.randint(1, nrows + 1))
    if r < 0.7:
        return dict(fmt=rng.choice(["tsv", "csv"]), inconsistent=rng.choice(["skip", "raise"]))
    if r < 0.85 and is_plain(td) and nrows:
        return dict(fmt=rng.choice(["tsv", "csv"]), reader=True)
    if is_plain(td) and nrows:
        return dict(fmt=rng.choice(["tsv", "csv"]), writer=True)
    return dict(fmt=rng.choice(FORMATS))


def check_file(ctx, td, fmt, variant=None, counter=[0]):
    """write td under ctx.scratch, load it back. returns None or (what, expected, got, sig)"""
    from cogent3 import load_table, make_table
    from cogent3.format.table import separator_formatter
    from cogent3.parse.table import FilteringParser

    v = variant or {}
    counter[0] += 1
    path = ctx.scratch / f"t{counter[0]}.{fmt}"
    td = dict(td)
    H = td["header"]
    base = fmt.split(".")[0]
    delimited = base in ("tsv", "csv", "txt")
    sep = v.get("sep")
    dsep = sep or {"tsv": "\t", "csv": ","}.get(base)
    index = td.get("index")
    make_index = None if td.get("index_at_load_only") else index
    vtag = "+".join(k for k in ("sep", "limit", "inconsistent", "reader", "writer", "wformat", "compress", "delimiter_kw") if k in v) or "plain"
    if v.get("wformat"):
        dsep = {"tsv": "\t", "csv": ","}[v["wformat"]]
    load_path = path
    try:
        t = make_table(header=list(H), data={h: list(c) for h, c in zip(H, td["cols"])}, title=td.get("title", ""), legend=td.get("legend", ""), index_name=make_index)
        if v.get("writer"):
            t.write(str(path), writer=separator_formatter(sep=dsep))
        elif v.get("wformat"):
            t.write(str(path), format=v["wformat"])
        elif v.get("compress"):
            t.write(str(path), compress=True)
            load_path = path.with_name(path.name + ".gz")
            if path.exists() or not load_path.exists():
                return (f"write({fmt}, compress=True) did not write {load_path.name}", load_path.name, sorted(x.name for x in path.parent.iterdir())[:5], f"write:{base}:compress:filename")
        elif sep is not None:
            t.write(str(path), sep=sep)
        else:
            t.write(str(path))
        if "inconsistent" in v:  # a line with a different number of fields in the middle of the data
            with open(path) as f:
                lines = f.read().split("\n")
            pos = (2 if td.get("title") else 1) + (1 if td["cols"] and td["cols"][0] else 0)
            lines.insert(pos, dsep.join(["zz"] * (len(H) + 1)))
            with open(path, "w") as f:
                f.write("\n".join(lines))
    except (SystemExit, KeyboardInterrupt):
        raise
    except Exception as e:  # noqa: BLE001
        return (f"write({fmt}, {vtag}) raised {type(e).__name__}: {e}", "file written", repr(e), f"write:{base}:{vtag}:raises:{type(e).__name__}")
    if not delimited and td.get("index_at_load_only"):
        index = None  # json / pickle carry the table's own index_name (none here)
    if index is not None:
        td = norm(td)
        H = td["header"]
    nrows = len(td["cols"][0]) if td["cols"] else 0
    try:
        kw = {}
        if delimited:
            kw = dict(with_title=bool(td.get("title")), with_legend=bool(td.get("legend")))
            if index is not None:
                kw["index_name"] = index
        if sep is not None:
            kw["delimiter" if v.get("delimiter_kw") else "sep"] = sep
        if v.get("wformat"):
            kw["sep"] = dsep
        if "limit" in v:
            kw["limit"] = v["limit"]
            td["cols"] = [c[: v["limit"]] for c in td["cols"]]
            nrows = len(td["cols"][0])
        if v.get("inconsistent") == "skip":
            kw["skip_inconsistent"] = True
        if v.get("reader"):
            kw = dict(reader=FilteringParser(sep=dsep, with_header=True), **({"index_name": index} if index is not None else {}))
        if delimited:
            kw.update(v.get("load_kw") or {})  # arguments that must not change the data
        r = load_table(str(load_path), **kw)
        if v.get("inconsistent") == "raise":
            return (f"load_table({fmt}) accepted a row with a different number of fields", "ValueError", list(r.shape), f"load:delimited:{vtag}:accepted")
        got_header = [str(h) for h in r.header]
        got_cols = [[_py(x) for x in r.columns[h].tolist()] for h in r.header]
        got_title, got_legend = r.title, r.legend
        got_shape = tuple(r.shape)
        got_index = r.index_name
    except (SystemExit, KeyboardInterrupt):
        raise
    except BaseException as e:  # noqa: BLE001
        if v.get("inconsistent") == "raise" and isinstance(e, ValueError) and "inconsistent" in str(e):
            return None
        return (
            f"load_table({fmt}, {vtag}) raised {type(e).__name__}: {str(e)[:120]} ({nrows} rows)",
            "table loaded",
            repr(e)[:200],
            f"load:{'delimited' if delimited else base}:raises:{type(e).__name__}:{'zero-rows' if nrows == 0 else 'rows'}",
        )
    finally:
        for pth in {path, load_path}:
            try:
                pth.unlink()
            except OSError:
                pass
    if got_index != index:
        return (f"{fmt}: index_name differs after round trip", index, got_index, f"load:{'delimited' if delimited else base}:index")
    kind = "delimited" if delimited else base
    if got_header != H:
        return (f"{fmt}: header differs after round trip", H, got_header, f"load:{kind}:header")
    if got_shape != (nrows, len(H)):
        return (f"{fmt}: shape differs after round trip", [nrows, len(H)], list(got_shape), f"load:{kind}:shape")
    if (got_title or "") != (td.get("title") or "") or (got_legend or "") != (td.get("legend") or ""):
        return (f"{fmt}: title/legend differ", [td.get("title"), td.get("legend")], [got_title, got_legend], f"load:{kind}:title-legend")
    for h, col, got in zip(H, td["cols"], got_cols):
        if not delimited:
            # typed formats: same values, text cells stay text, numbers stay numbers
            for v, w in zip(col, got):
                if canon(v) != canon(w) or isinstance(v, str) != isinstance(w, str) or (v is None) != (w is None):
                    return (f"{fmt}: cell differs after round trip (column {h!r})", show(col), show(got), f"load:{kind}:cell")
            continue
        E = [expected_text(v) for v in col]
        nums = [parse_num(e) for e in E]
        if E and all(n is not None for n in nums):
            # numeric column (every cell text is a number): restored as numbers
            all_int = all(isinstance(n, int) for n in nums)
            for e, n, w in zip(E, nums, got):
                okv = isinstance(w, (int, float, complex)) and not isinstance(w, bool) and (canon(w) == canon(n))
                if all_int and not isinstance(w, int):
                    okv = False  # a column of integer texts comes back as ints (text unchanged), not as 1.0
                # a column that was written from numbers must come back as numbers, whichever column it is (index
                # column included); a text column that merely looks numeric may also come back with its text
                if not okv and (col_kind(col) == "num" or loaded_text(w) != e):
                    return (f"{fmt}: numeric column {h!r} not restored as numbers", E, show(got), f"load:{kind}:numeric-column")
            continue
        for e, w in zip(E, got):
            if loaded_text(w) != e:
                cls = "other"
                if not eval_dangerous(e):
                    try:
                        ev = eval(e, {}, {})  # noqa: S307 - what cast_str_to_array does (names differ)
                        cls = "eval" if loaded_text(ev) == loaded_text(w) else "eval-env"
                    except Exception:  # noqa: BLE001
                        cls = "eval-env" if re.fullmatch(r"[A-Za-z_]\w*(\.\w+)*", e or "") else "other"
                return (
                    f"{fmt}: cell text {e!r} came back as {loaded_text(w)!r} (column {h!r}: {E})",
                    E,
                    show(got),
                    f"load:{kind}:text-changed:{cls}",
                )
    return None


def check_format_text(ctx, td, how):
    """to_csv() / to_tsv() / to_string(format=..) text of str/int/bool cells, parsed by the csv reader (CPython's and
    the Lean model's), must give back header and cell text"""
    from cogent3 import make_table

    H = td["header"]
    sep = "," if how in ("to_csv", "to_string:csv") else "\t" if how in ("to_tsv", "to_string:tsv") else ";"
    cols = [c for c in td["cols"]]
    keep = [j for j, c in enumerate(cols) if all(isinstance(v, (str, int)) for v in c)]  # (floats are formatted to `digits`)
    if not keep:
        return None
    H = [H[j] for j in keep]
    cols = [cols[j] for j in keep]
    nrows = len(cols[0])
    try:
        t = make_table(header=list(H), data={h: list(c) for h, c in zip(H, cols)})
        if how == "to_csv":
            text = t.to_csv()
        elif how == "to_tsv":
            text = t.to_tsv()
        elif how == "to_string:sep":
            text = t.to_string(sep=sep)
        else:
            text = t.to_string(format=how.split(":")[1])
    except Exception as e:  # noqa: BLE001
        return (f"{how} raised {type(e).__name__}: {e}", "text", repr(e), f"format:{how.split(':')[0]}:raises:{type(e).__name__}")
    exp = [list(H)] + [[expected_text(c[i]) for c in cols] for i in range(nrows)]
    got = py_csv_read(text + "\n", sep)
    model = ctx.driver.batch([("csv_read", dict(delim=sep, text=text + "\n"))])[0] if getattr(ctx, "driver", None) else got
    if model != got:
        return ("csv reader model differs from csv.reader on to_csv/to_tsv text", got, model, "format:model-vs-csv")
    if got != exp:
        cells = [x for r in exp for x in r]
        cls = "quote" if any('"' in x for x in cells) else "blank-edge" if any(x != x.strip() for x in cells) else "empty-row" if any(all(x == "" for x in r) for r in exp) else "other"
        return (f"{how}: text does not parse back to header + cell text", exp, got, f"format:{how.split(':')[0]}:{cls}")
    return None


# --------------------------------------------------------------------------
# csv layer: MODEL vs CPython csv
# --------------------------------------------------------------------------
def py_csv_write(rows, delim, lt):
    s = io.StringIO(newline="")
    w = csv.writer(s, delimiter=delim, lineterminator=lt)
    for r in rows:
        w.writerow(r)
    return s.getvalue()


def py_csv_read(text, delim):
    try:
        return [list(r) for r in csv.reader(io.StringIO(text, newline=""), dialect="excel", delimiter=delim)]
    except csv.Error as e:
        return {"err": "new-line character seen in unquoted field" if "new-line" in str(e) else str(e)}


def corr_csv(ctx, out):
    rng = ctx.subrng("csv")
    drv = ctx.driver
    # writer: exhaustive fields over a 6-letter alphabet, length <= 3, rows of <= 2 fields; then random
    alpha = ["a", '"', "\t", ",", "\n", "\r", " "]
    fields = [""] + ["".join(p) for n in (1, 2, 3) for p in itertools.product(alpha[:6], repeat=n)]
    wcases = []
    for delim, lt in (("\t", "\n"), (",", "\n"), (",", "\r\n")):
        rows1 = [[f] for f in fields]
        wcases.append((delim, lt, rows1 + [[]]))
        for _ in range(ctx.budget(30, 400)):
            rows = [[rng.choice(fields) for _ in range(rng.choice([0, 1, 1, 2, 3, 5]))] for _ in range(rng.choice([0, 1, 2, 4]))]
            wcases.append((delim, lt, rows))
        for _ in range(ctx.budget(60, 1500)):
            rows = [["".join(rng.choice(SAFE_CHARS + '"\n\r,\t') for _ in range(rng.choice([0, 0, 1, 2, 4, 9]))) for _ in range(rng.choice([1, 1, 2, 3, 6]))] for _ in range(rng.choice([1, 2, 5]))]
            wcases.append((delim, lt, rows))
    reps = drv.batch([("csv_write", dict(delim=d, lt=lt, rows=rows)) for d, lt, rows in wcases])
    texts = []
    for (d, lt, rows), rep in zip(wcases, reps):
        out["evaluations"] += 1
        want = py_csv_write(rows, d, lt)
        bump(out, "csv_writer", f"delim={d!r} lt={lt!r}")
        if rep != want:
            add_failure(out, "corr", "csv writer model differs from csv.writer", dict(delim=d, lt=lt, rows=rows), want, rep, confirmed=False)
        else:
            if any(any(c in f for c in (d, '"', "\n")) for r in rows for f in r):
                out["nontrivial"].add(("w", d, lt, want[:60]))
            texts.append((d, want, rows, lt))
    # reader on writer output (round trip through both implementations) ...
    rcases = [(d, t) for d, t, _, _ in texts]
    # ... exhaustively on every text of length <= 5 over {a " \t \n \r}, and on random malformed texts
    small = ["a", '"', "\t", "\n", "\r"]
    for n in range(0, ctx.budget(6, 7)):
        for p in itertools.product(small, repeat=n):
            rcases.append(("\t", "".join(p)))
    for _ in range(ctx.budget(1500, 30000)):
        d = rng.choice(["\t", ","])
        n = rng.choice([3, 6, 9, 14, 25])
        rcases.append((d, "".join(rng.choice(["a", "b", '"', '"', d, d, "\n", "\r", " ", "\r\n", 'x"', '""']) for _ in range(n))))
    reps = drv.batch([("csv_read", dict(delim=d, text=t)) for d, t in rcases])
    for (d, t), rep in zip(rcases, reps):
        out["evaluations"] += 1
        want = py_csv_read(t, d)
        if isinstance(rep, dict) and "err" in rep and isinstance(want, dict):
            bump(out, "csv_reader", "error")
            out["nontrivial"].add(("rerr", d, t[:40]))
            continue
        if rep != want:
            add_failure(out, "corr", "csv reader model differs from csv.reader", dict(delim=d, text=t), want, rep, confirmed=False)
        else:
            bump(out, "csv_reader", "ok")
            if '"' in t:
                out["nontrivial"].add(("r", d, t[:40]))
    # round trip of the real pair on the no-CR/LF domain of the theorem (sanity of the theorem's reading)
    for d, text, rows, lt in texts:
        if lt == "\n" and not any(("\n" in f or "\r" in f) for r in rows for f in r):
            back = py_csv_read(text, d)
            if back != rows:
                add_failure(out, "corr", "CPython csv does not round-trip on the theorem's domain", dict(delim=d, rows=rows), rows, back, confirmed=False)
    if len(out["samples"]) < 8:
        d, text, rows, lt = texts[len(texts) // 2]
        out["samples"].append(dict(kind="csv", delim=d, rows=rows, text=text))


CAST_TOKENS = [
    "0", "1", "-1", "+2", "10", "007", "123456789", "-0", " 3", "4 ", " 5 ", "\t6", "1_0", "1__0", "_1", "1_", "1_000_000",
    "1.5", "-2.25", ".5", "5.", "1e5", "1E5", "1e-3", "-1.5e+10", "1.e2", "1_0.5", "1e", "e5", ".", "-", "+", "", " ",
    "inf", "-inf", "Infinity", "nan", "NaN", "+nan", "in", "0x10", "1,5", "1 2", "--1", "+-1", "1.2.3", "1e5e2", "a", "None",
    "True", "12a", "9223372036854775807", "-9223372036854775808", "0.1", "1e308", "2.5e-5", "1_0e1_0", "1._5",
]  # (ASCII only: python's int() also accepts other Unicode decimal digits, the model does not)


def corr_cast_and_format(ctx, out):
    """the loader's int / float / text decision (`cast_str_to_numeric`) and the to_csv()/to_tsv() text vs the model"""
    import numpy
    from cogent3 import make_table
    from cogent3.util.table import cast_str_to_numeric

    rng = ctx.subrng("cast")
    cols = [[t] for t in CAST_TOKENS]
    for _ in range(ctx.budget(400, 6000)):
        pool = rng.choice([CAST_TOKENS, CAST_TOKENS[:17], CAST_TOKENS[17:30], ["1", "-3", "10", "2.5", "1e5", "7"]])
        cols.append([rng.choice(pool) for _ in range(rng.choice([1, 2, 3, 5]))])
    reps = ctx.driver.batch([("cast", dict(cells=c)) for c in cols])
    for cells, rep in zip(cols, reps):
        out["evaluations"] += 1
        try:
            r = cast_str_to_numeric(numpy.array(cells, dtype="U"))
            k = r.dtype.kind
            real = dict(kind="int", values=[int(x) for x in r.tolist()]) if k in "iu" else dict(kind="float") if k == "f" else dict(kind="complex") if k == "c" else dict(kind="text")
        except OverflowError:
            continue  # ints beyond int64 are outside the assumptions
        if real["kind"] == "complex":
            bump(out, "cast", "complex (not modelled)")
            continue
        bump(out, "cast", real["kind"])
        if rep != real:
            add_failure(out, "corr", "cast_str_to_numeric decision differs from the model", cells, rep, real, confirmed=False)
        elif real["kind"] != "text":
            out["nontrivial"].add(("cast", tuple(cells)))
    # to_csv / to_tsv text = the csv writer on header :: rows without the final newline
    reqs, want = [], []
    for _ in range(ctx.budget(150, 2000)):
        td = gen_file_table(rng)
        keep = [j for j, c in enumerate(td["cols"]) if all(isinstance(v, str) for v in c)]
        if not keep:
            continue
        H = [td["header"][j] for j in keep]
        cols_ = [td["cols"][j] for j in keep]
        t = make_table(header=list(H), data={h: list(c) for h, c in zip(H, cols_)})
        how = rng.choice(["to_csv", "to_tsv", "to_string"])
        sep = "," if how == "to_csv" else "\t" if how == "to_tsv" else rng.choice([",", "\t"])
        text = t.to_csv() if how == "to_csv" else t.to_tsv() if how == "to_tsv" else t.to_string(format="csv" if sep == "," else "tsv")
        nrows = len(cols_[0])
        reqs.append(("to_csv", dict(delim=sep, header=H, rows=[[c[i] for c in cols_] for i in range(nrows)])))
        want.append((how, text))
    for (cmd, rq), (how, text), rep in zip(reqs, want, ctx.driver.batch(reqs)):
        out["evaluations"] += 1
        bump(out, "format_text", how)
        if rep != text:
            add_failure(out, "corr", f"{how}() text differs from the csv-writer model", rq, rep, text, confirmed=False)
        elif rq["rows"]:
            out["nontrivial"].add(("fmt", how, text[:60]))


def corr_table_text(ctx, out):
    """Table.write (delimited) text and load_delimited vs the model's tableWrite / loadDelimited"""
    from cogent3 import make_table
    from cogent3.parse.table import load_delimited

    rng = ctx.subrng("tabletext")
    reqs, meta = [], []
    for i in range(ctx.budget(60, 600)):
        td = gen_file_table(rng)
        # the model layer is text only: make every column a str column that does not look numeric
        td["cols"] = [[gen_cell_text(rng) for _ in c] for c in td["cols"]]
        fmt = rng.choice(["tsv", "csv"])
        delim = "\t" if fmt == "tsv" else ","
        path = ctx.scratch / f"w{i}.{fmt}"
        t = make_table(header=list(td["header"]), data={h: list(c) for h, c in zip(td["header"], td["cols"])}, title=td["title"], legend=td["legend"])
        t.write(str(path))
        with open(path, newline="") as f:
            text = f.read()
        hdr, rows, title, legend = load_delimited(str(path), sep=delim, with_title=bool(td["title"]), with_legend=bool(td["legend"]))
        path.unlink()
        reqs.append(("table_write", dict(delim=delim, header=td["header"], rows=rows_of(td), title=td["title"], legend=td["legend"])))
        meta.append(("w", td, text))
        reqs.append(("load_delimited", dict(delim=delim, text=text, with_title=bool(td["title"]), with_legend=bool(td["legend"]))))
        meta.append(("r", td, dict(header=hdr, rows=rows, title=title, legend=legend)))
    for (kind, td, want), rep in zip(meta, ctx.driver.batch(reqs)):
        out["evaluations"] += 1
        bump(out, "table_text", kind)
        if rep != want:
            add_failure(out, "corr", f"table text layer ({'Table.write' if kind == 'w' else 'load_delimited'}) differs from model", show(td), want, rep, confirmed=False)
        elif td["cols"] and td["cols"][0]:
            out["nontrivial"].add(("tt", kind, str(want)[:80]))



# --------------------------------------------------------------------------
# load_delimited's row logic (header / with_title / with_legend / limit): the TRANSLATED definition, the hand model
# --------------------------------------------------------------------------
def gen_load_case(rng):
    """a small delimited text + every argument of load_delimited, incl. files too short for the requested title /
    header / legend lines, header=False, limit None / 0 / negative / beyond the end"""
    delim = rng.choice([",", "\t", ";"])
    nrec = rng.choice([0, 0, 1, 1, 2, 2, 3, 3, 4, 5, 7])
    width = rng.randint(1, 3)
    recs = [[gen_cell_text(rng) for _ in range(width if rng.random() < 0.9 else rng.randint(1, 4))] for _ in range(nrec)]
    r = rng.random()
    limit = None if r < 0.3 else rng.randint(-2, nrec + 2) if r < 0.9 else rng.choice([0, 1])
    return dict(delim=delim, text=py_csv_write(recs, delim, "\n"), recs=recs, header=rng.random() < 0.7,
                with_title=rng.random() < 0.35, with_legend=rng.random() < 0.35, limit=limit)


def load_req(c, hand=False):
    d = dict(delim=c["delim"], text=c["text"], header=c["header"], with_title=c["with_title"], with_legend=c["with_legend"], limit=c["limit"])
    if hand:
        d["hand"] = True
    return ("load_delimited", d)


def real_load(ctx, c, counter=[0]):
    from cogent3.parse.table import load_delimited

    counter[0] += 1
    path = ctx.scratch / f"ld{counter[0]}.txt"
    with open(path, "w", newline="") as f:
        f.write(c["text"])
    try:
        hdr, rows, title, legend = load_delimited(str(path), header=c["header"], sep=c["delim"], with_title=c["with_title"],
                                                  with_legend=c["with_legend"], limit=c["limit"])
        return dict(header=None if hdr is None else list(hdr), rows=[list(r) for r in rows], title=title, legend=legend)
    except Exception as e:  # noqa: BLE001
        return {"err": type(e).__name__}
    finally:
        path.unlink()


def load_tag(c):
    lim = c["limit"]
    n = len(c["recs"])
    return "+".join([
        "hdr" if c["header"] else "nohdr", "title" if c["with_title"] else "", "legend" if c["with_legend"] else "",
        "limit=" + ("none" if lim is None else "neg" if lim < 0 else "0" if lim == 0 else "short" if lim < n else "long"),
        f"recs={'0' if n == 0 else '1' if n == 1 else 'many'}",
    ]).replace("++", "+")


def load_oracle(c):
    """the docstring reading, only where it is unambiguous: limit None or >= 1 and a file that has the lines asked for.
    title = first line, header = next line, then at most `limit` lines (the legend line is the last line READ)"""
    recs = [list(r) for r in c["recs"]]
    if any("\n" in x or "\r" in x for r in recs for x in r):
        return None
    need = int(c["with_title"]) + int(c["header"]) + int(c["with_legend"])
    if c["limit"] is not None and c["limit"] < 1 or len(recs) < need + 1:
        return None
    title = "".join(recs.pop(0)) if c["with_title"] else ""
    hdr = recs.pop(0) if c["header"] else None
    if c["limit"] is not None:
        recs = recs[: c["limit"]]
    legend = "".join(recs.pop()) if c["with_legend"] else ""
    return dict(header=hdr, rows=recs, title=title, legend=legend)


def check_load(ctx, c, rep=None):
    """REAL load_delimited vs (1) the docstring oracle, (2) the Lean HAND model loadRowsH (what load_delimited_translated
    is about).  None or (what, expected, got, sig)"""
    real = real_load(ctx, c)
    want = load_oracle(c)
    if want is not None and real != want:
        return ("load_delimited returns other lines than the file's title / header / first `limit` rows / legend", show(want), show(real), f"loadrows:oracle:{load_tag(c)}")
    if getattr(ctx, "driver", None) is None:
        return None
    if rep is None:
        rep = ctx.driver.batch([load_req(c, hand=True)])[0]
    if rep != real:
        return ("load_delimited handles the records differently from the hand model (loadRowsH)", show(rep), show(real), f"loadrows:hand:{load_tag(c)}")
    return None


def corr_load_rows(ctx, out):
    """REAL load_delimited vs the csv reader model followed by the definition GENERATED from its source"""
    rng = ctx.subrng("loadrows")
    cases = [gen_load_case(rng) for _ in range(ctx.budget(400, 4000))]
    for c, rep in zip(cases, ctx.driver.batch([load_req(c) for c in cases])):
        out["evaluations"] += 1
        real = real_load(ctx, c)
        bump(out, "load_rows", load_tag(c).split("+recs")[0])
        bump(out, "load_rows_result", real.get("err", "ok"))
        if rep != real:
            add_failure(out, "corr", "load_delimited differs from the translated row logic (Gen/C20Load.lean)", show({k: v for k, v in c.items() if k != "recs"}), real, rep, confirmed=False)
        elif real.get("rows") or "err" in real:
            out["nontrivial"].add(("ld", repr(c)[:200]))

# --------------------------------------------------------------------------
# correspondence: MODEL vs REAL for table ops
# --------------------------------------------------------------------------
def model_req(case):
    op = case["op"]
    d = dict(op=op, t=table_j(case["t"]))
    if op == "sorted":
        # raw argument forms: the key columns are resolved by the TRANSLATED statements of Table.sorted
        d["op"] = "sorted_args"
        for k in ("columns", "reverse"):
            v = case[k]
            d[k] = {"tuple": list(v)} if v is not None and case.get(k + "_form") == "tuple" else v
        return ("op", d)
    if op in ("inner_join_args", "joined_args"):
        d["u"] = table_j(case["u"])
        d["cs"], d["co"] = arg_j(case["cs"]), arg_j(case["co"])
        for k in ("use_index", "inner", "col_prefix"):
            if k in case:
                d[k] = case[k]
        return ("op", d)
    if "u" in case:
        d["u"] = table_j(case["u"])
    for k in ("ks", "ko", "new", "select", "negate", "with_index", "cpred", "rows", "cb"):
        if k in case:
            d[k] = case[k]
    if "columns" in case:
        d["columns"] = _aslist(case["columns"])
    if op == "sorted":
        d["reverse"] = _aslist(case["reverse"]) or []
    if op == "getitem":
        c = case["cols"]
        d["cols"] = ["names", [c[1]]] if c[0] == "str" else c
    if "pred" in case:
        d["pred"] = pred_j(case["pred"])
    if "fn" in case:
        d["fn"] = fn_j(case["fn"])
    if "others" in case:
        d["others"] = [table_j(o) for o in case["others"]]
    return ("op", d)


def modelable(case):
    """cases the Lean model covers"""
    def ok_table(td):
        for c in td["cols"]:
            for v in c:
                if isinstance(v, float) and (v != v or math.isinf(v)):
                    return False
        return True

    tabs = [case["t"]] + ([case["u"]] if "u" in case else []) + case.get("others", [])
    if not all(ok_table(t) for t in tabs):
        return False
    if case["op"] == "getitem" and case["rows"][0] == "label":
        return False
    if any((case.get(k) or {}).get("form") == "ints" for k in ("cs", "co") if isinstance(case.get(k), dict)):
        return False
    if case["op"] == "transposed":
        t = norm(case["t"])
        si = t["header"].index(case["select"] or t["header"][0])
        return not any(isinstance(v, float) for v in t["cols"][si])
    return True


def compare_model_real(case, rep, real):
    """None or (what, expected(model), got(real))"""
    op = case["op"]
    if isinstance(rep, dict) and "error" in rep:
        return ("driver protocol error", rep, real)
    if not isinstance(rep, dict):
        rep = dict(value=rep) if "err" in real else rep
    if (isinstance(rep, dict) and "err" in rep) or "err" in real:
        me, re_ = (rep.get("err") if isinstance(rep, dict) else None), real.get("err")
        if me == re_:
            return None
        if op == "sorted" and me and re_:
            # keys outside the property's domain (object columns: None / mixed types): python offers no order for
            # them; which of AttributeError / TypeError surfaces first is not compared
            H = case["t"]["header"]
            cols, _ = sort_columns_spec(H, case["columns"], case["reverse"])
            if any(c in H and col_kind(case["t"]["cols"][H.index(c)]) == "obj" for c in cols):
                return None
        return (f"{op}: model error {me} vs real {re_}", rep, real)
    if op == "count":
        return None if rep == real.get("count") else ("count differs", rep, real)
    if op == "row_indices":
        return None if rep == real.get("mask") else ("row mask differs", rep, real)
    if "scalar" in real:
        ok = rep.get("rows") is not None and len(rep["rows"]) == 1 and len(rep["rows"][0]) == 1 and uncell(rep["rows"][0][0]) == canon(real["scalar"])
        return None if ok else ("getitem: single cell differs", rep, show(real))
    if op == "count_unique":
        m = Counter({tuple(uncell(x) for x in k): n for k, n in rep})
        return None if m == real["counts"] else (f"{op}: counts differ", show(sorted(m.items(), key=repr)), show(sorted(real["counts"].items(), key=repr)))
    if op == "distinct_values":
        m = {tuple(uncell(x) for x in k) for k in rep}
        return None if m == real["values"] and len(rep) == real["size"] else (f"{op}: values differ", show(sorted(m, key=repr)), show(sorted(real["values"], key=repr)))
    mrows = [tuple(uncell(x) for x in r) for r in rep["rows"]]
    rrows = canon_rows(real["rows"])
    if [str(h) for h in real["header"]] != rep["header"]:
        return (f"{op}: header differs", rep["header"], real["header"])
    if op == "sorted":
        # numpy's argsort is not stable: compare the multiset of rows and the sequence of key tuples
        H = norm(case["t"])["header"]
        cols, _ = sort_columns_spec(H, case["columns"], case["reverse"])
        idx = [H.index(c) for c in cols]
        if Counter(mrows) != Counter(rrows) or [tuple(r[i] for i in idx) for r in mrows] != [tuple(r[i] for i in idx) for r in rrows]:
            return ("sorted: key sequence / row multiset differs", show(mrows), show(rrows))
        return None
    if rep.get("ncols") == 0 or real["shape"][1] == 0:
        return None if not mrows and not rrows else (f"{op}: rows differ", show(mrows), show(rrows))
    if mrows != rrows:
        return (f"{op}: rows differ", show(mrows), show(rrows))
    if rep.get("index") != real.get("index"):
        return (f"{op}: index_name of the result differs", rep.get("index"), real.get("index"))
    return None


def malformed_case(rng):
    """inputs off the happy path: unknown column names, key dimension mismatch, partial reverse overlap,
    reversed bool / mixed columns"""
    k = rng.choice(["badcol", "dims", "partial", "revbool", "revobj", "mixedkey"])
    if k == "badcol":
        c = gen_case(rng, rng.choice(["filtered", "get_columns", "count_unique", "distinct_values"]))
        c["columns"] = c["columns"][:-1] + ["nope"]
        c["cols_form"] = "list"
        c["cb"] = "callable"
        if c["op"] == "filtered":
            c["pred"] = ["true"]
        return c
    if k == "dims":
        c = gen_case(rng, "inner_join")
        if len(c["ks"]) >= 1 and len(c["t"]["header"]) >= 2:
            extra = [h for h in c["t"]["header"] if h not in c["ks"]]
            if extra:
                c["ks"] = c["ks"] + [extra[0]]
        return c
    t = gen_table(rng, nrows=rng.choice([1, 2, 3, 5]), names=["i", "s", "b", "m"], kinds=["int", "str", "bool", "mixed"], index=False)
    if k == "partial":
        return dict(op="sorted", t=t, columns=["i", "s"], reverse=["s", "b"])
    if k == "revbool":
        return dict(op="sorted", t=t, columns=rng.choice([["b"], ["i", "b"], None]), reverse=["b"])
    if k == "revobj":
        # a None makes the object column incomparable for every sort (bool/int/float mixes are comparable in python)
        t["cols"][3][rng.randrange(len(t["cols"][3]))] = None
        return dict(op="sorted", t=t, columns=None, reverse=["m"])
    t = gen_table(rng, nrows=rng.choice([2, 3, 5]), names=["i", "s", "b", "m"], kinds=["int", "str", "bool", "mixed"], index=False)
    t["cols"][3][rng.randrange(len(t["cols"][3]))] = None  # a None among the first key column: every sort compares it
    return dict(op="sorted", t=t, columns=["m", "i"], reverse=None)


def correspondence(ctx):
    out = new_outcome(
        "table ops: seeded generated tables (int/float/str/bool/object columns, duplicate keys, 0..60 rows, None cells) "
        "x every op with generated arguments + a malformed stream (unknown columns, key-dimension mismatch, reverse of "
        "bool/object columns); csv: exhaustive fields/texts over a small alphabet incl. delimiter, quote, CR, LF + random; "
        "non-trivial = distinct cases whose result has >= 1 row or raises (ops), texts with quotes/delimiters (csv)"
    )
    replay_fixed_witnesses(ctx, out)
    corr_csv(ctx, out)
    corr_table_text(ctx, out)
    corr_load_rows(ctx, out)
    corr_cast_and_format(ctx, out)
    rng = ctx.subrng("corr-ops")
    cases = [gen_case(rng) for _ in range(ctx.budget(5000, 100000))]
    cases += [malformed_case(rng) for _ in range(ctx.budget(500, 6000))]
    cases = [c for c in cases if modelable(c)]
    reps = ctx.driver.batch([model_req(c) for c in cases])
    for case, rep in zip(cases, reps):
        out["evaluations"] += 1
        real = run_real(case)
        bump(out, "op", case["op"])
        bump(out, "rows_in", min(len(case["t"]["cols"][0]) if case["t"]["cols"] else 0, 20) // 5 * 5)
        if "err" in real:
            bump(out, "real_error", real["err"])
        d = compare_model_real(case, rep, real)
        if d:
            # The model mirrors the code as it is now, including the behaviour of the open findings (index column
            # first in `table[:, columns]`): every difference is a correspondence mismatch.  Violations of the row
            # oracle by the real code are found and reported by spec_check, independently of the model.
            add_failure(out, "corr", d[0], case, d[1], d[2], confirmed=False)
            continue
        if "err" in real or real.get("rows") or real.get("counts") or real.get("values"):
            out["nontrivial"].add((case["op"], repr(case)[:300]))
        if len(out["samples"]) < 8 and real.get("rows") and len(real["rows"]) > 2 and case["op"] in ("inner_join", "sorted"):
            out["samples"].append(dict(case=show(case), real=show(real)))
    return out


# --------------------------------------------------------------------------
# spec check: REAL vs ORACLE (also the failing-input search)
# --------------------------------------------------------------------------
def exhaustive_sort_cases():
    """small exhaustive domain: all 3-row str columns over {a, ab, b, ''} with reverse on/off, plus bool/int keys"""
    cases = []
    for vals in itertools.product(["a", "ab", "b", ""], repeat=3):
        for rv in (False, True):
            t = dict(header=["s", "n"], cols=[list(vals), [1, 2, 3]], title="")
            cases.append(dict(op="sorted", t=t, columns=None if rv else "s", reverse="s" if rv else None))
    for vals in itertools.product([True, False], repeat=3):
        for rv in (False, True):
            t = dict(header=["b", "n"], cols=[list(vals), [3, 1, 2]], title="")
            cases.append(dict(op="sorted", t=t, columns=["b", "n"], reverse=["b"] if rv else None))
    for vals in itertools.product([1, 2, 2.5], repeat=3):
        for rv in (False, True):
            t = dict(header=["x", "s"], cols=[list(vals), ["p", "q", "p"]], title="")
            cases.append(dict(op="sorted", t=t, columns=["s", "x"], reverse=["x"] if rv else []))
    return cases


def spec_check(ctx, budget):
    out = new_outcome(
        "REAL Table vs plain list-of-row-tuples oracle for sorted/inner_join/joined/cross_join/filtered/count_unique/"
        "distinct_values/appended/transposed/get_columns/with_new_column with generated arguments (small exhaustive sort "
        "box + seeded random), and write()/load_table() over tsv/csv/tsv.gz/csv.gz/json/pickle comparing header, title, "
        "legend, cell text and numeric columns; non-trivial = distinct (op, tables, args) with a non-empty result, "
        "distinct (format, table) with >= 1 row"
    )
    rng = ctx.subrng(f"spec{budget}")
    per_sig = Counter()

    def fail(what, inp, exp, got, sig):
        per_sig[sig] += 1
        bump(out, "spec_failure_sig", sig)
        if per_sig[sig] <= 3:  # keep a few of each class so that one class cannot crowd out another
            add_failure(out, "spec", what, inp, exp, got, confirmed=True, sig=sig)

    replay_fixed_witnesses(ctx, out)
    cases = exhaustive_sort_cases()
    cases += [gen_case(rng) for _ in range(3000 * budget)]
    for c in cases:
        if c["op"] == "cross_join" and rng.random() < 0.5:
            c["via_joined"] = True
    for case in cases:
        out["evaluations"] += 1
        real = run_real(case)
        bump(out, "spec_op", case["op"])
        f = check_op(case, real)
        if f:
            fail(f[0], dict(kind="op", case=case), f[1], f[2], f[3])
            continue
        if real.get("rows") or real.get("counts") or real.get("values"):
            out["nontrivial"].add((case["op"], repr(case)[:300]))
        if len(out["samples"]) < 6 and real.get("rows") and len(real["rows"]) > 2 and case["op"] not in ("sorted",):
            out["samples"].append(dict(case=show(case), result=show(real["rows"][:6])))
    # argument forms at the corners (empty list / tuple / '' as columns, tuples): REAL vs the Lean HAND model of the
    # argument resolution - the spec side of sorted_args_translated / join_keys_translated / joined_call_translated
    arng = ctx.subrng(f"args{budget}")
    acases = [c for c in (gen_arg_corner(arng) for _ in range(300 * budget)) if modelable(c)]
    areps = ctx.driver.batch([hand_req(c) for c in acases]) if getattr(ctx, "driver", None) is not None else []
    for acase, arep in zip(acases, areps):
        out["evaluations"] += 1
        bump(out, "arg_corner_op", acase["op"])
        f = check_args_vs_hand(ctx, acase, arep)
        if f:
            fail(f[0], dict(kind="args", case=acase), f[1], f[2], f[3])
        else:
            out["nontrivial"].add(("args", repr(acase)[:300]))
    # load_delimited's row logic: REAL vs the docstring oracle and vs the Lean HAND model (spec side of load_delimited_translated)
    lrng = ctx.subrng(f"loadrows{budget}")
    lcases = [gen_load_case(lrng) for _ in range(300 * budget)]
    lreps = ctx.driver.batch([load_req(c, hand=True) for c in lcases]) if getattr(ctx, "driver", None) is not None else [None] * len(lcases)
    for lcase, lrep in zip(lcases, lreps):
        out["evaluations"] += 1
        bump(out, "load_rows_spec", "oracle" if load_oracle(lcase) is not None else "hand-only")
        f = check_load(ctx, lcase, lrep)
        if f:
            fail(f[0], dict(kind="loadrows", case=lcase), f[1], f[2], f[3])
        else:
            out["nontrivial"].add(("loadrows", repr(lcase)[:200]))
    # ops outside the Lean model
    xrng = ctx.subrng(f"extra{budget}")
    for _ in range(400 * budget):
        c = gen_extra(xrng)
        out["evaluations"] += 1
        bump(out, "extra_op", c["kind"])
        f = check_extra(c)
        if f:
            fail(f[0], dict(kind="extra", case=c), f[1], f[2], f[3])
        else:
            out["nontrivial"].add(("extra", repr(c)[:300]))
    # histories on one table object
    hrng = ctx.subrng(f"hist{budget}")
    for _ in range(500 * budget):
        hcase = gen_history(hrng)
        out["evaluations"] += 1
        bump(out, "history_steps", len(hcase["steps"]))
        f = check_history(ctx, hcase)
        if f:
            fail(f[0], dict(kind="history", hist=hcase), f[1], f[2], f[3])
        else:
            out["nontrivial"].add(("hist", repr(hcase)[:300]))
    # file round trips
    frng = ctx.subrng(f"file{budget}")
    tables = [gen_file_table(frng) for _ in range(150 * budget)]
    # a few fixed shapes: zero rows, one empty cell, cells that are only delimiter / quote
    tables += [
        dict(header=["a", "b"], cols=[[], []], title="", legend=""),
        dict(header=["a"], cols=[[""]], title="", legend=""),
        dict(header=["a", "b"], cols=[["\t", ","], ['"', '""']], title="", legend=""),
        dict(header=["a", "b"], cols=[["x", ""], [1.5, None]], title="ti", legend="le"),
        dict(header=["a", "b"], cols=[["", "x", ""], ["", "y", ""]], title="", legend=""),  # rows of empty cells only
        dict(header=["a", "b"], cols=[[None, None], [None, None]], title="", legend=""),
        dict(header=["a,b", 'c"d', "e\tf"], cols=[[" lead", "trail "], ['"', "\t"], [",", '","']], title="", legend=""),
        dict(header=["k", "v"], cols=[["r1", "r2"], [1, 2]], title="", legend="", index="k"),
    ]
    for ti, td in enumerate(tables):
        if ti % 3 == 0 and td["header"] and "index" not in td and td["cols"]:  # typed formats keep index_name, delimited get it passed
            n = len(td["cols"][0]) if td["cols"] else 0
            j = frng.randrange(len(td["header"]))  # the index column need not be the first one, nor text
            td["cols"][j] = frng.choice([["row %d" % i for i in range(n)], [10 * i + 3 for i in range(n)], [i + 0.5 for i in range(n)],
                                         [str(7 * i + 10) for i in range(n)]])
            td["index"] = td["header"][j]
            if frng.random() < 0.5:
                td["index_at_load_only"] = True  # index_name is an argument of load_table, not a property of the written table
        runs = [(fmt, None) for fmt in FORMATS]
        for _ in range(3):
            v = gen_variant(frng, td)
            runs.append((v.pop("fmt"), v or None))
        for fmt, variant in runs:
            out["evaluations"] += 1
            bump(out, "file_format", fmt)
            if variant:
                bump(out, "file_variant", "+".join(sorted(variant)))
            f = check_file(ctx, td, fmt, variant)
            if f:
                fail(f[0], dict(kind="file", table=td, format=fmt, variant=variant), f[1], f[2], f[3])
            elif td["cols"] and td["cols"][0]:
                out["nontrivial"].add(("file", fmt, repr(variant), repr(td)[:300]))
        bump(out, "file_rows", len(td["cols"][0]) if td["cols"] else 0)
        # the formatting writers: to_csv / to_tsv / to_string(format=, sep=)
        if all(col_kind(c) in ("str", "empty") for c in td["cols"]) or ti % 3 == 0:
            for how in ("to_csv", "to_tsv", "to_string:csv", "to_string:tsv"):
                out["evaluations"] += 1
                f = check_format_text(ctx, td, how)
                if f:
                    fail(f[0], dict(kind="format", table=td, how=how), f[1], f[2], f[3])
    if tables and len(out["samples"]) < 8:
        out["samples"].append(dict(kind="file", table=show(tables[0]), formats=FORMATS))
    return out


# --------------------------------------------------------------------------
# findings
# --------------------------------------------------------------------------
def _check_input(ctx, inp):
    if inp.get("kind") == "history":
        f = check_history(ctx, inp["hist"])
    elif inp.get("kind") == "args":
        f = check_args_vs_hand(ctx, inp["case"])
    elif inp.get("kind") == "extra":
        f = check_extra(inp["case"])
    elif inp.get("kind") == "loadrows":
        f = check_load(ctx, inp["case"])
    elif inp.get("kind") == "format":
        f = check_format_text(ctx, inp["table"], inp["how"])
    elif inp.get("kind") == "file":
        f = check_file(ctx, inp["table"], inp["format"], inp.get("variant"))
    elif False:
        f = check_format_text(ctx, inp["table"], inp["how"])
    else:
        f = check_op(inp["case"])
    return f


def index_shifted(case):
    """the index column is among the columns a method selects with `table[:, columns]`, but not as the first one
    (so that moving it to the front changes the positions the caller relies on)"""
    op = case.get("op")
    t = case.get("t") or {}
    k = t.get("index")

    def shifted(idx, cols):
        return idx is not None and idx in cols and cols[0] != idx

    if op in ("filtered", "count", "row_indices", "with_new_column", "distinct_values"):
        return shifted(k, case.get("columns") or [])
    if op in ("inner_join", "natural_join"):
        u = case.get("u") or {}
        if op == "natural_join":
            ks = ko = [c for c in norm(t)["header"] if c in u.get("header", [])]
        else:
            ks, ko = case.get("ks") or [], case.get("ko") or []
        return shifted(k, ks) or shifted(u.get("index"), ko)
    if op == "transposed":
        return k is not None and case.get("select") not in (None, k)
    return False


def fixed_witnesses():
    """witnesses of findings that have been repaired in /repo: replayed first, a regression is a violation"""
    import json

    from .common import VERIF

    fp = VERIF / "known_findings.d" / "C20.json"
    if not fp.exists():
        return []
    return [(k["id"], k["witness"]) for k in json.loads(fp.read_text()).get("findings", []) if k.get("status") == "fixed" and "witness" in k]


def replay_fixed_witnesses(ctx, out):
    """regressions of repaired defects come first, so that the recorded witness itself becomes the replay"""
    if getattr(ctx, "_c20_fixed_done", False):
        return
    ctx._c20_fixed_done = True
    for fid, w in fixed_witnesses():
        out["evaluations"] += 1
        f = _check_input(ctx, w)
        bump(out, "fixed_witness_replayed", fid)
        if f:
            add_failure(out, "spec", f"regression of repaired defect {fid}: {f[0]}", w, f[1], f[2], confirmed=True, sig="regression:" + f[3])


def match_finding(f, k):
    if f.get("sig") not in k.get("sigs", []):
        return False
    r = k.get("restrict") or {}
    inp = f.get("input") or {}
    if r.get("kind") and inp.get("kind") != r["kind"]:
        return False
    if r.get("op") and (inp.get("case") or {}).get("op") != r["op"]:
        return False
    if r.get("ops") and (inp.get("case") or {}).get("op") not in r["ops"]:
        return False
    if r.get("self_indexed") and ((inp.get("case") or {}).get("t") or {}).get("index") is None:
        return False
    if r.get("index_shifted") and not index_shifted(inp.get("case") or {}):
        return False
    if r.get("variant_key") and r["variant_key"] not in (inp.get("variant") or {}):
        return False
    if r.get("zero_rows"):
        td = inp.get("table") or {}
        if not td.get("cols") or len(td["cols"][0]) != 0:
            return False
    if r.get("formats") and inp.get("format") not in r["formats"]:
        return False
    if r.get("empty_side"):
        case = inp.get("case") or {}
        sizes = [len(td["cols"][0]) if td.get("cols") else 0 for td in (case.get("t") or {}, case.get("u") or {})]
        if 0 not in sizes:
            return False
    if r.get("eval_raises_if_raises") and ":raises:" in f.get("sig", ""):
        # the exception must be the one eval() of some text cell raises
        want = f["sig"].split(":")[3]
        hit = False
        for col in (inp.get("table") or {}).get("cols", []):
            for v in col:
                if isinstance(v, str) and not eval_dangerous(v):
                    try:
                        eval(v, {}, {})  # noqa: S307
                    except Exception as e:  # noqa: BLE001
                        hit = hit or type(e).__name__ == want
        if not hit:
            return False
    return True


def check_witness(ctx, w):
    f = _check_input(ctx, w)
    if not f:
        return None
    out = new_outcome()
    add_failure(out, "spec", f[0], w, f[1], f[2], confirmed=True, sig=f[3])
    return out["failures"][0]


def replay(ctx, data):
    f = data.get("failing_input") or {}
    inp = f.get("input")
    if not inp:
        return False
    r = _check_input(ctx, inp)
    if r:
        print(r[0])
        print(" expected:", str(r[1])[:400])
        print(" got:     ", str(r[2])[:400])
    return bool(r)
