"""C02, histories on ONE likelihood-function object: read-only calls (some of which fail and raise) interleaved with
reading lnL.  The reported log-likelihood is a function of tree, alignment(s) and parameter values only, so

* lnL and the full-length likelihoods after ANY read-only call - successful or raising - equal the values before,
* they equal those of a fresh function built from get_param_rules(),
* (single locus) they equal the exact sum-product of the function's own psubs / root probabilities (Lean model),
* a SUCCESSFUL reconstruct_ancestral_seqs returns, per node, column and state s, the likelihood restricted to
  "node has state s": summed over s this is the column likelihood (theorem fixed_motif_sum), and each entry equals the
  model's restricted pruning value `lhFixed`.

Function kinds: plain, 2-3 rate bins, site-class HMM, 2-3 loci; every menu entry is called once per function, in random
order; the failing input records the calls made so far, so the replay repeats the history."""
from __future__ import annotations

import math

from . import c02_sites as S
from . import c02_util as U
from .common import add_failure, bump, rat, unrat

NO = "no-such-name"


def _slim(spec):
    return {k: v for k, v in spec.items() if k != "tree"} | {"tree": spec["tree"]}


def menu(spec):
    """read-only calls as JSON-able (method, args, kwargs); the bad-scope variants must raise, the others may"""
    edge0 = U.tree_edges(spec["tree"])[0]
    loc = spec["loci"][0]["name"] if spec.get("loci") else None
    calls = [
        ("reconstruct_ancestral_seqs", [], {}), ("reconstruct_ancestral_seqs", [], {"locus": NO}),
        ("likely_ancestral_seqs", [], {}), ("likely_ancestral_seqs", [], {"locus": NO}),
        ("simulate_alignment", [], {"sequence_length": 7}), ("simulate_alignment", [], {"locus": NO}),
        ("get_full_length_likelihoods", [], {}), ("get_full_length_likelihoods", [], {"locus": NO}),
        ("get_param_value", ["kappa"], {"edge": NO}), ("get_param_value", ["length"], {}), ("get_param_value", [NO], {}),
        ("get_param_value", ["lht"], {"locus": NO}), ("get_param_value", ["psubs"], {"edge": edge0, "bin": NO}),
        ("get_psub_for_edge", [NO], {}), ("get_psub_for_edge", [edge0], {}), ("get_psub_for_edge", [edge0], {"locus": NO}),
        ("get_rate_matrix_for_edge", [edge0], {}), ("get_rate_matrix_for_edge", [NO], {}),
        ("get_bin_probs", [], {}), ("get_bin_probs", [], {"locus": NO}), ("get_bin_prior_probs", [], {}),
        ("get_motif_probs_by_node", [], {}), ("get_motif_probs", [], {}), ("get_motif_probs", [], {"locus": NO}),
        ("get_statistics", [], {}), ("get_annotated_tree", [], {}), ("to_rich_dict", [], {}), ("get_param_rules", [], {}),
        ("__str__", [], {}), ("get_lengths_as_ens", [], {}), ("get_all_rate_matrices", [], {}), ("get_all_psubs", [], {}),
        ("get_G_statistic", [], {}), ("get_G_statistic", [], {"locus": NO}), ("get_log_likelihood", [], {}),
    ]
    if loc is not None:
        calls += [("reconstruct_ancestral_seqs", [], {"locus": loc}), ("likely_ancestral_seqs", [], {"locus": loc}),
                  ("get_full_length_likelihoods", [], {"locus": loc}), ("simulate_alignment", [], {"locus": loc, "sequence_length": 5})]
    return [dict(method=m, args=a, kwargs=k) for m, a, k in calls]


def rand_history_problem(rng, name, kind):
    if kind == "loci":
        spec = S.rand_loci_problem(rng, name, rng.choice([2, 3]))
    elif kind == "hmm":
        spec = S.rand_hmm_problem(rng, name)
    else:
        spec = U.rand_problem(rng, name, ntips=rng.randint(3, 5), ncols=rng.randint(3, 8), bins=rng.choice([2, 3]) if kind == "bins" else 1,
                              scoped=False, zero_ok=False, unary=False)
    spec["history_kind"] = kind
    return spec


def _build(spec, rng):
    if spec.get("hmm"):
        return S._build_hmm(spec, rng)
    if spec.get("loci"):
        lf = U.build_lf(spec, None)
        if not spec["rules"] and rng is not None:
            spec["rules"] = S._loci_rules(rng, lf, spec)
            U.apply_rules(lf, spec["rules"])
        return lf
    return U.build_lf(spec, rng)


def _state(lf, spec):
    import numpy

    lnl = float(lf.lnL)
    if spec.get("loci"):
        fl = numpy.concatenate([numpy.array(lf.get_full_length_likelihoods(locus=l["name"]), dtype=float) for l in spec["loci"]])
    elif spec.get("hmm"):
        fl = numpy.array([lnl])
    else:
        fl = numpy.array(lf.get_full_length_likelihoods(), dtype=float)
    return lnl, fl


def _same(a, b, rel):
    import numpy

    return abs(a[0] - b[0]) <= rel * abs(a[0]) and a[1].shape == b[1].shape and bool(numpy.allclose(a[1], b[1], rtol=rel, atol=0))


def _check_ancestral(ctx, lf, spec, res, out, locus=None):
    """a successful reconstruction: sum over the states of a node = column likelihood; entries = model `lhFixed`"""
    import numpy

    kw = {} if locus is None else {"locus": locus}
    fl = numpy.array(lf.get_full_length_likelihoods(**kw), dtype=float)
    seqs = spec["seqs"] if locus is None else next(l["seqs"] for l in spec["loci"] if l["name"] == locus)
    nodes = {}
    for node, arr in res.items():
        a = numpy.array(arr.array, dtype=float)
        nodes[node] = a
        out["evaluations"] += 1
        bump(out, "ancestral_nodes_checked")
        if a.shape[0] != len(fl) or not numpy.allclose(a.sum(axis=1), fl, rtol=1e-9, atol=0):
            add_failure(out, "spec", "reconstruct_ancestral_seqs: the per-state likelihoods of a node do not sum to the column likelihood",
                        dict(_slim(spec), check="history", node=node), [float(x) for x in fl[:4]],
                        [float(x) for x in a.sum(axis=1)[:4]], sig="ancestral:sum-over-states")
            return
    if spec.get("hmm"):
        return
    # against the exact sum-product restricted to "node v has state s".  Two expressions of it inside the Lean model:
    # (1) `lhFixed` (Model/PruneFixed.lean, driver `lfpin`): the mask `result[:, motif != s] = 0` of
    #     PartialLikelihoodProductDefnFixedMotif on the node addressed by its path from the root - tied HERE to the real code
    #     (rate bins included); theorem fixed_motif_sum: these values sum over s to the column likelihood;
    # (2) an extra leaf below v with the identity as edge matrix and the indicator of s as profile, evaluated by the plain
    #     pruning model (single bin); theorem fixed_motif_eq_pin_leaf says (1) = (2) - compared exactly below.
    import copy

    ex = U.extract(lf, dict(spec, seqs=seqs), profiles="oracle", locus=locus)
    m = ex["m"]
    names = {-1: "root"} | dict(enumerate(ex["edges"]))
    eye = numpy.eye(m)
    new_e, new_l, sym0 = len(ex["edges"]), len(ex["tips"]), len(ex["symbols"])

    def path_to(t, target, acc=()):
        if "c" not in t:
            return None
        if t["e"] == target:
            return list(acc)
        for i, c in enumerate(t["c"]):
            p = path_to(c, target, acc + (i,))
            if p is not None:
                return p
        return None

    _, body = U.lean_request(ex, [])
    pin_keys = [(e, name) for e, name in names.items() if name in nodes]
    pin_replies = ctx.driver.batch([("lfpin", dict(body, path=path_to(ex["tree"], e))) for e, _ in pin_keys] + [U.lean_request(ex, [])])
    plain_rep = pin_replies[-1]
    direct = {}
    for (e, name), rep in zip(pin_keys, pin_replies):
        if "error" in rep or "error" in plain_rep or not rep.get("internal"):
            add_failure(out, "corr", "driver error (lfpin)", _slim(spec), "reply", rep.get("error", rep.get("internal")), confirmed=False)
            return
        vals = [[unrat(x) for x in row] for row in rep["fixed"]]
        direct[name] = vals
        bump(out, "ancestral_direct_model", f"bins={len(ex['bins'])}:depth={len(path_to(ex['tree'], e))}")
        # theorem fixed_motif_sum, executed: exact equality inside the model
        plain_lh = [unrat(x) for x in plain_rep["lh"]]
        if [sum(vals[st][u] for st in range(m)) for u in range(len(plain_lh))] != plain_lh:
            add_failure(out, "corr", "Lean model: lhFixed summed over the states differs from lh (contradicts fixed_motif_sum)", _slim(spec),
                        [str(x) for x in plain_lh[:3]], None, confirmed=False)
            return
        a = nodes[name]
        for st in range(m):
            for i, u in enumerate(rep["index"]):
                out["evaluations"] += 1
                if not U.close(float(a[i, st]), vals[st][u], 1e-9):
                    add_failure(out, "spec", "reconstruct_ancestral_seqs: likelihood restricted to one state of a node differs from the restricted sum-product",
                                dict(_slim(spec), check="history", node=name, column=i, state=st), float(vals[st][u]), float(a[i, st]),
                                sig="ancestral:restricted-lh")
                    return
    if len(ex["bins"]) > 1:
        out["nontrivial"].add((spec["model"], spec["seed"], "ancestral-bins"))
        return
    reqs, keys = [], []

    def pinned(t, target):
        if "c" not in t:
            return t
        t2 = dict(t, c=[pinned(c, target) for c in t["c"]])
        if t["e"] == target:
            t2["c"] = t2["c"] + [{"l": new_l, "e": new_e}]
        return t2

    for e, name in names.items():
        if name not in nodes:
            continue
        for st in range(m):
            ex2 = dict(ex, tree=pinned(ex["tree"], e), bins=[dict(P=list(b["P"]) + [eye], pi=b["pi"]) for b in ex["bins"]],
                       symbols=ex["symbols"] + [[f"state{k}", [1 if k == j else 0 for j in range(m)]] for k in range(m)],
                       cols=[c + [sym0 + st] for c in ex["cols"]])
            reqs.append(U.lean_request(ex2, []))
            keys.append((name, st))
    replies = ctx.driver.batch(reqs + [U.lean_request(ex, [])])
    plain = [unrat(x) for x in replies[-1].get("lh", [])]
    totals = {}
    for (name, st), rep in zip(keys, replies):
        if "error" in rep:
            add_failure(out, "corr", "driver error (pinned tree)", _slim(spec), "reply", rep["error"], confirmed=False)
            return
        want = [unrat(x) for x in rep["lh"]]
        if want != direct[name][st]:
            add_failure(out, "corr", "Lean model: lhFixed differs from the pin-leaf evaluation (contradicts fixed_motif_eq_pin_leaf)", _slim(spec),
                        [str(x) for x in want[:3]], [str(x) for x in direct[name][st][:3]], confirmed=False)
            return
        # exact, inside the model: the restricted values of a node sum over its states to the unrestricted likelihood
        # (ambiguity_is_set_sum for the pin leaf + an all-compatible identity-edge leaf being neutral)
        tot = totals.setdefault(name, [0] * len(want))
        for u, w in enumerate(want):
            tot[u] += w
        if st == m - 1 and tot != plain:
            add_failure(out, "corr", "Lean model: restricted likelihoods of a node do not sum to the column likelihood", _slim(spec),
                        [str(x) for x in plain[:3]], [str(x) for x in tot[:3]], confirmed=False)
            return
        a = nodes[name]
        for i, u in enumerate(rep["index"]):
            out["evaluations"] += 1
            if not U.close(float(a[i, st]), want[u], 1e-9):
                add_failure(out, "spec", "reconstruct_ancestral_seqs: likelihood restricted to one state of a node differs from the restricted sum-product",
                            dict(_slim(spec), check="history", node=name, column=i, state=st), float(want[u]), float(a[i, st]),
                            sig="ancestral:restricted-lh")
                return
    out["nontrivial"].add((spec["model"], spec["seed"], "ancestral"))


def run_history(ctx, spec, rng, out, calls=None):
    import numpy

    try:
        lf = _build(spec, rng)
        before = _state(lf, spec)
    except Exception as e:
        add_failure(out, "spec", "likelihood function construction raised", dict(_slim(spec), check="history"), "a likelihood function",
                    f"{type(e).__name__}: {e}", sig=f"history-build-raised:{type(e).__name__}")
        return
    if calls is None:
        calls = menu(spec)
        rng.shuffle(calls)
    done = []
    kind = spec.get("history_kind", "plain")
    for c in calls:
        done.append(c)
        label = f"{c['method']}({','.join(f'{k}=' + ('bad' if v == NO else 'ok') for k, v in c['kwargs'].items())}{'bad' if NO in c['args'] else ''})"
        try:
            fn = lf.__str__ if c["method"] == "__str__" else getattr(lf, c["method"])
            res = fn(*c["args"], **c["kwargs"])
            outcome = "ok"
        except Exception as e:  # a read-only request the function cannot satisfy
            res, outcome = None, type(e).__name__
        bump(out, "history_calls", f"{kind}:{label}:{'ok' if outcome == 'ok' else 'raised'}")
        out["evaluations"] += 1
        try:
            after = _state(lf, spec)
        except Exception as e:
            add_failure(out, "spec", "lnL cannot be read any more after a read-only call", dict(_slim(spec), check="history", calls=done),
                        before[0], f"{type(e).__name__}: {e}", sig=f"history:{c['method']}:{'ok' if outcome == 'ok' else 'raised'}:unreadable")
            return
        if not _same(before, after, 1e-12):
            bad = int(numpy.flatnonzero(~numpy.isclose(before[1], after[1], rtol=1e-12, atol=0))[0]) if before[1].shape == after[1].shape and not numpy.allclose(before[1], after[1], rtol=1e-12, atol=0) else None
            add_failure(out, "spec", f"lnL changed after the read-only call {label} ({'returned' if outcome == 'ok' else 'raised ' + outcome}); tree, alignment and parameter values are the same",
                        dict(_slim(spec), check="history", calls=done), dict(lnL=before[0]), dict(lnL=after[0], first_changed_column=bad),
                        sig=f"history:{c['method']}:{'ok' if outcome == 'ok' else 'raised'}:{kind}")
            return
        if outcome == "ok" and c["method"] == "reconstruct_ancestral_seqs" and (not spec.get("loci") or c["kwargs"].get("locus")):
            _check_ancestral(ctx, lf, spec, res, out, locus=c["kwargs"].get("locus"))
    # a fresh function from the reported parameter rules
    try:
        rules = lf.get_param_rules()
        fresh = U.build_lf(dict(spec, rules=[], mprobs=None, loci=[dict(l, mprobs=None) for l in spec["loci"]] if spec.get("loci") else None), None)
        fresh.apply_param_rules(rules)
        again = _state(fresh, spec)
    except Exception as e:
        add_failure(out, "spec", "a fresh likelihood function cannot be built from get_param_rules()", dict(_slim(spec), check="history", calls=done),
                    "a likelihood function", f"{type(e).__name__}: {e}", sig=f"history:fresh-raised:{type(e).__name__}")
        return
    out["evaluations"] += 1
    if not _same(again, _state(lf, spec), 1e-9):
        add_failure(out, "spec", "lnL after a history of read-only calls differs from a fresh function built from get_param_rules()",
                    dict(_slim(spec), check="history", calls=done), dict(lnL=again[0]), dict(lnL=float(lf.lnL)), sig=f"history:fresh:{kind}")
        return
    out["nontrivial"].add((spec["model"], spec["seed"], "history", kind))


def spec_stream(ctx, out, rng, budget):
    nuc = [m for m, k in U.model_kinds().items() if k == "nucleotide" and m not in U.DISCRETE]
    kinds = ["loci", "plain", "bins", "hmm"]
    for i in range(4 * budget):
        kind = kinds[i % 4]
        name = nuc[(i // 4 + ctx.seed) % len(nuc)]
        spec = rand_history_problem(rng, name, kind)
        try:
            with U.deadline(120):
                run_history(ctx, spec, rng, out)
        except TimeoutError as e:
            add_failure(out, "spec", "a history of read-only calls on one likelihood function does not terminate", dict(_slim(spec), check="history"),
                        "results", str(e), sig=f"history:timeout:{kind}")


def ancestral_stream(ctx, out, rng, budget):
    """dedicated problems for the fixed-motif model (Model/PruneFixed.lean): deeper trees (4-7 tips, polytomies), one or
    several rate bins, all nucleotide models in rotation + the 16-state dinucleotide model once; the only call is
    reconstruct_ancestral_seqs, checked node by node against `lhFixed` (and the pin-leaf evaluation)"""
    nuc = [m for m, k in U.model_kinds().items() if k == "nucleotide"]
    for i in range(3 * budget):
        name = U.DINUC if i == 2 else nuc[(i + 2 * ctx.seed) % len(nuc)]
        bins = 1 if (i % 2 == 0 or name in U.DISCRETE or name == U.DINUC) else rng.choice([2, 3, 4])
        spec = U.rand_problem(rng, name, ntips=rng.randint(3, 4) if name == U.DINUC else rng.randint(4, 7), ncols=rng.randint(2, 6), bins=bins,
                              scoped=False, zero_ok=False, unary=False)
        spec["history_kind"] = "bins" if bins > 1 else "plain"
        try:
            with U.deadline(120):
                run_history(ctx, spec, rng, out, calls=[dict(method="reconstruct_ancestral_seqs", args=[], kwargs={})])
        except TimeoutError as e:
            add_failure(out, "spec", "reconstruct_ancestral_seqs does not terminate", dict(_slim(spec), check="history"),
                        "results", str(e), sig="history:timeout:ancestral")


def recheck(ctx, inp, out):
    if inp.get("check") != "history":
        return False
    spec = {k: v for k, v in inp.items() if k not in ("check", "calls", "node", "column", "state")}
    run_history(ctx, spec, None, out, calls=inp.get("calls") or menu(spec))
    return True
