"""C06 — Sequence file formats round-trip and all parsers of a format agree."""
from __future__ import annotations

import itertools
import os
import string
import textwrap

from .common import LEAN, SRC, add_failure, bump, new_outcome

PROP = "C06"
PROPS_FILES = ["CogentModel/Props/C06.lean", "CogentModel/Props/C06Clustal.lean", "CogentModel/Props/C06Gen.lean",
               "CogentModel/Props/C06Decor.lean", "CogentModel/Props/C06GenLoop.lean",
               "CogentModel/Props/C06Interleaved.lean", "CogentModel/Props/C06GenSuffix.lean"]
LEAN_TARGETS = ["CogentModel.Props.C06", "CogentModel.Props.C06Clustal", "CogentModel.Props.C06Gen", "CogentModel.Props.C06Decor",
                "CogentModel.Props.C06GenLoop", "CogentModel.Props.C06Interleaved",
                "CogentModel.Props.C06GenSuffix"]
DRIVER = "drv_c06"
TRUSTED = [
    "hand-written models lean/CogentModel/Model/Splitlines.lean (str.splitlines, util/io.iter_splitlines loop) and "
    "Model/SeqFormats.lean (seqs_to_fasta, GDE/PAML/PHYLIP formatters, _strict_parser, _faster_parser, "
    "iter_fasta_records(bytes), PamlParser, MinimalPhylipParser) and Model/Clustal.lean (clustal_from_alignment, "
    "is_clustal_seq_line, delete_trailing_number, last_space, LabelLineParser, ClustalParser), tied by behavioural "
    "correspondence each run",
    "textwrap.wrap is an external: the FASTA theorems hold for ANY wrapping into non-empty lines; its contract "
    "(concatenation = input, no empty line, width respected) is checked on every generated sequence",
    "the chunks infile.read(chunk_size) returns are recorded from the real file object (a recording proxy around open_)",
    "translator/c06_str2lean.py (ast only; closed fragment, anything else is a reported translation problem) and the str primitives "
    "of Model/PyStr.lean it emits; conventions T1 (and/or -> truth value), T2 (s[0], l[-1] of an empty operand -> ''), T3 (int(tok) "
    "succeeds iff pyIntOk tok) -- pyIntOk, is_clustal_seq_line, delete_trailing_number, last_space are also tied behaviourally; T4 "
    "(`a, b = list(map(int, l))` uses the model's pyInt), T5 (get_format_suffixes is translated as a function of Path.suffix / Path.suffixes)",
    "translator/c06_loop2lean.py (ast only; generator loops `for line in data` with yield/raise/continue -> structural recursion returning "
    "the yielded list or the first error; conventions L1 label_to_name = identity, L2 `s[0] in t` of an empty s is false; the three header "
    "statements of PamlParser before its loop are NOT translated (listed verbatim in the translator; any other text is a translation problem))",
]
ASSUMPTIONS = [
    "JSON, gzip/bz2/zip, chardet and open_ are exercised by the real-code round trip, not modelled",
    "GenBank minimal vs rich parser: exercised on generated flat-file records only (no theorem)",
    "names are printable ASCII without leading/trailing blank; sequences are non-empty over the moltype alphabets (upper case)",
    "iter_splitlines theorem assumes '\\n' is the only line-boundary character of the decoded text "
    "(form feed etc. make the real loop chunk dependent: theorem splitlines_formfeed_counter; not well-formed sequence data)",
]

GEN_PATH = LEAN / "CogentModel" / "Gen" / "C06Dispatch.lean"
GEN_STR_PATH = LEAN / "CogentModel" / "Gen" / "C06Str.lean"
GEN_LOOP_PATH = LEAN / "CogentModel" / "Gen" / "C06Loop.lean"
_gen_state = {}


def generate(ctx):
    """translator step (every run): the compression dispatch tables of util/io.py -> Gen/C06Dispatch.lean; the pure string
    functions of parse/clustal.py and parse/phylip.py -> Gen/C06Str.lean (proved equal to the hand models in Props/C06Gen.lean)"""
    from translator import c06_dispatch2lean, c06_loop2lean, c06_str2lean

    table, suffixes, problems, changed = c06_dispatch2lean.generate(SRC, GEN_PATH)
    _gen_state.update(table=table, suffixes=suffixes)
    if changed:
        ctx.notes.append("Gen/C06Dispatch.lean was rewritten (dispatch tables in util/io.py changed or first run)")
    problems = list(problems or [])
    p2, changed2 = c06_str2lean.generate(SRC, GEN_STR_PATH)
    if changed2:
        ctx.notes.append("Gen/C06Str.lean was rewritten (is_clustal_seq_line / delete_trailing_number / is_blank / _split_line / _get_header_info / get_format_suffixes changed or first run)")
    p3, changed3 = c06_loop2lean.generate(SRC, GEN_LOOP_PATH)
    if changed3:
        ctx.notes.append("Gen/C06Loop.lean was rewritten (_faster_parser / _strict_parser / PamlParser loop changed or first run)")
    return problems + [f"c06_str2lean: {x}" for x in p2] + [f"c06_loop2lean: {x}" for x in p3]


PRINTABLE = [chr(i) for i in range(32, 127)]
NAMEY = string.ascii_letters + string.digits + "_>|. -%#:;,="
ALPH = {"dna": "ACGT", "rna": "ACGU", "protein": "ACDEFGHIKLMNPQRSTVWY"}
GAPPY = {"dna": "ACGT" + "--?NRY", "rna": "ACGU" + "--?NRY", "protein": "ACDEFGHIKLMNPQRSTVWY" + "--?X"}
ERRS = ("RecordError", "ValueError", "AttributeError", "IndexError", "TypeError")


# --------------------------------------------------------------------------
# generators
# --------------------------------------------------------------------------
def gen_name(rng, wf=True):
    n = rng.choice([1, 1, 2, 3, 5, 8, 9, 10, 11, 12, 20])
    pool = PRINTABLE if rng.random() < 0.4 else NAMEY
    for _ in range(200):
        s = "".join(rng.choice(pool) for _ in range(n))
        if not wf:
            return rng.choice(["", " ", "  "]) + s + rng.choice(["", " ", "\t"])
        if s and s.strip() == s:
            return s
    return "n" * n


def trunc_name(n):
    """the documented PHYLIP truncation (Spec.SeqRecords.truncName)"""
    return n[:9].rstrip(" ")


def gen_names(rng, k, distinct_trunc=False, wf=True):
    names = []
    for _ in range(1000):
        if len(names) == k:
            break
        n = gen_name(rng, wf)
        if n in names:
            continue
        if distinct_trunc and trunc_name(n) in [trunc_name(m) for m in names]:
            continue
        names.append(n)
    return names


WRAP = 60
LENS = [1, 2, 3, 7, WRAP - 1, WRAP, WRAP + 1, 2 * WRAP - 1, 2 * WRAP, 2 * WRAP + 1, 3 * WRAP]


def gen_seq(rng, mt, L, gaps):
    a = GAPPY[mt] if gaps else ALPH[mt]
    return "".join(rng.choice(a) for _ in range(L))


def gen_recset(rng, ragged=False, distinct_trunc=True, small=False):
    mt = rng.choice(["dna", "dna", "rna", "protein"])
    k = rng.randint(1, 5)
    names = gen_names(rng, k, distinct_trunc=distinct_trunc)
    gaps = rng.random() < 0.5
    lens = [1, 2, 3, 4, 5, 7, 8, 9, 11, 12, 13] if small else LENS
    L = rng.choice(lens)
    seqs = [gen_seq(rng, mt, rng.choice(lens) if ragged else L, gaps) for _ in names]
    return mt, names, seqs


# --------------------------------------------------------------------------
# running the real code (exceptions -> class name)
# --------------------------------------------------------------------------
def _exc(f):
    try:
        return f()
    except Exception as e:  # noqa: BLE001
        return {"err": type(e).__name__}


def _recs(it):
    return [[str(a), str(b)] for a, b in it]


def real_strict(lines, lc=">"):
    from cogent3.parse.fasta import MinimalFastaParser

    return _exc(lambda: _recs(MinimalFastaParser(list(lines), strict=True, label_characters=lc)))


def real_faster(lines, lc=">"):
    from cogent3.parse.fasta import MinimalFastaParser

    return _exc(lambda: _recs(MinimalFastaParser(list(lines), strict=False, label_characters=lc)))


def real_bytes(text):
    from cogent3.parse.fasta import iter_fasta_records

    return _exc(lambda: _recs(iter_fasta_records(text.encode("utf8"))))


def real_paml(lines):
    from cogent3.parse.paml import PamlParser

    return _exc(lambda: _recs(PamlParser(list(lines))))


def real_phylip(lines):
    from cogent3.parse.phylip import MinimalPhylipParser

    return _exc(lambda: _recs(MinimalPhylipParser(list(lines))))


def real_format(fmt, names, seqs, bs):
    from cogent3.format.alignment import FORMATTERS

    data = dict(zip(names, seqs))
    return _exc(lambda: FORMATTERS[fmt](data, block_size=bs, order=list(names)))


class _RecordingFile:
    def __init__(self, f, chunks):
        self._f, self._chunks = f, chunks

    def read(self, n=None):
        d = self._f.read(n) if n is not None else self._f.read()
        self._chunks.append(d)
        return d

    def __enter__(self):
        self._f.__enter__()
        return self

    def __exit__(self, *a):
        return self._f.__exit__(*a)

    def __getattr__(self, k):
        return getattr(self._f, k)


def real_iter_splitlines(path, chunk_size):
    """(lines yielded, chunks the loop obtained from infile.read)"""
    from cogent3.util import io as c3io

    chunks = []
    orig = c3io.open_

    def rec_open(*a, **kw):
        return _RecordingFile(orig(*a, **kw), chunks)

    c3io.open_ = rec_open
    try:
        lines = list(c3io.iter_splitlines(path, chunk_size=chunk_size))
    finally:
        c3io.open_ = orig
    return lines, chunks


def real_streamed(which, path, chunk_size):
    """the REAL composition parser(iter_splitlines(path, chunk_size)).  For gde/paml/phylip this is the registry's
    LineBasedParser itself (parse/sequence.py) with its iter_splitlines bound to the small chunk size; for FASTA the
    line based MinimalFastaParser fed with the stream.  Returns (records | {"err":..}, chunks read from the file)."""
    from cogent3.parse import sequence as pseq
    from cogent3.parse.fasta import MinimalFastaParser
    from cogent3.util import io as c3io

    chunks = []
    orig_open, orig_iter = c3io.open_, pseq.iter_splitlines

    def rec_open(*a, **kw):
        return _RecordingFile(orig_open(*a, **kw), chunks)

    c3io.open_ = rec_open
    pseq.iter_splitlines = lambda p: orig_iter(p, chunk_size=chunk_size)
    try:
        if which == "fasta_strict":
            res = _exc(lambda: _recs(MinimalFastaParser(orig_iter(path, chunk_size=chunk_size), strict=True)))
        elif which == "fasta_faster":
            res = _exc(lambda: _recs(MinimalFastaParser(orig_iter(path, chunk_size=chunk_size), strict=False)))
        else:
            res = _exc(lambda: _recs(pseq.PARSERS[which](path)))
    finally:
        c3io.open_ = orig_open
        pseq.iter_splitlines = orig_iter
    return res, chunks


STREAM_PARSERS = {"fasta": ["fasta_strict", "fasta_faster"], "gde": ["gde"], "paml": ["paml"], "phylip": ["phylip"]}


def _chunk_sizes(nbytes, rng, k=14):
    """every small chunk size, sizes around the file length, plus a few random ones"""
    cs = set(range(1, min(nbytes + 2, 9))) | {max(1, nbytes - 1), nbytes, nbytes + 1}
    while len(cs) < min(k, nbytes + 1):
        cs.add(rng.randint(1, nbytes + 1))
    return sorted(cs)



# --------------------------------------------------------------------------
# well-formed FASTA that is not writer shaped (Spec/FastaText.lean)
# --------------------------------------------------------------------------
EOLS = {"lf": "\n", "crlf": "\r\n", "eof": ""}


def gen_general(rng, lower_ok=True):
    """a structured general FASTA file: list of {pre,name,post,crlf,body:[[content,term],...]} satisfying wfFile"""
    recs = []
    for _ in range(rng.randint(1, 4)):
        name = "" if rng.random() < 0.1 else gen_name(rng)
        ws = lambda: "".join(rng.choice(" \t") for _ in range(rng.choice([0, 0, 0, 1, 2])))
        body = []
        mt = rng.choice(["dna", "rna", "protein"])
        for _ in range(rng.randint(1, 5)):
            r = rng.random()
            if r < 0.2:
                content = ""
            elif r < 0.27:
                content = rng.choice([" ", "\t ", "  "])
            else:
                res = gen_seq(rng, mt, rng.choice([1, 2, 3, 5, 8, 60, 61]), rng.random() < 0.5)
                if lower_ok and rng.random() < 0.25:
                    res = res.lower()
                if len(res) > 2 and rng.random() < 0.3:
                    k = rng.randint(1, len(res) - 1)
                    res = res[:k] + rng.choice([" ", "\t", "  "]) + res[k:]
                content = ws() + res + ws()
            body.append([content, rng.choice(["lf", "lf", "crlf"])])
        if not any(c for c, _ in body):
            body[rng.randrange(len(body))][0] = gen_seq(rng, mt, 4, False)
        recs.append(dict(pre=ws(), name=name, post=ws(), crlf=rng.random() < 0.3, body=body))
    if rng.random() < 0.3 and recs[-1]["body"][-1][0] != "":
        recs[-1]["body"][-1][1] = "eof"
    return recs


def general_text(recs):
    return "".join(
        ">" + g["pre"] + g["name"] + g["post"] + ("\r\n" if g["crlf"] else "\n") + "".join(c + EOLS[t] for c, t in g["body"])
        for g in recs
    )


def general_records(recs):
    return [[g["name"], "".join(c for c, _ in g["body"]).replace(" ", "").replace("\t", "")] for g in recs]


def _py_wf_file(recs):
    """plain-Python reading of Spec.FastaText.wfFile"""
    def printable(c):
        return 32 <= ord(c) <= 126

    def body_char(c):
        return c in " \t" or (printable(c) and c not in " #>")

    n = len(recs)
    for i, g in enumerate(recs):
        last = i == n - 1
        nm = g["name"]
        if any(c not in " \t" for c in g["pre"] + g["post"]):
            return False
        if not all(printable(c) for c in nm) or nm[:1] == " " or nm[-1:] == " ":
            return False
        body = g["body"]
        if not all(body_char(c) for cont, _ in body for c in cont):
            return False
        if not any(cont for cont, _ in body):
            return False
        for j, (cont, t) in enumerate(body):
            if t == "eof" and not (j == len(body) - 1 and last and cont != ""):
                return False
    return True


def real_fasta_variants(scratch, text, tag="gv"):
    """every FASTA parser variant of the library on one file"""
    from pathlib import Path

    from cogent3.parse.fasta import MinimalFastaParser, iter_fasta_records

    p = Path(scratch) / f"{tag}.fasta"
    p.write_bytes(text.encode("latin-1"))
    lines = text.replace("\r\n", "\n").split("\n")
    if lines and lines[-1] == "":
        lines.pop()
    res = {
        "strict(path)": _exc(lambda: _recs(MinimalFastaParser(str(p), strict=True))),
        "non-strict(path)": _exc(lambda: _recs(MinimalFastaParser(str(p), strict=False))),
        "strict(lines)": _exc(lambda: _recs(MinimalFastaParser(lines, strict=True))) if lines else None,
        "iter_fasta_records(lines)": _exc(lambda: _recs(iter_fasta_records(lines))) if lines else None,
        "iter_fasta_records(path)": _exc(lambda: _recs(iter_fasta_records(p))),
        "iter_fasta_records(bytes)": _exc(lambda: _recs(iter_fasta_records(text.encode("latin-1")))),
    }
    p.unlink()
    return {k: v for k, v in res.items() if v is not None}


BYTES_BASED = ("iter_fasta_records(path)", "iter_fasta_records(bytes)")


def _up(recs):
    return [[a, b.upper()] for a, b in recs] if isinstance(recs, list) else recs


def variants_once(scratch, stream, text, want=None):
    """one text of a stream of the spec-level parser-agreement check -> list of (sig, expected, got, variant)
    streams: general (wfFile texts: every variant must return `want`; the bytes based ones its upper-casing, the
    documented minimal_converter), and the four kinds of input on which the parsers are known to disagree."""
    bad = []
    if stream == "gde-hash":
        from cogent3.parse.fasta import MinimalGdeParser

        ls = text.splitlines()
        a = _exc(lambda: _recs(MinimalGdeParser(ls, strict=True)))
        b = _exc(lambda: _recs(MinimalGdeParser(ls, strict=False)))
        if a != want or b != want:
            bad.append(("agree:gde:hash-label", want, dict(strict=a, non_strict=b), "MinimalGdeParser strict vs non-strict"))
        return bad
    got = real_fasta_variants(scratch, text)
    if stream == "general":
        for which, g in got.items():
            # MinimalFastaParser documents "as written"; iter_fasta_records documents its converter (upper-casing),
            # whatever the type of its input: the list dispatch has to equal the bytes dispatch
            exp = _up(want) if which in BYTES_BASED + ("iter_fasta_records(lines)",) else want
            if g != exp:
                if which == "iter_fasta_records(lines)" and _up(g) == exp:
                    sig = "agree:fasta:case-dispatch"
                else:
                    sig = "agree:fasta:general:" + which
                bad.append((sig, exp, g, which))
    elif stream == "case-dispatch":
        a, b = got["iter_fasta_records(lines)"], got["iter_fasta_records(bytes)"]
        if a != b:
            bad.append(("agree:fasta:case-dispatch", b, a, "iter_fasta_records(lines) vs iter_fasta_records(bytes)"))
    elif stream == "pre-label":
        for which in BYTES_BASED:
            if got[which] != _up(want):
                bad.append(("agree:fasta:pre-label-text", _up(want), got[which], which))
        if got["strict(path)"] != want:
            bad.append(("agree:fasta:pre-label-text:strict", want, got["strict(path)"], "strict(path)"))
    elif stream == "comment":
        if got["strict(path)"] != want:
            bad.append(("agree:fasta:comment-line:strict", want, got["strict(path)"], "strict(path)"))
        for which in ("non-strict(path)",) + BYTES_BASED:
            exp = _up(want) if which in BYTES_BASED else want
            if got[which] != exp:
                bad.append(("agree:fasta:comment-line", exp, got[which], which))
    elif stream == "empty-record":
        a, b = got["non-strict(path)"], got["iter_fasta_records(bytes)"]
        if _up(a) != b:
            bad.append(("agree:fasta:empty-record", _up(a), b, "non-strict line parser vs iter_fasta_records(bytes)"))
    return bad


# --------------------------------------------------------------------------
# well-formed PHYLIP that is not writer shaped (sequential with blank separated groups, interleaved)
# --------------------------------------------------------------------------
def gen_phylip_general(rng):
    """(text, records, moltype, layout): a PHYLIP file as other programs write it.  Sequential: name column of 10, residues in
    blank separated groups, continuation lines indented by >= 10 blanks; interleaved (header `n L I`): first block with names,
    later blocks without, blank lines between blocks.  Header with free spacing, trailing blanks, LF/CRLF."""
    mt = rng.choice(["dna", "rna", "protein"])
    k = rng.randint(1, 4)
    names = []
    while len(names) < k:
        n = gen_name(rng)[:10].strip()
        if n and n not in names:
            names.append(n)
    L = rng.choice([1, 3, 9, 10, 11, 20, 37, 60, 61, 125])
    seqs = [gen_seq(rng, mt, L, rng.random() < 0.5) for _ in names]
    w = rng.choice([10, 20, 30, 50, 60])
    grp = rng.choice([0, 10, 10, 5])

    def groups(x):
        return x if not grp else " ".join(x[i : i + grp] for i in range(0, len(x), grp))

    layout = rng.choice(["sequential", "interleaved"])
    head = rng.choice(["%d %d", " %d %d", "%d  %d", "   %d    %d", "%d\t%d"]) % (k, L)
    lines = []
    if layout == "interleaved":
        lines.append(head + rng.choice([" I", " i", "  I "]))
        for i in range(0, L, w):
            for n, sq in zip(names, seqs):
                lines.append(("%-10s" % n if i == 0 else rng.choice(["", "", " " * 10, "  "])) + groups(sq[i : i + w]) + rng.choice(["", " "]))
            lines += [""] * rng.randint(0, 2)
    else:
        lines.append(head + rng.choice(["", " "]))
        for n, sq in zip(names, seqs):
            for i in range(0, L, w):
                lines.append(("%-10s" % n if i == 0 else " " * rng.choice([10, 10, 11, 14])) + groups(sq[i : i + w]) + rng.choice(["", " "]))
            lines += [""] * rng.choice([0, 0, 1])
    eol = rng.choice(["\n", "\n", "\r\n"])
    return eol.join(lines) + rng.choice([eol, eol, ""]), [[n, sq] for n, sq in zip(names, seqs)], mt, layout


def phylip_variants(scratch, text, mt, tag="pg"):
    from pathlib import Path

    import cogent3
    from cogent3.parse.phylip import MinimalPhylipParser
    from cogent3.parse.sequence import PARSERS

    p = Path(scratch) / f"{tag}.phylip"
    p.write_bytes(text.encode("latin-1"))
    lines = text.replace("\r\n", "\n").split("\n")
    if lines and lines[-1] == "":
        lines.pop()

    def loaded():
        a = cogent3.load_aligned_seqs(p, moltype=mt)
        d = a.to_dict()
        return [[str(n), str(d[n])] for n in a.names]

    res = {
        "MinimalPhylipParser(lines)": _exc(lambda: _recs(MinimalPhylipParser(lines))),
        "PARSERS[phylip](path)": _exc(lambda: _recs(PARSERS["phylip"](p))),
        "PARSERS[phylip](str path)": _exc(lambda: _recs(PARSERS["phylip"](str(p)))),
        "load_aligned_seqs(path)": _exc(loaded),
    }
    p.unlink()
    return res


# --------------------------------------------------------------------------
# Clustal (format/clustal.py, parse/clustal.py; Model/Clustal.lean, Spec/ClustalRecords.lean)
# --------------------------------------------------------------------------
CLUSTAL_WRAPS = [None, None, 1, 2, 3, 5, 7, 10, 59, 60, 61, 1000]


def real_clustal_format(names, seqs, wrap):
    from cogent3.format.clustal import clustal_from_alignment

    return _exc(lambda: clustal_from_alignment(dict(zip(names, seqs)), wrap=wrap))


def real_clustal_parse(lines, strict=True):
    from cogent3.parse.clustal import ClustalParser

    return _exc(lambda: _recs(ClustalParser(list(lines), strict=strict)))


def _py_clustal_name(n):
    """plain-Python reading of Spec.ClustalRecords.clustalName"""
    return (bool(n) and all(32 <= ord(c) <= 126 for c in n) and " " not in n
            and not n.startswith("CLUSTAL") and not n.startswith("MUSCLE"))


def _py_clustal_seq(t):
    return bool(t) and all(32 <= ord(c) <= 126 and c != " " and not ("0" <= c <= "9") for c in t)


def gen_clustal_names(rng, k):
    """distinct labels the format can carry (white-space delimited, not a header word)"""
    names = []
    for n in gen_names(rng, k):
        n = n.replace(" ", "_")
        if rng.random() < 0.08:
            n = rng.choice(["CLUS", "CLUSTA", "clustal", "MUSCL", "xCLUSTAL", "M", "C"]) + n[:3]
        if _py_clustal_name(n) and n not in names:
            names.append(n)
    return names or ["s1"]


def _clustal_line_pool(rng):
    """one line of the malformed Clustal stream"""
    name = rng.choice(["a", "b", "seq1", "s_2", "x|y", "a", "b"]) if rng.random() < 0.6 else gen_name(rng, wf=rng.random() < 0.8)
    seq = gen_seq(rng, rng.choice(["dna", "protein"]), rng.randint(1, 9), True)
    sp = rng.choice([" ", "  ", "    ", "\t", " \t "])
    r = rng.random()
    if r < 0.40:
        return name + sp + seq
    if r < 0.52:
        return name + sp + seq + rng.choice([" ", "\t"]) + rng.choice(["60", "7", "120", "+5", "-3", "1_0", "007", "0"])
    if r < 0.58:
        return name
    if r < 0.63:
        return name + sp + rng.choice(["60", "1_000", "12x", "_1", "1_", "1__0", "+", "-", "3.5"])
    if r < 0.69:
        return rng.choice(["CLUSTAL W (1.82) multiple sequence alignment", "CLUSTAL", "MUSCLE (3.41) multiple sequence alignment",
                           "CLUSTALX", "clustal W", "MUSCL x", "CLUSTA" + sp + seq, "MUSCLE" + seq + sp + seq])
    if r < 0.75:
        return rng.choice(["", " ", "\t", "   ** *  :.", " " * 10 + "*" * 5, "\x0c" + seq, "\xa0" + name + sp + seq])
    if r < 0.81:
        return name + sp + seq + rng.choice([" ", "\t", "  \x0c", "\x1f"])
    if r < 0.87:
        return name + " " + rng.choice(["x", "b c", name]) + sp + seq
    if r < 0.91:
        return name + sp + seq[:2] + " " + seq[2:] + " " + seq
    if r < 0.95:
        return name + sp + seq.lower()
    return rng.choice([" ", ""]) + name + sp + seq + " 12"


def gen_clustal_general(rng):
    """a well-formed Clustal / MUSCLE file that is NOT writer shaped: (text, records).  Header line variants, blank lines,
    consensus lines (they start with white space: blanks or tabs), labels padded with blanks and/or tabs, an optional running residue count at
    the end of every sequence line (-LINENOS=ON), trailing blanks, LF or CRLF, optional final newline."""
    mt = rng.choice(["dna", "rna", "protein"])
    names = gen_clustal_names(rng, rng.randint(1, 4))
    L = rng.choice([1, 2, 3, 7, 12, 59, 60, 61, 125])
    seqs = [gen_seq(rng, mt, L, rng.random() < 0.6) for _ in names]
    w = rng.choice([1, 3, 5, 10, 50, 60, 60])
    linenos = rng.random() < 0.4
    width = max(len(n) for n in names) + rng.randint(1, 6)
    eol = rng.choice(["\n", "\n", "\r\n"])
    lines = [rng.choice(["CLUSTAL W (1.82) multiple sequence alignment", "CLUSTAL", "CLUSTAL O(1.2.4) multiple sequence alignment",
                         "MUSCLE (3.8) multiple sequence alignment", "CLUSTALW"])]
    lines += [""] * rng.randint(0, 3)
    for i in range(0, L, w):
        for n, sq in zip(names, seqs):
            pad = " " * (width - len(n)) if rng.random() < 0.8 else rng.choice(["\t", " \t", "\t\t "])
            line = n + pad + sq[i : i + w]
            if linenos:
                line += rng.choice([" ", "  ", "\t"]) + str(min(i + w, L))
            lines.append(line + rng.choice(["", "", " ", "  "]))
        if rng.random() < 0.7:
            indent = " " * width if rng.random() < 0.7 else rng.choice(["\t", "\t\t", " \t", "\t "])  # any white space leads a non-sequence line
            lines.append(indent + "".join(rng.choice("*:. ") for _ in range(min(w, L - i))))
        lines += [""] * rng.randint(0 if i + w >= L else 1, 2)
    text = eol.join(lines) + rng.choice([eol, eol, ""])
    _last_clustal_general.update(pairs=[[n, sq[i : i + w]] for i in range(0, L, w) for n, sq in zip(names, seqs)])
    return text, [[n, s] for n, s in zip(names, seqs)], mt


_last_clustal_general = {}


def clustal_variants(scratch, text, mt="dna", tag="cv"):
    """every way the library parses a Clustal file"""
    from pathlib import Path

    import cogent3
    from cogent3.parse.clustal import ClustalParser
    from cogent3.parse.sequence import PARSERS

    p = Path(scratch) / f"{tag}.aln"
    p.write_bytes(text.encode("latin-1"))
    lines = text.replace("\r\n", "\n").split("\n")
    if lines and lines[-1] == "":
        lines.pop()

    def loaded(**kw):
        a = cogent3.load_aligned_seqs(p, **kw)
        d = a.to_dict()
        return [[str(n), str(d[n])] for n in a.names]

    res = {
        "ClustalParser(lines,strict)": _exc(lambda: _recs(ClustalParser(lines, strict=True))),
        "ClustalParser(lines,non-strict)": _exc(lambda: _recs(ClustalParser(lines, strict=False))),
        "PARSERS[aln](path)": _exc(lambda: _recs(PARSERS["aln"](p))),
        "PARSERS[clustal](str path)": _exc(lambda: _recs(PARSERS["clustal"](str(p)))),
        "load_aligned_seqs(path)": _exc(lambda: loaded(moltype=mt)),
        "load_aligned_seqs(path,format=clustal)": _exc(lambda: loaded(moltype=mt, format="clustal")),
    }
    p.unlink()
    return res


def clustal_once(scratch, names, seqs, wrap, mt, sfx="aln", chunk_size=None):
    """clustal_from_alignment(dict, wrap) -> file -> load_aligned_seqs / streamed registry parser; None if the property holds.
    The writer sorts the keys of a dict: expected order = sorted(names)."""
    from pathlib import Path

    import cogent3
    from cogent3.format.clustal import clustal_from_alignment

    want = [[n, s] for n, s in sorted(zip(names, seqs))]
    p = Path(scratch) / f"c.{sfx}"
    stage = "write"
    try:
        p.write_text(clustal_from_alignment(dict(zip(names, seqs)), wrap=wrap))
        stage = "load"
        if chunk_size is None:
            back = cogent3.load_aligned_seqs(p, moltype=mt, format=None if sfx in ("aln", "clustal") else "clustal")
            d = back.to_dict()
            got = [[str(n), str(d[n])] for n in back.names]
        else:
            got, _ = real_streamed("aln", p, chunk_size)
    except Exception as e:  # noqa: BLE001
        got = {"err": type(e).__name__, "stage": stage, "msg": str(e)[:120]}
    finally:
        try:
            p.unlink()
        except OSError:
            pass
    if got == want:
        return None
    if isinstance(got, dict):
        cls = f"exc:{got.get('stage', 'load')}:{got['err']}"
    elif [g[0] for g in got] != [w[0] for w in want]:
        cls = "names"
    else:
        cls = "seqs"
    return f"roundtrip:clustal:{cls}", want, got


# --------------------------------------------------------------------------
# correspondence: Lean model vs real implementation
# --------------------------------------------------------------------------
def _cmp(out, what, inp, model, real, ntkey=None):
    out["evaluations"] += 1
    if model != real:
        add_failure(out, "corr", what, inp, model, real, confirmed=False)
        return False
    if ntkey is not None:
        out["nontrivial"].add(ntkey)
    return True


def _line_pool(rng, lc=">"):
    name = gen_name(rng, wf=rng.random() < 0.7)
    seq = gen_seq(rng, "dna", rng.randint(1, 9), True)
    r = rng.random()
    if r < 0.28:
        return rng.choice(lc) + name
    if r < 0.62:
        return seq
    if r < 0.68:
        return ""
    if r < 0.73:
        return rng.choice(["  ", "\t", " \x0c"])
    if r < 0.79:
        return "#" + name
    if r < 0.85:
        return " " + seq + rng.choice(["", " ", "\t"])
    if r < 0.9:
        return seq[:3] + " " + seq[3:]
    if r < 0.94:
        return seq.lower()
    if r < 0.97:
        return rng.choice(lc)
    return seq + rng.choice(lc) + name


def correspondence(ctx):
    out = new_outcome(
        "model vs real on identical inputs: str.splitlines (exhaustive over {a,\\n,\\r,\\f}^<=5 + random incl. all "
        "boundary chars); iter_splitlines on real files with EVERY chunk size 1..len+1 (exhaustive {a,\\n}^<=6, "
        "{a,\\n,\\r}^<=4, random FASTA-like files incl. CRLF / no final newline / form feed), chunks recorded from "
        "the real file object; the four writers on generated name/sequence sets for block sizes 1..13,59,60,61 "
        "(incl. ragged + malformed names); all parsers on writer output and on a separate malformed line stream; "
        "non-trivial = distinct input whose real result is a non-empty record/line list or an exception"
    )
    rng = ctx.subrng("corr")

    drv = ctx.driver

    # ---- 1. str.splitlines ------------------------------------------------
    texts = []
    for n in range(0, 6):
        for t in itertools.product("a\n\r\x0c", repeat=n):
            texts.append("".join(t))
    brk = "\n\n\n\r\x0b\x0c\x1c\x1d\x1e\x85  "
    for _ in range(ctx.budget(4000, 40000)):
        n = rng.randint(0, 14)
        texts.append("".join(rng.choice(brk) if rng.random() < 0.3 else rng.choice("ab >\t\x1f\xa0") for _ in range(n)))
    rep = drv.batch([("splitlines", {"text": t}) for t in texts])
    for t, m in zip(texts, rep):
        real = t.splitlines()
        _cmp(out, "pySplitlines differs from str.splitlines", {"text": t}, m, real, ("sl", t) if real else None)
        bump(out, "splitlines_nlines", min(len(real), 6))

    # ---- 2. iter_splitlines, every chunk size ------------------------------
    files = []
    for n in range(0, 7):
        for t in itertools.product("a\n", repeat=n):
            files.append("".join(t))
    for n in range(1, 5):
        for t in itertools.product("a\n\r", repeat=n):
            if "\r" in t:
                files.append("".join(t))
    for _ in range(ctx.budget(70, 500)):
        mt, names, seqs = gen_recset(rng, ragged=True, small=True)
        eol = rng.choice(["\n", "\n", "\r\n"])
        lines = []
        for nm, s in zip(names[:3], seqs):
            lines.append(">" + nm[:6])
            lines += textwrap.wrap(s, rng.randint(2, 6))
            if rng.random() < 0.2:
                lines.append("")
        t = eol.join(lines) + (eol if rng.random() < 0.7 else "")
        if rng.random() < 0.15:
            t = t.replace("A", "\x0c", 1)  # malformed: form feed (model and code must still agree)
        files.append(t[:48])
    d = ctx.scratch / "corr_iter"
    d.mkdir(exist_ok=True)
    reqs, reals, meta = [], [], []
    for i, t in enumerate(files):
        p = d / f"f{i}.txt"
        p.write_bytes(t.encode("latin-1"))
        for cs in range(1, len(t.encode("latin-1")) + 2):
            try:
                lines, chunks = real_iter_splitlines(p, cs)
            except Exception as e:  # noqa: BLE001
                lines, chunks = {"err": type(e).__name__}, []
            reqs.append(("iter", {"chunks": chunks}))
            reals.append(lines)
            meta.append((t, cs, chunks))
    for (t, cs, chunks), real, m in zip(meta, reals, drv.batch(reqs)):
        ok = _cmp(out, "iterSplitlines differs from iter_splitlines", {"text": t, "chunk_size": cs, "chunks": chunks},
                  m, real, ("it", t, cs) if real else None)
        bump(out, "iter_chunk_size", cs if cs <= 8 else ">8")
        bump(out, "iter_nchunks", min(len(chunks), 10))
        if ok and len(out["samples"]) < 2 and len(chunks) > 3 and len(real) > 2:
            out["samples"].append(dict(kind="iter_splitlines", text=t, chunk_size=cs, lines=real))

    # ---- 2b. parser o iter_splitlines as ONE composition, small chunk sizes, every format ----------
    from cogent3.format.alignment import FORMATTERS

    sreq2, sreal2, smeta2 = [], [], []
    for i in range(ctx.budget(24, 240)):
        mt, names, seqs = gen_recset(rng, ragged=False, distinct_trunc=False, small=True)
        if i % 6 == 5:  # malformed: names with outer blanks / ragged lengths
            names = gen_names(rng, len(names), wf=False)
            seqs = [s[: rng.randint(1, len(s))] for s in seqs[: len(names)]]
        names, seqs = names[:3], seqs[:3]
        bs = rng.choice([1, 2, 3, 5, 60])
        for fam, parsers in STREAM_PARSERS.items():
            text = real_format(fam, names, seqs, bs)
            if not isinstance(text, str):
                continue
            if i % 5 == 4:
                text = text.replace("\n", "\r\n")
            p = d / f"st{i}.{fam}"
            p.write_bytes(text.encode("latin-1"))
            for which in parsers:
                for cs in _chunk_sizes(len(text), rng, 10):
                    real, chunks = real_streamed(which, p, cs)
                    sreq2.append(("streamed", {"parser": which, "chunks": chunks}))
                    sreal2.append(real)
                    smeta2.append((which, text, cs))
    for (which, text, cs), real, m in zip(smeta2, sreal2, drv.batch(sreq2)):
        _cmp(out, f"streamed composition {which} o iter_splitlines: model differs", dict(parser=which, text=text, chunk_size=cs),
             m, real, ("st", which, text, cs) if real else None)
        bump(out, "streamed_parser", which)
        bump(out, "streamed_chunk_size", cs if cs <= 8 else ">8")

    # ---- 3. writers ----------------------------------------------------------
    wreq, wreal, wmeta = [], [], []
    n_sets = ctx.budget(500, 5000)
    for i in range(n_sets):
        r = rng.random()
        mt, names, seqs = gen_recset(rng, ragged=r < 0.25, distinct_trunc=False, small=rng.random() < 0.5)
        if r > 0.9:
            names = gen_names(rng, len(names), wf=False)
            seqs = seqs[: len(names)]
        if i == 0:
            names, seqs = [], []
        bs = rng.choice([1, 2, 3, 4, 5, 6, 7, 8, 9, 10, 11, 12, 13, 59, 60, 61])
        recs = [[n, s] for n, s in zip(names, seqs)]
        # textwrap contract + FASTA writer with the external's lines
        wrapped = []
        for n, s in recs:
            ls = textwrap.wrap(s, bs)
            out["evaluations"] += 1
            if "".join(ls) != s or any((not l) or len(l) > bs for l in ls) or (s and not ls):
                add_failure(out, "corr", "textwrap.wrap breaks the wrapping contract", {"s": s, "bs": bs}, s, ls, confirmed=False)
            wrapped.append([n, ls])
        wreq.append(("fasta_format", {"recs": wrapped}))
        wreal.append(real_format("fasta", names, seqs, bs))
        wmeta.append(("fasta", names, seqs, bs))
        if all("-" not in s and " " not in s for s in seqs):
            wreq.append(("fasta_format_chunk", {"recs": recs, "bs": bs}))
            wreal.append(wreal[-1])
            wmeta.append(("fasta(block slicing)", names, seqs, bs))
        for fmt in ("gde", "paml", "phylip"):
            wreq.append((f"{fmt}_format", {"recs": recs, "bs": bs}))
            wreal.append(real_format(fmt, names, seqs, bs))
            wmeta.append((fmt, names, seqs, bs))
    texts_by_fmt = {"fasta": [], "gde": [], "paml": [], "phylip": []}
    for (fmt, names, seqs, bs), real, m in zip(wmeta, wreal, drv.batch(wreq)):
        ok = _cmp(out, f"{fmt} writer model differs", dict(fmt=fmt, names=names, seqs=seqs, block_size=bs), m, real,
                  ("w", fmt, tuple(names), tuple(seqs), bs) if real else None)
        bump(out, "writer", fmt)
        bump(out, "writer_block_size", bs)
        for s in seqs[:1]:
            bump(out, "seq_len_mod_block", "0" if len(s) % bs == 0 else ("1" if len(s) % bs == 1 else "other"))
        if ok and isinstance(real, str) and fmt in texts_by_fmt:
            texts_by_fmt[fmt].append(real)
            if len(out["samples"]) < 4 and fmt == "phylip" and len(names) > 1:
                out["samples"].append(dict(kind="writer", fmt=fmt, names=names, block_size=bs, text=real[:200]))

    # ---- 4. parsers: writer output + malformed stream -------------------------
    preq, preal, pmeta = [], [], []
    # fastaBytes models the code as committed: records split by _label_start = (?:\A|(?<=\n))> .  There is no
    # second model any more: if the historical splitter (data.split(b">")) comes back, this correspondence
    # breaks, the spec-level round trip fails and the regression witness of C06-fasta-bytes-gt fires.
    bytes_cmd = "fasta_bytes"

    def add(cmd, arg, real, what):
        preq.append((cmd, arg))
        preal.append(real)
        pmeta.append((what, arg))

    for t in texts_by_fmt["fasta"]:
        ls = t.splitlines()
        if ls:
            add("strict", {"lc": ">", "lines": ls}, real_strict(ls), "strict parser (writer output)")
            add("faster", {"lc": ">", "lines": ls}, real_faster(ls), "faster parser (writer output)")
        add(bytes_cmd, {"text": t}, real_bytes(t), "bytes parser (writer output)")
    for t in texts_by_fmt["gde"]:
        ls = t.splitlines()
        if ls:
            add("strict", {"lc": "%#", "lines": ls}, real_strict(ls, "%#"), "gde strict parser (writer output)")
            add("faster", {"lc": "%#", "lines": ls}, real_faster(ls, "%#"), "gde faster parser (writer output)")
    for t in texts_by_fmt["paml"]:
        add("paml", {"lines": t.splitlines()}, real_paml(t.splitlines()), "paml parser (writer output)")
    for t in texts_by_fmt["phylip"]:
        add("phylip", {"lines": t.splitlines()}, real_phylip(t.splitlines()), "phylip parser (writer output)")
    for _ in range(ctx.budget(5000, 50000)):
        lc = rng.choice([">", ">", "%#"])
        ls = [_line_pool(rng, lc) for _ in range(rng.randint(1, 8))]
        add("strict", {"lc": lc, "lines": ls}, real_strict(ls, lc), "strict parser (malformed stream)")
        add("faster", {"lc": lc, "lines": ls}, real_faster(ls, lc), "faster parser (malformed stream)")
        if lc == ">":
            eol = rng.choice(["\n", "\n", "\r\n"])
            t = eol.join(ls) + rng.choice(["", eol])
            add(bytes_cmd, {"text": t}, real_bytes(t), "bytes parser (malformed stream)")
    hdrs = ["2 5", "2  5", "1 4", "3 6", "2 5 I", "2 5 i x", "x y", "", "2", "-1 3", "0 5", "2 0", "+2 05", "2.0 5", " 2 \t 5 "]
    for _ in range(ctx.budget(4000, 40000)):
        h = rng.choice(hdrs)
        body = []
        for _ in range(rng.randint(0, 7)):
            r = rng.random()
            s = gen_seq(rng, "dna", rng.choice([1, 2, 3, 5, 5, 5, 6]), True)
            nm = gen_name(rng, wf=rng.random() < 0.8)
            if r < 0.3:
                body.append(nm)
            elif r < 0.55:
                body.append(s)
            elif r < 0.75:
                body.append(("%-10s" % nm[:9]) + s)
            elif r < 0.85:
                body.append(" " * 10 + s)
            elif r < 0.9:
                body.append(rng.choice(["", "  "]))
            elif r < 0.95:
                body.append(s.lower() + " ")
            else:
                body.append(nm[:12] + " " + s[:2] + " " + s[2:])
        ls = [h] + body
        add("paml", {"lines": ls}, real_paml(ls), "paml parser (malformed stream)")
        add("phylip", {"lines": ls}, real_phylip(ls), "phylip parser (malformed stream)")
    add("paml", {"lines": []}, real_paml([]), "paml parser (malformed stream)")
    for _ in range(ctx.budget(200, 2000)):
        t, _, _, layout = gen_phylip_general(rng)
        ls = t.splitlines()
        if rng.random() < 0.2 and len(ls) > 2:  # break it: drop a line / cut a line (length mismatch, missing block)
            k = rng.randrange(1, len(ls))
            ls = ls[:k] + ([ls[k][: rng.randint(0, len(ls[k]))]] if rng.random() < 0.5 else []) + ls[k + 1 :]
        add("phylip", {"lines": ls}, real_phylip(ls), f"phylip parser (general {layout} file)")
    for (what, arg), real, m in zip(pmeta, preal, drv.batch(preq)):
        if isinstance(real, dict) and real["err"] not in ERRS:
            bump(out, "unmodelled_exception", real["err"])
        nt = None
        if real:
            nt = (what, str(arg))
        _cmp(out, what + ": model differs", arg, m, real, nt)
        bump(out, "parser", what)
        bump(out, "parser_result", real["err"] if isinstance(real, dict) else ("records" if real else "empty"))

    # ---- 5. small primitives --------------------------------------------------
    sreq, sreal = [], []
    for _ in range(ctx.budget(400, 4000)):
        s = "".join(rng.choice(" \t\x0b\x0c\x1c\x1f\xa0ab>-") for _ in range(rng.randint(0, 8)))
        sreq.append(("strip", {"s": s}))
        sreal.append([s.strip(), s.encode("latin-1").strip().decode("latin-1"), s.split()])
    for n in list(range(0, 130)) + [999, 1000, 12345, 10**9, 10**18 + 7]:
        sreq.append(("digits", {"n": n}))
        sreal.append("%d" % n)
    for s in ["0", "7", "-3", "+12", "007", "", "-", "1x", "1.0", "12345678901234567890"]:
        sreq.append(("int", {"s": s}))
        sreal.append(_exc(lambda s=s: int(s)))
    for (cmd, arg), real, m in zip(sreq, sreal, drv.batch(sreq)):
        _cmp(out, f"primitive {cmd}: model differs", arg, m, real, None)

    # ---- 7. general (not writer shaped) FASTA: Spec/FastaText tied to its plain-Python reading, and the three model
    #         parsers tied to the three real ones on the same raw text (well-formed AND the excluded shapes) -----------
    greq, gmeta = [], []
    for _ in range(ctx.budget(250, 3000)):
        recs = gen_general(rng)
        r = rng.random()
        if r < 0.25:  # break well-formedness in one of the excluded ways: still must correspond
            k = rng.randrange(len(recs))
            how = rng.choice(["empty-body", "comment", "eof-middle", "gt-line", "name-blank"])
            if how == "empty-body":
                recs[k]["body"] = [["", "lf"]] * rng.randint(0, 2)
            elif how == "comment":
                recs[k]["body"].insert(rng.randrange(len(recs[k]["body"]) + 1), ["#" + gen_name(rng), "lf"])
            elif how == "eof-middle" and len(recs) > 1:
                recs[0]["body"][-1][1] = "eof"
            elif how == "gt-line":
                recs[k]["body"].insert(0, [" >x", "lf"])
            else:
                recs[k]["name"] = " " + recs[k]["name"]
        greq.append(("general", {"recs": recs}))
        gmeta.append(recs)
    for recs, m in zip(gmeta, drv.batch(greq)):
        text = general_text(recs)
        pywf = _py_wf_file(recs)
        _cmp(out, "Spec.FastaText.fileRaw differs from the plain-Python text", {"recs": recs}, m["text"], text)
        _cmp(out, "Spec.FastaText.wfFile differs from its plain-Python reading", {"recs": recs}, m["wf"], pywf)
        _cmp(out, "Spec.FastaText.records differs from its plain-Python reading", {"recs": recs}, m["records"], general_records(recs))
        real = real_fasta_variants(d, text)
        for mk, rk in (("strict", "strict(path)"), ("faster", "non-strict(path)"), ("bytes", "iter_fasta_records(bytes)")):
            _cmp(out, f"general FASTA text: model {mk} parser differs from {rk}", {"text": text}, m[mk], real[rk],
                 ("gen", mk, text) if real[rk] else None)
        bump(out, "general_texts", "well-formed" if pywf else "excluded-shape")
        if pywf and len(out["samples"]) < 7 and "\r\n" in text and len(recs) > 1:
            out["samples"].append(dict(kind="general FASTA text", text=text, records=general_records(recs)))

    # ---- 8. suffix dispatch: Path.suffixes, get_format_suffixes, _get_compression_open, atomic_write's temp name ----
    from pathlib import Path

    from cogent3.util import io as c3io

    names = ["".join(t) for n in range(1, 6) for t in itertools.product("a.Gz", repeat=n)]
    exts = ["fasta", "fa", "FASTA", "phylip", "paml", "gde", "json", "gz", "GZ", "bz2", "zip", "Zip", "tar", "txt", ""]
    for _ in range(ctx.budget(400, 4000)):
        stem = rng.choice(["x", "my.seqs", ".hidden", "a-b_c", "..x", "s p"])
        names.append(stem + "".join("." + rng.choice(exts) for _ in range(rng.randint(0, 3))))
    names = sorted(set(n for n in names if "/" not in n and n not in (".", "..")))
    opener_name = {}
    for _, fn in (_gen_state.get("table") or []):
        opener_name[getattr(c3io, fn)] = fn
    sreq, sreal = [], []
    tmpdir = d / "aw"
    tmpdir.mkdir(exist_ok=True)
    for k, name in enumerate(names):
        pth = Path(name)
        fmt = _exc(lambda: list(c3io.get_format_suffixes(name)))
        codec = None
        if not isinstance(fmt, dict):
            op = c3io._get_compression_open(name)
            codec = None if op is None else opener_name.get(op, repr(op))
        uuid = "u0-1"
        real = dict(suffixes=list(pth.suffixes), tmp=uuid + "".join(pth.suffixes), format=fmt, codec=codec)
        if k % 9 == 0 and not isinstance(fmt, dict):  # the real temporary name chosen by atomic_write
            import shutil

            aw = c3io.atomic_write(tmpdir / name, mode="w")
            tp = aw._tmppath
            out["evaluations"] += 1
            if list(tp.suffixes) != list(pth.suffixes) or "." in tp.name[: len(tp.name) - len("".join(pth.suffixes))]:
                add_failure(out, "corr", "atomic_write temp name does not carry the destination's suffixes",
                            dict(name=name), list(pth.suffixes), tp.name, confirmed=False)
            shutil.rmtree(tp.parent, ignore_errors=True)
        sreq.append(("suffixes", dict(name=name, uuid=uuid, has_suffix=bool(pth.suffix))))
        sreal.append(real)
    for (cmd, arg), real, m in zip(sreq, sreal, drv.batch(sreq)):
        _cmp(out, "suffix dispatch: model differs (Path.suffixes / get_format_suffixes / _get_compression_open)", arg, m, real,
             ("sfx", arg["name"]) if real["suffixes"] else None)
        bump(out, "suffix_codec", str(real["codec"]))

    # ---- 9. GenBank: location machinery and record frame ---------------------------------------------------
    from cogent3.parse.genbank import iter_genbank_records

    lreq, lreal = [], []
    for _ in range(ctx.budget(600, 8000)):
        r = rng.random()
        if r < 0.6:
            text = gen_gb_location(rng, rng.choice([1, 2, 5, 9, 40, 1000, 123456]))[0]
        elif r < 0.8:  # nested / single positions / ambiguity markers / blanks after commas
            a, b, c, e = sorted(rng.sample(range(1, 500), 4))
            text = rng.choice([f"join(complement({a}..{b}),{c}..{e})", f"complement(join({a}..{b}, {c}..{e}))", f"{a}",
                               f"<{a}..>{b}", f"join({a},{b}..{c})", f"order({a}..{b},{c}..{e})",
                               f"complement(join(complement({a}..{b}),{c}..{e}))", f"join({a}..{b},{c}..{e},{e}..{e})"])
        else:  # malformed but balanced
            a, b = sorted(rng.sample(range(1, 500), 2))
            text = rng.choice([f"{a}...{b}", f"{a}..", f"..{b}", f"join({a}..{b},)", f"x{a}..{b}", "", f"{a}..{b}..{a}",
                               f"complement()", f"join(a..b)", f"{a}. .{b}"])
        lreq.append(("gb_location", {"text": text}))
        lreal.append(real_gb_location(text))
    for (cmd, arg), real, m in zip(lreq, lreal, drv.batch(lreq)):
        if "err" in real or "err" in m:  # error classes of the real code are not modelled one to one
            real, m = ("err" in real), ("err" in m)
        _cmp(out, "GenBank location: model differs from parse_location_line", arg, m, real, ("gbl", arg["text"]) if real else None)
        bump(out, "gb_location", "error" if real is True else "ok")
    greq2, greal2 = [], []
    for i in range(ctx.budget(60, 600)):
        mt, names, seqs = gen_recset(rng, ragged=True, distinct_trunc=False, small=i % 2 == 0)
        recs = [(n, gen_seq(rng, "dna", len(sq), False)) for n, sq in zip(names, seqs)]
        text, _ = _genbank_text(rng, recs, [] if i % 2 else None)
        r = rng.random()
        if r < 0.1:
            text = text.replace("ORIGIN", "ORIGINAL", 1)
        elif r < 0.2:
            text = text.replace("\nORIGIN", "", 1)
        elif r < 0.3:
            text = "\n\n" + text.replace("//\n", "//\n\n \n")
        elif r < 0.35:
            text = text.rstrip("\n")
        elif r < 0.4:
            text = "LOCUS\nORIGIN\n 1 acgt\n//\n"
        greq2.append(("gb_records", {"text": text}))
        greal2.append(_exc(lambda: [[l, sq] for l, sq, _ in iter_genbank_records(text.encode("latin-1"), convert_features=None)]))
    for (cmd, arg), real, m in zip(greq2, greal2, drv.batch(greq2)):
        _cmp(out, "GenBank record frame: model differs from iter_genbank_records", arg, m, real, ("gbr", arg["text"]) if real else None)
        bump(out, "gb_records", real["err"] if isinstance(real, dict) else len(real))

    # ---- 10. Clustal: writer, parser (strict / non-strict), line level pieces, spec predicates ---------------
    creq, creal, cmeta = [], [], []
    clustal_texts = []
    for i in range(ctx.budget(220, 2200)):
        r = rng.random()
        mt, names, seqs = gen_recset(rng, ragged=r < 0.1, distinct_trunc=False, small=rng.random() < 0.6)
        if r > 0.85:
            names = gen_names(rng, len(names), wf=False)
            seqs = seqs[: len(names)]
        elif r > 0.3:
            names = gen_clustal_names(rng, len(names))
            seqs = seqs[: len(names)]
        if i == 0:
            names, seqs = [], []
        wrap = rng.choice(CLUSTAL_WRAPS)
        order = sorted(zip(names, seqs))
        real = real_clustal_format(names, seqs, wrap)
        creq.append(("clustal_format", {"recs": [[n, s] for n, s in order], "wrap": wrap}))
        creal.append(real)
        cmeta.append(("Clustal writer", dict(names=names, seqs=seqs, wrap=wrap)))
        bump(out, "clustal_wrap", str(wrap))
        if isinstance(real, str):
            clustal_texts.append(real)
    for t in clustal_texts:
        for strict in (True, False):
            ls = t.splitlines()
            creq.append(("clustal_parse", {"lines": ls, "strict": strict}))
            creal.append(real_clustal_parse(ls, strict))
            cmeta.append((f"Clustal parser strict={strict} (writer output)", dict(lines=ls, strict=strict)))
    for _ in range(ctx.budget(2500, 25000)):
        ls = [_clustal_line_pool(rng) for _ in range(rng.randint(1, 9))]
        strict = rng.random() < 0.5
        creq.append(("clustal_parse", {"lines": ls, "strict": strict}))
        creal.append(real_clustal_parse(ls, strict))
        cmeta.append((f"Clustal parser strict={strict} (malformed stream)", dict(lines=ls, strict=strict)))
    from cogent3.parse import clustal as _cl

    for _ in range(ctx.budget(1200, 12000)):
        l = _clustal_line_pool(rng)
        if not l.split():
            l = "x" + l  # delete_trailing_number("") is an IndexError: unreachable behind the filter
        creq.append(("clustal_line", {"line": l}))
        creal.append(dict(is_seq_line=bool(_cl.is_clustal_seq_line(l)), delete_trailing_number=_cl.delete_trailing_number(l),
                          last_space=list(_cl.last_space(l.rstrip()))))
        cmeta.append(("Clustal line level pieces", dict(line=l)))
    for _ in range(ctx.budget(500, 5000)):
        r = rng.random()
        if r < 0.4:
            t = gen_clustal_names(rng, 1)[0]
            if not _py_clustal_name(t):
                add_failure(out, "corr", "generator produced a Clustal label outside the theorems' domain", {"s": t}, True, False, confirmed=False)
        elif r < 0.7:
            t = gen_seq(rng, rng.choice(["dna", "rna", "protein"]), rng.randint(1, 12), rng.random() < 0.5)
            if not _py_clustal_seq(t):
                add_failure(out, "corr", "generator produced residues outside the theorems' domain", {"s": t}, True, False, confirmed=False)
        else:
            t = rng.choice(["CLUSTAL", "MUSCLEx", "CLUSTA", "a b", "", " a", "a1", "12", "A-C", "A C", "\x7f", "MUSCL", "clustal"]) + rng.choice(["", "x", "9"])
        creq.append(("clustal_spec", {"s": t}))
        creal.append(dict(clustalName=_py_clustal_name(t), clustalSeq=_py_clustal_seq(t)))
        cmeta.append(("Spec/ClustalRecords predicate", dict(s=t)))
    # the generator of decorated (not writer shaped) Clustal files stays inside the domain of the theorems of Props/C06Decor.lean:
    # the Lean recogniser checkDecorated (proved sound) accepts every generated file and rejects it with one pair removed
    for _ in range(ctx.budget(60, 600)):
        t, _w, _m = gen_clustal_general(rng)
        pairs = [list(p) for p in _last_clustal_general["pairs"]]
        ls = t.splitlines()
        creq.append(("decor_check", {"pairs": pairs, "lines": ls}))
        creal.append(True)
        cmeta.append(("Spec/ClustalDecorated shape of a generated file", dict(pairs=pairs, lines=ls)))
        creq.append(("decor_check", {"pairs": pairs[:-1], "lines": ls}))
        creal.append(False)
        cmeta.append(("Spec/ClustalDecorated shape with a pair removed", dict(pairs=pairs[:-1], lines=ls)))
    for (what, arg), real, m in zip(cmeta, creal, drv.batch(creq)):
        _cmp(out, what + ": model differs", arg, m, real, ("cl", what, str(arg)) if real else None)
        bump(out, "clustal", what)
        if what.startswith("Clustal parser"):
            bump(out, "clustal_parser_result", real["err"] if isinstance(real, dict) else ("records" if real else "empty"))
    # parser o iter_splitlines as one composition (the registry's LineBasedParser(ClustalParser)), small chunk sizes
    creq2, creal2, cmeta2 = [], [], []
    for i, t in enumerate(clustal_texts[: ctx.budget(12, 120)]):
        if not t:
            continue
        if i % 4 == 3:
            t = t.replace("\n", "\r\n")
        p = d / f"cl{i}.aln"
        p.write_bytes(t.encode("latin-1"))
        for cs in _chunk_sizes(len(t), rng, 8):
            real, chunks = real_streamed("aln", p, cs)
            creq2.append(("streamed", {"parser": "aln", "chunks": chunks}))
            creal2.append(real)
            cmeta2.append((t, cs))
    for (t, cs), real, m in zip(cmeta2, creal2, drv.batch(creq2)):
        _cmp(out, "streamed composition ClustalParser o iter_splitlines: model differs", dict(parser="aln", text=t, chunk_size=cs),
             m, real, ("st", "aln", t, cs) if real else None)
        bump(out, "streamed_parser", "aln")

    # ---- 6. the specification predicates (Spec/SeqRecords.lean) --------------------
    # the hypotheses of the round-trip theorems (wfName / wfSeq / noLower) and the PHYLIP truncation (truncName) against
    # their plain-Python reading, on the generators' own output: every name gen_name(wf=True) produces and every
    # sequence gen_seq produces must satisfy the Lean predicate (so the theorems cover the tested domain), malformed
    # ones must not, and truncName must be the trunc_name oracle used by spec_check
    def py_spec(t, lc):
        pr = all(32 <= ord(c) <= 126 for c in t)
        return dict(
            wfName=bool(t) and pr and t[0] != " " and t[-1] != " ",
            wfSeq=bool(t) and pr and not any(c in " #" or c in lc for c in t),
            noLower=not any("a" <= c <= "z" for c in t),
            truncName=trunc_name(t),
        )

    qreq, qreal = [], []
    for _ in range(ctx.budget(1500, 15000)):
        r = rng.random()
        lc = rng.choice([">", "%#", ""])
        if r < 0.45:
            t = gen_name(rng, wf=True)
            if not py_spec(t, lc)["wfName"]:
                add_failure(out, "corr", "generator produced a name outside the theorems' domain", {"s": t}, True, False, confirmed=False)
        elif r < 0.6:
            t = gen_name(rng, wf=False)
        elif r < 0.9:
            t = gen_seq(rng, rng.choice(["dna", "rna", "protein"]), rng.randint(1, 12), rng.random() < 0.5)
            if not py_spec(t, lc)["wfSeq"]:
                add_failure(out, "corr", "generator produced a sequence outside the theorems' domain", {"s": t}, True, False, confirmed=False)
            if rng.random() < 0.2:
                t = t.lower()
        else:
            t = "".join(rng.choice(" #>%a\tA-\x7f\xa0") for _ in range(rng.randint(0, 11)))
        qreq.append(("spec", {"s": t, "lc": lc}))
        qreal.append(py_spec(t, lc))
    for (cmd, arg), real, m in zip(qreq, qreal, drv.batch(qreq)):
        _cmp(out, "Spec/SeqRecords predicate differs from its Python reading", arg, m, real, ("spec", arg["s"], arg["lc"]) if arg["s"] else None)
        bump(out, "spec_predicates", "wfName" if real["wfName"] else ("wfSeq" if real["wfSeq"] else "neither"))
    return out


# --------------------------------------------------------------------------
# spec-level differential on the real code
# --------------------------------------------------------------------------
MAX_PER_SIG = 4


def _spec_fail(out, what, inp, want, got, sig):
    """keep at most MAX_PER_SIG failures per signature so that a frequent (known) class can never
    crowd a different one out of the bounded failure list"""
    seen = out.setdefault("_per_sig", {})
    seen[sig] = seen.get(sig, 0) + 1
    bump(out, "spec_failures_by_sig", sig)
    if seen[sig] <= MAX_PER_SIG:
        add_failure(out, "spec", what, inp, want, got, sig=sig)


SUFFIXES = ["fasta", "fa", "mfa", "phylip", "paml", "gde", "json"]
COMPRESS = ["", ".gz", ".bz2", ".zip"]
KINDS = ["array_align", "alignment", "collection", "collection_new"]


def _make(kind, names, seqs, mt):
    import cogent3

    data = dict(zip(names, seqs))
    if kind == "array_align":
        return cogent3.make_aligned_seqs(data, moltype=mt, array_align=True)
    if kind == "alignment":
        return cogent3.make_aligned_seqs(data, moltype=mt, array_align=False)
    if kind == "collection":
        return cogent3.make_unaligned_seqs(data, moltype=mt)
    return cogent3.make_unaligned_seqs(data, moltype=mt, new_type=True)


def _load(kind, path, mt):
    import cogent3

    if kind == "array_align":
        return cogent3.load_aligned_seqs(path, moltype=mt, array_align=True)
    if kind == "alignment":
        return cogent3.load_aligned_seqs(path, moltype=mt, array_align=False)
    if kind == "collection":
        return cogent3.load_unaligned_seqs(path, moltype=mt)
    return cogent3.load_unaligned_seqs(path, moltype=mt, new_type=True)


def _fmt_family(sfx):
    return "fasta" if sfx in ("fasta", "fa", "mfa") else sfx


def roundtrip_once(scratch, kind, sfx, cmp_, names, seqs, mt, tag="rt"):
    """write with obj.write(path), load back; returns None if the property holds, else (sig, expected, got)"""
    path = os.path.join(str(scratch), f"{tag}.{sfx}{cmp_}")
    fam = _fmt_family(sfx)
    want_names = [trunc_name(n) if fam == "phylip" else n for n in names]
    want = [[a, b] for a, b in zip(want_names, seqs)]
    stage = "make"
    try:
        obj = _make(kind, names, seqs, mt)
        stage = "write"
        obj.write(path)
        stage = "load"
        back = _load(kind, path, mt)
        d = back.to_dict()
        got = [[str(n), str(d[n])] for n in back.names]
    except Exception as e:  # noqa: BLE001
        got = {"err": type(e).__name__, "stage": stage, "msg": str(e)[:160]}
    finally:
        try:
            os.unlink(path)
        except OSError:
            pass
    if got == want:
        return None
    has_gt = any(">" in n for n in names)
    if isinstance(got, dict):
        if stage == "write" and cmp_ == ".zip" and got["err"] == "FileNotFoundError":
            cls = "zip-write-raises"
        elif fam == "fasta" and has_gt:
            cls = "label-gt-exc"
        elif fam == "json" and kind == "collection_new" and stage == "load" and got["err"] == "TypeError":
            cls = "json-new-type-load"
        else:
            cls = f"exc:{stage}:{got['err']}"
    else:
        if [g[1] for g in got] == seqs and fam == "fasta" and has_gt and all(
            g[0] == n or (">" in n and g[0] == n.split(">")[-1].strip()) for g, n in zip(got, names)
        ):
            cls = "label-cut-at-gt"
        elif fam == "fasta" and has_gt:
            cls = "label-gt-other"
        elif [g[0] for g in got] != want_names:
            cls = "names"
        else:
            cls = "seqs"
    return f"roundtrip:{fam}:{cls}", want, got


EXPLICIT_FORMATS = ["fasta", "phylip", "paml", "gde"]
OTHER_SUFFIX = {  # suffixes that name a DIFFERENT supported format than the explicit one
    "fasta": ["aln", "phylip", "paml", "gde", "gb", "nex", "msf", "clustal"],
    "phylip": ["fa", "fasta", "paml", "gde", "aln", "mfa"],
    "paml": ["fa", "fasta", "phylip", "gde", "aln", "gbk"],
    "gde": ["fa", "fasta", "phylip", "paml", "aln", "nxs"],
}


def gen_filename(rng, fmt):
    """(file name, class) for the explicit-format round trip: the suffix never has to agree with `fmt`"""
    cls = rng.choice(["other-format", "other-format", "other-format", "none", "unknown", "upper", "multidot", "same"])
    stem = rng.choice(["genes", "x", "my_seqs", "a-b", "s1"])
    cmp_ = rng.choice(["", "", ".gz", ".bz2", ".zip"])
    if cls == "other-format":
        name = f"{stem}.{rng.choice(OTHER_SUFFIX[fmt])}{cmp_}"
    elif cls == "none":
        name, cmp_ = stem, ""
    elif cls == "unknown":
        name = f"{stem}.{rng.choice(['txt', 'nuc', 'seqs', 'dat'])}{cmp_}"
    elif cls == "upper":
        name = f"{stem}.{rng.choice([fmt.upper(), rng.choice(OTHER_SUFFIX[fmt]).upper(), 'TXT'])}{cmp_.upper() if rng.random() < 0.5 else cmp_}"
    elif cls == "multidot":
        name = f"a.b.c.{rng.choice([fmt, rng.choice(OTHER_SUFFIX[fmt]), 'txt', 'v2'])}{cmp_}"
    else:
        name = f"{stem}.{fmt}{cmp_}"
    return name, cls


def explicit_once(scratch, kind, fmt, fname, loader, names, seqs, mt):
    """obj.write(path, format=fmt) then load_*(path, format=fmt): the explicit format decides, whatever the suffix
    says.  loader in aligned / unaligned / seq (load_seq returns the first record).  None if the property holds."""
    import cogent3

    path = os.path.join(str(scratch), fname)
    want_names = [trunc_name(n) if fmt == "phylip" else n for n in names]
    want = [[a, b] for a, b in zip(want_names, seqs)]
    stage = "make"
    try:
        obj = _make(kind, names, seqs, mt)
        stage = "write"
        if kind == "collection_new":
            obj.write(path, file_format=fmt)
        else:
            obj.write(path, format=fmt)
        stage = "load"
        new = kind == "collection_new"
        if loader == "aligned":
            back = cogent3.load_aligned_seqs(path, format=fmt, moltype=mt, array_align=kind != "alignment")
        elif loader == "unaligned":
            back = cogent3.load_unaligned_seqs(path, format=fmt, moltype=mt, new_type=new)
        else:
            sq = cogent3.load_seq(path, format=fmt, moltype=mt, new_type=new)
            back = None
            got = [[str(sq.name), str(sq)]]
            want = want[:1]
        if back is not None:
            d = back.to_dict()
            got = [[str(n), str(d[n])] for n in back.names]
    except Exception as e:  # noqa: BLE001
        got = {"err": type(e).__name__, "stage": stage, "msg": str(e)[:160]}
    finally:
        try:
            os.unlink(path)
        except OSError:
            pass
    if got == want:
        return None
    if isinstance(got, dict):
        cls = f"exc:{stage}:{got['err']}"
    elif [g[0] for g in got] != [w[0] for w in want]:
        cls = "names"
    else:
        cls = "seqs"
    return cls, want, got


def _agree_once(scratch, text, want, tag="ag"):
    """all FASTA parser variants on one well-formed file; returns list of (sig, expected, got, which)"""
    from pathlib import Path

    from cogent3.parse.fasta import MinimalFastaParser, iter_fasta_records
    from cogent3.parse.sequence import PARSERS

    p = Path(scratch) / f"{tag}.fasta"
    p.write_bytes(text.encode("latin-1"))
    lines = text.splitlines()
    variants = {
        "MinimalFastaParser(path,strict)": lambda: _recs(MinimalFastaParser(str(p), strict=True)),
        "MinimalFastaParser(path,non-strict)": lambda: _recs(MinimalFastaParser(str(p), strict=False)),
        "MinimalFastaParser(lines,strict)": lambda: _recs(MinimalFastaParser(lines, strict=True)),
        "iter_fasta_records(lines)": lambda: _recs(iter_fasta_records(lines)),
        "iter_fasta_records(path)": lambda: _recs(iter_fasta_records(p)),
        "iter_fasta_records(bytes)": lambda: _recs(iter_fasta_records(text.encode("latin-1"))),
        "PARSERS[fasta](str path)": lambda: _recs(PARSERS["fasta"](str(p))),
    }
    bad = []
    for which, f in variants.items():
        got = _exc(f)
        if got != want:
            gt = any(">" in n for n, _ in want)
            bytes_based = "path)" in which and "iter_fasta" in which or "bytes" in which or "PARSERS" in which
            if gt and bytes_based and not isinstance(got, dict) and all(
                g[1] == w[1] and (g[0] == w[0] or g[0] == w[0].split(">")[-1].strip()) for g, w in zip(got, want)
            ) and len(got) == len(want):
                cls = "label-cut-at-gt"
            elif gt and bytes_based:
                cls = "label-gt-other"
            else:
                cls = "other:" + which
            bad.append((f"agree:fasta:{cls}", want, got, which))
    p.unlink()
    return bad


def _variations(rng, names, seqs):
    """well-formed FASTA texts for the same records: different wrap widths, CRLF, blank lines between
    records, trailing blanks after residues, no final newline"""
    bs = rng.choice([1, 3, 7, 59, 60, 61, 1000])
    eol = rng.choice(["\n", "\n", "\r\n"])
    lines = []
    for n, s in zip(names, seqs):
        lines.append(">" + n)
        lines += [l + rng.choice(["", "", " "]) for l in textwrap.wrap(s, bs)]
        if rng.random() < 0.2:
            lines.append("")
    return eol.join(lines) + rng.choice([eol, eol, ""])


def gen_gb_location(rng, L):
    """(location string, parts in GenBank order [(start, stop, strand)], sorted spans, strand) -- Spec: 1-based
    inclusive a..b is the python span (a-1, b); complement reverses the part order and flips the strand"""
    k = rng.choice([1, 1, 2, 3]) if L >= 8 else 1
    cuts = sorted(rng.sample(range(1, L + 1), min(2 * k, L)))
    pairs = [(cuts[i], cuts[i + 1]) for i in range(0, len(cuts) - 1, 2)] or [(1, L)]
    comp = rng.random() < 0.5
    segs = ",".join(f"{a}..{b}" for a, b in pairs)
    text = segs if len(pairs) == 1 else f"join({segs})"
    if comp:
        text = f"complement({text})"
    parts = [[a - 1, b, 1] for a, b in pairs]
    if comp:
        parts = [[a, b, -1] for a, b, _ in reversed(parts)]
    return text, parts, sorted([a - 1, b] for a, b in pairs), -1 if comp else 1


def real_gb_location(text):
    from cogent3.parse.genbank import location_line_tokenizer, parse_location_line

    try:
        ll = parse_location_line(location_line_tokenizer([text]))
        return dict(parts=[[int(l.start), int(l.stop) + 1, int(l.strand)] for l in ll],
                    coords=[[int(a), int(b)] for a, b in ll.get_coordinates()], strand=_exc(lambda: int(ll.strand)))
    except Exception as e:  # noqa: BLE001
        return {"err": type(e).__name__}


def genbank_features_once(scratch, text, want_feats):
    """feature coordinates: minimal_parser's Location objects vs rich_parser's annotation db vs what was written"""
    from pathlib import Path

    from cogent3.parse import genbank

    p = Path(scratch) / "gf.gb"
    p.write_text(text)
    try:
        mini = []
        for r in genbank.minimal_parser(p):
            mini.append([[f["type"], [[int(l.start), int(l.stop) + 1, int(l.strand)] for l in f["location"]]]
                         for f in r["features"] if f["type"] != "source"])
        rich = []
        for _, seq in genbank.rich_parser(p):
            rich.append([[f["biotype"], [[int(a), int(b)] for a, b in f["spans"]], f["strand"]]
                         for f in seq.annotation_db.get_features_matching() if f["biotype"] != "source"])
    except Exception as e:  # noqa: BLE001
        return "genbank:feature-coords", want_feats, {"err": type(e).__name__, "msg": str(e)[:120]}
    finally:
        p.unlink()
    w_mini = [[[k, parts] for k, parts, _, _ in fs] for fs in want_feats]
    w_rich = [sorted([k, spans, "-" if st < 0 else "+"] for k, _, spans, st in fs) for fs in want_feats]
    if mini != w_mini or [sorted(x) for x in rich] != w_rich:
        return "genbank:feature-coords", dict(minimal=w_mini, rich=w_rich), dict(minimal=mini, rich=rich)
    return None


def _genbank_text(rng, recs, feats=None):
    out = []
    for name, seq in recs:
        locus = "".join(c for c in name if c.isalnum())[:12] or "L1"
        out.append(f"LOCUS       {locus:<16} {len(seq)} bp    DNA     linear   UNA 01-JAN-2000")
        out.append(f"DEFINITION  generated {locus}.")
        out.append(f"ACCESSION   {locus}")
        out.append("FEATURES             Location/Qualifiers")
        out.append(f"     source          1..{len(seq)}")
        out.append('                     /organism="Test organism"')
        out.append('                     /mol_type="genomic DNA"')
        if feats is not None:
            fs = []
            for i in range(rng.randint(0, 3)):
                kind = rng.choice(["gene", "CDS", "misc_feature"])
                loc, parts, spans, strand = gen_gb_location(rng, len(seq))
                out.append(f"     {kind:<16}{loc}")
                out.append(f'                     /gene="g{i}"')
                fs.append([kind, parts, spans, strand])
            feats.append(fs)
        elif len(seq) > 3:
            out.append(f"     gene            2..{len(seq) - 1}")
            out.append('                     /gene="g1"')
        out.append("ORIGIN")
        low = seq.lower()
        for i in range(0, len(low), 60):
            chunk = low[i : i + 60]
            out.append(f"{i + 1:>9} " + " ".join(chunk[j : j + 10] for j in range(0, len(chunk), 10)))
        out.append("//")
    return "\n".join(out) + "\n", [("".join(c for c in n if c.isalnum())[:12] or "L1", s) for n, s in recs]


def genbank_once(scratch, text, want):
    """minimal_parser / rich_parser / rich_parser(just_seq) / the line based MinimalGenbankParser on one flat file"""
    from pathlib import Path

    from cogent3.parse import genbank

    p = Path(scratch) / "g.gb"
    p.write_text(text)
    w = [[n, s] for n, s in want]
    got = {
        "minimal_parser": _exc(lambda: [[r["locus"], r["sequence"].upper()] for r in genbank.minimal_parser(p)]),
        "rich_parser": _exc(lambda: [[n, str(s)] for n, s in genbank.rich_parser(p)]),
        "rich_parser(just_seq)": _exc(lambda: [[n, str(s)] for n, s in genbank.rich_parser(str(p), just_seq=True)]),
    }
    old = getattr(genbank, "MinimalGenbankParser", None)
    if old is not None:
        old = getattr(old, "__wrapped__", old)  # the deprecation decorator prints a warning per call
        got["MinimalGenbankParser(lines)"] = _exc(lambda: [[r["locus"], r["sequence"].upper()] for r in old(text.splitlines())])
    p.unlink()
    if all(v == w for v in got.values()):
        return None
    new = [got[k] for k in ("minimal_parser", "rich_parser", "rich_parser(just_seq)")]
    if len(want) > 1 and all(v == {"err": "IndexError"} for v in new) and got.get("MinimalGenbankParser(lines)", w) == w:
        return "genbank:multi-record-indexerror", w, got
    return "genbank:parsers-differ", w, got


def spec_check(ctx, budget):
    out = new_outcome(
        "real code vs the identity spec: obj.write(path) then load_aligned_seqs/load_unaligned_seqs for suffixes "
        "fasta/fa/mfa/phylip/paml/gde/json x ''/.gz/.bz2/.zip x ArrayAlignment/Alignment/SequenceCollection(old,new) "
        "(names printable ASCII incl. > | blanks, 9/10/11-char names; lengths 1..3,59,60,61,119..121,180; DNA/RNA/protein "
        "with gaps); all FASTA parser variants on well-formed texts (wrap widths, CRLF, blank lines); iter_splitlines for "
        "every chunk size vs str.splitlines of the whole file; GenBank minimal vs rich parser; non-trivial = distinct "
        "(kind, suffix, compression, names, seqs) / (text) / (text, chunk_size) actually compared"
    )
    rng = ctx.subrng(f"spec{budget}")
    scratch = ctx.scratch / f"spec{budget}"
    scratch.mkdir(exist_ok=True)

    # ---- A. write / load round trip -------------------------------------------
    n_sets = 40 * budget
    combos = [(k, s, c) for k in KINDS for s in SUFFIXES for c in COMPRESS]
    for i in range(n_sets):
        ragged = i % 4 == 3
        mt, names, seqs = gen_recset(rng, ragged=ragged, distinct_trunc=True)
        if i == 0:
            names, seqs, mt = ["a>b c", "x|y", "abcdefghi", "ABCDEFGHIJK"], ["ACGT-A"] * 4, "dna"
        # every suffix and compression for one kind per set, plus a random sample of the full product
        kind0 = KINDS[i % len(KINDS)]
        todo = [(kind0, s, c) for s in SUFFIXES for c in COMPRESS] + rng.sample(combos, 10)
        for kind, sfx, cmp_ in todo:
            fam = _fmt_family(sfx)
            if ragged and (kind in ("array_align", "alignment") or fam in ("phylip", "paml")):
                continue  # ragged data is not an alignment; PHYLIP/PAML are alignment formats
            res = roundtrip_once(scratch, kind, sfx, cmp_, names, seqs, mt)
            out["evaluations"] += 1
            out["nontrivial"].add(("rt", kind, sfx, cmp_, tuple(names), tuple(seqs)))
            bump(out, "rt_format", fam)
            bump(out, "rt_compression", cmp_ or "plain")
            bump(out, "rt_kind", kind)
            bump(out, "rt_name_features", "gt" if any(">" in n for n in names) else ("blank" if any(" " in n for n in names) else "plain"))
            bump(out, "rt_len_mod_60", str(len(seqs[0]) % WRAP))
            if res is not None:
                sig, want, got = res
                _spec_fail(
                    out, f"write/load round trip differs ({sig})",
                    dict(check="roundtrip", kind=kind, suffix=sfx, compression=cmp_, names=names, seqs=seqs, moltype=mt),
                    want, got, sig,
                )
            elif len(out["samples"]) < 3 and len(names) > 2 and cmp_:
                out["samples"].append(dict(check="roundtrip", kind=kind, file=f"x.{sfx}{cmp_}", names=names, seq_len=len(seqs[0]), result="identical"))

    # ---- A2. explicit format= on write AND load; the file name's suffix is irrelevant then ------------------------
    for i in range(60 * budget):
        ragged = i % 5 == 4
        mt, names, seqs = gen_recset(rng, ragged=ragged, distinct_trunc=True, small=i % 2 == 0)
        fmt = rng.choice(EXPLICIT_FORMATS if not ragged else ["fasta", "gde"])
        kind = rng.choice(["collection", "collection_new"] if ragged else KINDS)
        loader = rng.choice(["aligned", "aligned", "unaligned", "seq"] if kind in ("array_align", "alignment") else ["unaligned", "unaligned", "seq"])
        fname, ncls = gen_filename(rng, fmt)
        res = explicit_once(scratch, kind, fmt, fname, loader, names, seqs, mt)
        out["evaluations"] += 1
        out["nontrivial"].add(("explicit", kind, fmt, fname, loader, tuple(names), tuple(seqs)))
        bump(out, "explicit_suffix_class", ncls)
        bump(out, "explicit_format", fmt)
        bump(out, "explicit_loader", loader)
        if res is not None:
            cls, want, got = res
            sig = f"explicit:{ncls}:{loader}:{cls}"
            _spec_fail(out, f"write(format={fmt!r}) / load(format={fmt!r}) round trip through {fname!r} differs ({sig})",
                       dict(check="explicit", kind=kind, fmt=fmt, fname=fname, loader=loader, names=names, seqs=seqs, moltype=mt),
                       want, got, sig)
        elif len(out["samples"]) < 5 and ncls == "other-format":
            out["samples"].append(dict(check="explicit format", kind=kind, format=fmt, file=fname, loader=loader, result="identical"))

    # ---- B. parser variants agree, labels verbatim ------------------------------
    for i in range(120 * budget):
        mt, names, seqs = gen_recset(rng, ragged=True, distinct_trunc=False, small=i % 2 == 0)
        text = _variations(rng, names, seqs)
        want = [[n, s] for n, s in zip(names, seqs)]
        out["evaluations"] += 1
        out["nontrivial"].add(("agree", text))
        bump(out, "agree_texts", "crlf" if "\r\n" in text else "lf")
        for sig, w, got, which in _agree_once(scratch, text, want):
            _spec_fail(out, f"FASTA parser variant {which} differs from the records written ({sig})",
                       dict(check="agree", text=text, names=names, seqs=seqs, variant=which), w, got, sig)
    # GDE / PHYLIP / PAML: file based registry parser vs line based call, strict vs non-strict
    from cogent3.format.alignment import FORMATTERS
    from cogent3.parse.fasta import MinimalGdeParser
    from cogent3.parse.sequence import PARSERS

    for i in range(30 * budget):
        mt, names, seqs = gen_recset(rng, ragged=False, distinct_trunc=True, small=i % 2 == 0)
        bs = rng.choice([1, 4, 59, 60, 61])
        for fam in ("gde", "phylip", "paml"):
            text = FORMATTERS[fam](dict(zip(names, seqs)), block_size=bs, order=list(names))
            p = scratch / f"pv.{fam}"
            p.write_text(text)
            want = [[trunc_name(n) if fam == "phylip" else n, s] for n, s in zip(names, seqs)]
            variants = {"registry(path)": lambda: _recs(PARSERS[fam](p)), "registry(str)": lambda: _recs(PARSERS[fam](str(p))),
                        "registry(lines)": lambda: _recs(PARSERS[fam](text.splitlines()))}
            if fam == "gde":
                variants["MinimalGdeParser(non-strict)"] = lambda: _recs(MinimalGdeParser(text.splitlines(), strict=False))
            for which, f in variants.items():
                got = _exc(f)
                out["evaluations"] += 1
                bump(out, "agree_other_formats", fam)
                if got != want:
                    _spec_fail(out, f"{fam} parser variant {which} differs from the records written",
                               dict(check="agree_fmt", fmt=fam, names=names, seqs=seqs, block_size=bs, variant=which),
                               want, got, f"agree:{fam}:{which}")

    # ---- B2. well-formed FASTA that is not writer shaped: every variant returns the records ------------
    for i in range(60 * budget):
        recs = gen_general(rng)
        text, want = general_text(recs), general_records(recs)
        out["evaluations"] += 1
        out["nontrivial"].add(("general", text))
        bump(out, "general_spec", "crlf" if "\r\n" in text else "lf")
        for sig, w, got, which in variants_once(scratch, "general", text, want):
            _spec_fail(out, f"FASTA parser variant {which} differs on a well-formed (not writer shaped) text ({sig})",
                       dict(check="variants", stream="general", text=text, want=want, variant=which), w, got, sig)
    # ---- B4. well-formed PHYLIP that is not writer shaped (blank separated groups, interleaved): every variant returns the records
    for i in range(40 * budget):
        text, want, mt, layout = gen_phylip_general(rng)
        out["evaluations"] += 1
        out["nontrivial"].add(("phylip_general", text))
        bump(out, "phylip_general", layout + ("/crlf" if "\r\n" in text else "/lf"))
        for which, got in phylip_variants(scratch, text, mt).items():
            if got != want:
                _spec_fail(out, f"PHYLIP parser variant {which} differs on a well-formed {layout} file",
                           dict(check="phylip_general", text=text, want=want, moltype=mt, variant=which), want, got,
                           f"agree:phylip:{layout}:{which}")
        if i % 6 == 0:
            p = scratch / "pg.phylip"
            p.write_bytes(text.encode("latin-1"))
            for cs in _chunk_sizes(min(len(text), 80), rng, 6):
                got, _ = real_streamed("phylip", p, cs)
                out["evaluations"] += 1
                if got != want:
                    _spec_fail(out, f"MinimalPhylipParser(iter_splitlines(path, chunk_size={cs})) differs on a well-formed {layout} file",
                               dict(check="streamed", parser="phylip", fmt="phylip", text=text, chunk_size=cs, want=want), want, got, "streamed:phylip")
    # ---- B3. the shapes on which the parsers of the library disagree (outside wfFile): tracked as findings ----
    for i in range(5 * budget):
        recs = gen_general(rng, lower_ok=False)
        base, want = general_text(recs), general_records(recs)
        junk = "".join(rng.choice(["\n", "\r\n", "# " + gen_name(rng) + "\n", "#\n"]) for _ in range(rng.randint(1, 3)))
        k = rng.randrange(len(recs))
        com = [dict(g, body=list(g["body"])) for g in recs]
        com[k]["body"].insert(rng.randrange(1, len(com[k]["body"]) + 1) if rng.random() < 0.7 else 0, ["#" + gen_name(rng), "lf"])
        if com[k]["body"][-1][1] == "eof" or any(t == "eof" for _, t in com[k]["body"][:-1]):
            com[k]["body"] = [[c, "lf" if t == "eof" else t] for c, t in com[k]["body"]]
        emp = [dict(g) for g in recs]
        emp.insert(rng.randrange(len(emp) + 1), dict(pre="", name=gen_name(rng), post="", crlf=False, body=[]))
        if emp[-1]["body"] == []:
            emp = emp[-1:] + emp[:-1]
        emp = [dict(g, body=[[c, "lf" if t == "eof" else t] for c, t in g["body"]]) for g in emp]
        low = general_text([dict(g, body=[[c.lower(), t] for c, t in g["body"]]) for g in recs])
        gde_names = gen_names(rng, 2)
        gde = f"#{gde_names[0]}\nACGT\nAC\n%{gde_names[1]}\nGGTT\n" if i % 2 else f"%{gde_names[0]}\nACGT\n#{gde_names[1]}\nGGTT\nAA\n"
        gde_want = [[gde_names[0], "ACGTAC"], [gde_names[1], "GGTT"]] if i % 2 else [[gde_names[0], "ACGT"], [gde_names[1], "GGTTAA"]]
        for stream, text, w in (("pre-label", junk + base, want), ("comment", general_text(com), want),
                                ("empty-record", general_text(emp), None), ("case-dispatch", low, None), ("gde-hash", gde, gde_want)):
            out["evaluations"] += 1
            bump(out, "disagreement_streams", stream)
            for sig, ww, got, which in variants_once(scratch, stream, text, w):
                _spec_fail(out, f"parser variants disagree ({sig}): {which}",
                           dict(check="variants", stream=stream, text=text, want=w, variant=which), ww, got, sig)

    # ---- C. every chunk size gives the same lines --------------------------------
    from cogent3.util.io import iter_splitlines

    for i in range(16 * budget):
        mt, names, seqs = gen_recset(rng, ragged=True, distinct_trunc=False, small=True)
        text = _variations(rng, names[:3], seqs[:3])[: rng.choice([30, 60, 90])]
        p = scratch / "chunks.fasta"
        p.write_bytes(text.encode("latin-1"))
        want = text.splitlines()
        for cs in range(1, len(text) + 2):
            got = _exc(lambda: list(iter_splitlines(p, chunk_size=cs)))
            out["evaluations"] += 1
            out["nontrivial"].add(("chunks", text, cs))
            if got != want:
                _spec_fail(out, "iter_splitlines depends on the chunk size",
                           dict(check="chunks", text=text, chunk_size=cs), want, got, "chunks:lines-differ")
        bump(out, "chunk_files", "crlf" if "\r\n" in text else "lf")

    # ---- C2. parser o iter_splitlines on the real code: every format, small chunk sizes ------------
    from cogent3.format.alignment import FORMATTERS as _FMT

    for i in range(6 * budget):
        mt, names, seqs = gen_recset(rng, ragged=False, distinct_trunc=True, small=i % 3 != 0)
        bs = rng.choice([1, 3, 7, 59, 60, 61])
        for fam, parsers in STREAM_PARSERS.items():
            text = _FMT[fam](dict(zip(names, seqs)), block_size=bs, order=list(names))
            if i % 4 == 3:
                text = text.replace("\n", "\r\n")
            p = scratch / f"stream.{fam}"
            p.write_bytes(text.encode("latin-1"))
            want = [[trunc_name(n) if fam == "phylip" else n, s] for n, s in zip(names, seqs)]
            for which in parsers:
                for cs in _chunk_sizes(len(text), rng, 12):
                    got, _ = real_streamed(which, p, cs)
                    out["evaluations"] += 1
                    out["nontrivial"].add(("stream", which, text, cs))
                    bump(out, "streamed_real", which)
                    if got != want:
                        _spec_fail(out, f"{which}(iter_splitlines(path, chunk_size={cs})) differs from the records written",
                                   dict(check="streamed", parser=which, fmt=fam, text=text, chunk_size=cs, want=want),
                                   want, got, f"streamed:{which}")

    # ---- D. GenBank parser variants (exercised only: no model, no theorem) ------------
    for i in range(12 * budget):
        mt, names, seqs = gen_recset(rng, ragged=True, distinct_trunc=False)
        if i % 2 == 0:
            names, seqs = names[:1], seqs[:1]
        recs = [(n, gen_seq(rng, "dna", len(s), False)) for n, s in zip(names, seqs)]
        text, want = _genbank_text(rng, recs)
        out["evaluations"] += 1
        bump(out, "genbank_records", len(recs))
        res = genbank_once(scratch, text, want)
        if res:
            _spec_fail(out, f"GenBank parser variants differ on a generated flat file ({res[0]})",
                       dict(check="genbank", text=text, want=[list(w) for w in want]), res[1], res[2], res[0])
        feats = []
        ftext, _ = _genbank_text(rng, [(n, s) for n, s in recs if len(s) >= 2], feats)
        if feats:
            out["evaluations"] += 1
            bump(out, "genbank_features", sum(len(f) for f in feats))
            res = genbank_features_once(scratch, ftext, feats)
            if res:
                _spec_fail(out, "GenBank feature coordinates: minimal_parser / rich_parser / the spans written differ",
                           dict(check="genbank_features", text=ftext, want=feats), res[1], res[2], res[0])
    # ---- E. Clustal: writer -> file -> loader / streamed registry parser; every wrap width (Model/Clustal.lean) ------
    for i in range(14 * budget):
        mt, _, seqs = gen_recset(rng, ragged=False, distinct_trunc=False, small=i % 2 == 0)
        names = gen_clustal_names(rng, len(seqs))
        seqs = seqs[: len(names)]
        L = len(seqs[0])
        wrap = rng.choice(CLUSTAL_WRAPS + [L, L + 1, max(1, L - 1)])
        sfx = rng.choice(["aln", "aln", "clustal", "txt", "fasta"])
        css = [None] + (_chunk_sizes(60, rng, 5) if i % 3 == 0 else [])
        for cs in css:
            res = clustal_once(scratch, names, seqs, wrap, mt, sfx, cs)
            out["evaluations"] += 1
            out["nontrivial"].add(("clustal", tuple(names), tuple(seqs), wrap, sfx, cs))
            bump(out, "clustal_wrap", str(wrap))
            if res:
                _spec_fail(out, f"Clustal writer / parser round trip differs ({res[0]})",
                           dict(check="clustal", names=names, seqs=seqs, wrap=wrap, moltype=mt, suffix=sfx, chunk_size=cs),
                           res[1], res[2], res[0])
    # ---- E2. well-formed Clustal / MUSCLE files that are not writer shaped: every way of parsing returns the records ----
    for i in range(30 * budget):
        text, want, mt = gen_clustal_general(rng)
        out["evaluations"] += 1
        out["nontrivial"].add(("clustal_general", text))
        bump(out, "clustal_general", ("linenos" if want and text.rstrip()[-1:].isdigit() else "plain") + ("/crlf" if "\r\n" in text else "/lf"))
        for which, got in clustal_variants(scratch, text, mt).items():
            if got != want:
                _spec_fail(out, f"Clustal parser variant {which} differs on a well-formed file",
                           dict(check="clustal_general", text=text, want=want, moltype=mt, variant=which), want, got, f"agree:clustal:{which}")
        if i % 5 == 0:
            p = scratch / "cg.aln"
            p.write_bytes(text.encode("latin-1"))
            for cs in _chunk_sizes(min(len(text), 80), rng, 6):
                got, _ = real_streamed("aln", p, cs)
                out["evaluations"] += 1
                if got != want:
                    _spec_fail(out, f"ClustalParser(iter_splitlines(path, chunk_size={cs})) differs on a well-formed file",
                               dict(check="streamed", parser="aln", fmt="aln", text=text, chunk_size=cs, want=want), want, got, "streamed:aln")
    out.pop("_per_sig", None)
    return out


# --------------------------------------------------------------------------
# findings, replay
# --------------------------------------------------------------------------
def match_finding(f, k):
    if f.get("sig") not in k.get("sigs", []):
        return False
    r = k.get("restrict") or {}
    inp = f.get("input") or {}
    if r.get("needs_gt_in_name") and not any(">" in n for n in inp.get("names", [])):
        return False
    if r.get("compression") and inp.get("compression") != r["compression"]:
        return False
    if r.get("not_suffix") and inp.get("suffix") in r["not_suffix"]:
        return False
    if r.get("kind") and inp.get("kind") != r["kind"]:
        return False
    if r.get("suffix") and inp.get("suffix") != r["suffix"]:
        return False
    return True


def _rerun(ctx, inp):
    """re-evaluate one recorded input on the real code -> failure dict or None"""
    out = new_outcome()
    scratch = ctx.scratch / "replay"
    scratch.mkdir(exist_ok=True)
    chk = inp.get("check")
    if chk == "roundtrip":
        res = roundtrip_once(scratch, inp["kind"], inp["suffix"], inp["compression"], inp["names"], inp["seqs"], inp["moltype"], tag="rp")
        if res:
            add_failure(out, "spec", f"write/load round trip differs ({res[0]})", inp, res[1], res[2], sig=res[0])
    elif chk == "agree":
        want = [[n, s] for n, s in zip(inp["names"], inp["seqs"])]
        for sig, w, got, which in _agree_once(scratch, inp["text"], want, tag="rp"):
            if inp.get("variant") in (None, which):
                add_failure(out, "spec", f"FASTA parser variant {which} differs ({sig})", dict(inp, variant=which), w, got, sig=sig)
    elif chk == "explicit":
        res = explicit_once(scratch, inp["kind"], inp["fmt"], inp["fname"], inp["loader"], inp["names"], inp["seqs"], inp["moltype"])
        if res:
            add_failure(out, "spec", f"explicit format round trip differs ({res[0]})", inp, res[1], res[2], sig=f"explicit:{res[0]}")
    elif chk == "variants":
        for sig, w, got, which in variants_once(scratch, inp["stream"], inp["text"], inp.get("want")):
            add_failure(out, "spec", f"parser variants disagree ({sig}): {which}", dict(inp, variant=which), w, got, sig=sig)
    elif chk == "streamed":
        p = scratch / f"rp.{inp['fmt']}"
        p.write_bytes(inp["text"].encode("latin-1"))
        got, _ = real_streamed(inp["parser"], p, inp["chunk_size"])
        if got != inp["want"]:
            add_failure(out, "spec", f"{inp['parser']}(iter_splitlines(path, chunk_size)) differs", inp, inp["want"], got, sig=f"streamed:{inp['parser']}")
    elif chk == "clustal":
        res = clustal_once(scratch, inp["names"], inp["seqs"], inp["wrap"], inp["moltype"], inp.get("suffix", "aln"), inp.get("chunk_size"))
        if res:
            add_failure(out, "spec", f"Clustal writer / parser round trip differs ({res[0]})", inp, res[1], res[2], sig=res[0])
    elif chk == "phylip_general":
        for which, got in phylip_variants(scratch, inp["text"], inp.get("moltype", "dna"), tag="rp").items():
            if got != inp["want"] and inp.get("variant") in (None, which):
                layout = "interleaved" if len(inp["text"].splitlines()[0].split()) > 2 else "sequential"
                add_failure(out, "spec", f"PHYLIP parser variant {which} differs on a well-formed file", dict(inp, variant=which),
                            inp["want"], got, sig=f"agree:phylip:{layout}:{which}")
    elif chk == "clustal_general":
        for which, got in clustal_variants(scratch, inp["text"], inp.get("moltype", "dna"), tag="rp").items():
            if got != inp["want"] and inp.get("variant") in (None, which):
                add_failure(out, "spec", f"Clustal parser variant {which} differs on a well-formed file", dict(inp, variant=which),
                            inp["want"], got, sig=f"agree:clustal:{which}")
    elif chk == "genbank_features":
        res = genbank_features_once(scratch, inp["text"], inp["want"])
        if res:
            add_failure(out, "spec", "GenBank feature coordinates differ", inp, res[1], res[2], sig=res[0])
    elif chk == "genbank":
        res = genbank_once(scratch, inp["text"], [tuple(w) for w in inp["want"]])
        if res:
            add_failure(out, "spec", f"GenBank parser variants differ ({res[0]})", inp, res[1], res[2], sig=res[0])
    elif chk == "chunks":
        from cogent3.util.io import iter_splitlines

        p = scratch / "rp.fasta"
        p.write_bytes(inp["text"].encode("latin-1"))
        got = _exc(lambda: list(iter_splitlines(p, chunk_size=inp["chunk_size"])))
        if got != inp["text"].splitlines():
            add_failure(out, "spec", "iter_splitlines depends on the chunk size", inp, inp["text"].splitlines(), got, sig="chunks:lines-differ")
    return out["failures"][0] if out["failures"] else None


def check_witness(ctx, w):
    return _rerun(ctx, w)


def replay(ctx, data):
    f = data.get("failing_input") or {}
    inp = f.get("input")
    if not inp:
        return False
    r = _rerun(ctx, inp)
    if r:
        print("expected", r["expected"], "got", r["got"])
    return r is not None
