"""C06 — Sequence file formats round-trip and all parsers of a format agree."""
from __future__ import annotations

import itertools
import os
import string
import textwrap

from .common import add_failure, bump, new_outcome

PROP = "C06"
PROPS_FILES = ["CogentModel/Props/C06.lean"]
LEAN_TARGETS = ["CogentModel.Props.C06"]
DRIVER = "drv_c06"
TRUSTED = [
    "hand-written models lean/CogentModel/Model/Splitlines.lean (str.splitlines, util/io.iter_splitlines loop) and "
    "Model/SeqFormats.lean (seqs_to_fasta, GDE/PAML/PHYLIP formatters, _strict_parser, _faster_parser, "
    "iter_fasta_records(bytes), PamlParser, MinimalPhylipParser), tied by behavioural correspondence each run",
    "textwrap.wrap is an external: the FASTA theorems hold for ANY wrapping into non-empty lines; its contract "
    "(concatenation = input, no empty line, width respected) is checked on every generated sequence",
    "the chunks infile.read(chunk_size) returns are recorded from the real file object (a recording proxy around open_)",
]
ASSUMPTIONS = [
    "JSON, gzip/bz2/zip, chardet and open_ are exercised by the real-code round trip, not modelled",
    "GenBank minimal vs rich parser: exercised on generated flat-file records only (no theorem)",
    "names are printable ASCII without leading/trailing blank; sequences are non-empty over the moltype alphabets (upper case)",
    "iter_splitlines theorem assumes '\\n' is the only line-boundary character of the decoded text "
    "(form feed etc. make the real loop chunk dependent: theorem splitlines_formfeed_counter; not well-formed sequence data)",
]

PRINTABLE = [chr(i) for i in range(32, 127)]
NAMEY = string.ascii_letters + string.digits + "_>|. -%#:;,="
ALPH = {"dna": "ACGT", "rna": "ACGU", "protein": "ACDEFGHIKLMNPQRSTVWY"}
GAPPY = {"dna": "ACGT" + "--?NRY", "rna": "ACGU" + "--?NRY", "protein": "ACDEFGHIKLMNPQRSTVWY" + "--?X"}
ERRS = ("RecordError", "ValueError", "AttributeError", "IndexError", "TypeError")


# --------------------------------------------------------------------------
# generators
# --------------------------------------------------------------------------
def gen_name(rng, wf=True):
    n = rng.choice([1, 1, 2, 3, 5, 8, 9, 10, 11, 12, 20])
    pool = PRINTABLE if rng.random() < 0.4 else NAMEY
    for _ in range(200):
        s = "".join(rng.choice(pool) for _ in range(n))
        if not wf:
            return rng.choice(["", " ", "  "]) + s + rng.choice(["", " ", "\t"])
        if s and s.strip() == s:
            return s
    return "n" * n


def trunc_name(n):
    """the documented PHYLIP truncation (Spec.SeqRecords.truncName)"""
    return n[:9].rstrip(" ")


def gen_names(rng, k, distinct_trunc=False, wf=True):
    names = []
    for _ in range(1000):
        if len(names) == k:
            break
        n = gen_name(rng, wf)
        if n in names:
            continue
        if distinct_trunc and trunc_name(n) in [trunc_name(m) for m in names]:
            continue
        names.append(n)
    return names


WRAP = 60
LENS = [1, 2, 3, 7, WRAP - 1, WRAP, WRAP + 1, 2 * WRAP - 1, 2 * WRAP, 2 * WRAP + 1, 3 * WRAP]


def gen_seq(rng, mt, L, gaps):
    a = GAPPY[mt] if gaps else ALPH[mt]
    return "".join(rng.choice(a) for _ in range(L))


def gen_recset(rng, ragged=False, distinct_trunc=True, small=False):
    mt = rng.choice(["dna", "dna", "rna", "protein"])
    k = rng.randint(1, 5)
    names = gen_names(rng, k, distinct_trunc=distinct_trunc)
    gaps = rng.random() < 0.5
    lens = [1, 2, 3, 4, 5, 7, 8, 9, 11, 12, 13] if small else LENS
    L = rng.choice(lens)
    seqs = [gen_seq(rng, mt, rng.choice(lens) if ragged else L, gaps) for _ in names]
    return mt, names, seqs


# --------------------------------------------------------------------------
# running the real code (exceptions -> class name)
# --------------------------------------------------------------------------
def _exc(f):
    try:
        return f()
    except Exception as e:  # noqa: BLE001
        return {"err": type(e).__name__}


def _recs(it):
    return [[str(a), str(b)] for a, b in it]


def real_strict(lines, lc=">"):
    from cogent3.parse.fasta import MinimalFastaParser

    return _exc(lambda: _recs(MinimalFastaParser(list(lines), strict=True, label_characters=lc)))


def real_faster(lines, lc=">"):
    from cogent3.parse.fasta import MinimalFastaParser

    return _exc(lambda: _recs(MinimalFastaParser(list(lines), strict=False, label_characters=lc)))


def real_bytes(text):
    from cogent3.parse.fasta import iter_fasta_records

    return _exc(lambda: _recs(iter_fasta_records(text.encode("utf8"))))


def real_paml(lines):
    from cogent3.parse.paml import PamlParser

    return _exc(lambda: _recs(PamlParser(list(lines))))


def real_phylip(lines):
    from cogent3.parse.phylip import MinimalPhylipParser

    return _exc(lambda: _recs(MinimalPhylipParser(list(lines))))


def real_format(fmt, names, seqs, bs):
    from cogent3.format.alignment import FORMATTERS

    data = dict(zip(names, seqs))
    return _exc(lambda: FORMATTERS[fmt](data, block_size=bs, order=list(names)))


class _RecordingFile:
    def __init__(self, f, chunks):
        self._f, self._chunks = f, chunks

    def read(self, n=None):
        d = self._f.read(n) if n is not None else self._f.read()
        self._chunks.append(d)
        return d

    def __enter__(self):
        self._f.__enter__()
        return self

    def __exit__(self, *a):
        return self._f.__exit__(*a)

    def __getattr__(self, k):
        return getattr(self._f, k)


def real_iter_splitlines(path, chunk_size):
    """(lines yielded, chunks the loop obtained from infile.read)"""
    from cogent3.util import io as c3io

    chunks = []
    orig = c3io.open_

    def rec_open(*a, **kw):
        return _RecordingFile(orig(*a, **kw), chunks)

    c3io.open_ = rec_open
    try:
        lines = list(c3io.iter_splitlines(path, chunk_size=chunk_size))
    finally:
        c3io.open_ = orig
    return lines, chunks


# --------------------------------------------------------------------------
# correspondence: Lean model vs real implementation
# --------------------------------------------------------------------------
def _cmp(out, what, inp, model, real, ntkey=None):
    out["evaluations"] += 1
    if model != real:
        add_failure(out, "corr", what, inp, model, real, confirmed=False)
        return False
    if ntkey is not None:
        out["nontrivial"].add(ntkey)
    return True


def _line_pool(rng, lc=">"):
    name = gen_name(rng, wf=rng.random() < 0.7)
    seq = gen_seq(rng, "dna", rng.randint(1, 9), True)
    r = rng.random()
    if r < 0.28:
        return rng.choice(lc) + name
    if r < 0.62:
        return seq
    if r < 0.68:
        return ""
    if r < 0.73:
        return rng.choice(["  ", "\t", " \x0c"])
    if r < 0.79:
        return "#" + name
    if r < 0.85:
        return " " + seq + rng.choice(["", " ", "\t"])
    if r < 0.9:
        return seq[:3] + " " + seq[3:]
    if r < 0.94:
        return seq.lower()
    if r < 0.97:
        return rng.choice(lc)
    return seq + rng.choice(lc) + name


def correspondence(ctx):
    out = new_outcome(
        "model vs real on identical inputs: str.splitlines (exhaustive over {a,\\n,\\r,\\f}^<=5 + random incl. all "
        "boundary chars); iter_splitlines on real files with EVERY chunk size 1..len+1 (exhaustive {a,\\n}^<=6, "
        "{a,\\n,\\r}^<=4, random FASTA-like files incl. CRLF / no final newline / form feed), chunks recorded from "
        "the real file object; the four writers on generated name/sequence sets for block sizes 1..13,59,60,61 "
        "(incl. ragged + malformed names); all parsers on writer output and on a separate malformed line stream; "
        "non-trivial = distinct input whose real result is a non-empty record/line list or an exception"
    )
    rng = ctx.subrng("corr")
    drv = ctx.driver

    # ---- 1. str.splitlines ------------------------------------------------
    texts = []
    for n in range(0, 6):
        for t in itertools.product("a\n\r\x0c", repeat=n):
            texts.append("".join(t))
    brk = "\n\n\n\r\x0b\x0c\x1c\x1d\x1e\x85  "
    for _ in range(ctx.budget(4000, 40000)):
        n = rng.randint(0, 14)
        texts.append("".join(rng.choice(brk) if rng.random() < 0.3 else rng.choice("ab >\t\x1f\xa0") for _ in range(n)))
    rep = drv.batch([("splitlines", {"text": t}) for t in texts])
    for t, m in zip(texts, rep):
        real = t.splitlines()
        _cmp(out, "pySplitlines differs from str.splitlines", {"text": t}, m, real, ("sl", t) if real else None)
        bump(out, "splitlines_nlines", min(len(real), 6))

    # ---- 2. iter_splitlines, every chunk size ------------------------------
    files = []
    for n in range(0, 7):
        for t in itertools.product("a\n", repeat=n):
            files.append("".join(t))
    for n in range(1, 5):
        for t in itertools.product("a\n\r", repeat=n):
            if "\r" in t:
                files.append("".join(t))
    for _ in range(ctx.budget(70, 500)):
        mt, names, seqs = gen_recset(rng, ragged=True, small=True)
        eol = rng.choice(["\n", "\n", "\r\n"])
        lines = []
        for nm, s in zip(names[:3], seqs):
            lines.append(">" + nm[:6])
            lines += textwrap.wrap(s, rng.randint(2, 6))
            if rng.random() < 0.2:
                lines.append("")
        t = eol.join(lines) + (eol if rng.random() < 0.7 else "")
        if rng.random() < 0.15:
            t = t.replace("A", "\x0c", 1)  # malformed: form feed (model and code must still agree)
        files.append(t[:48])
    d = ctx.scratch / "corr_iter"
    d.mkdir(exist_ok=True)
    reqs, reals, meta = [], [], []
    for i, t in enumerate(files):
        p = d / f"f{i}.txt"
        p.write_bytes(t.encode("latin-1"))
        for cs in range(1, len(t.encode("latin-1")) + 2):
            try:
                lines, chunks = real_iter_splitlines(p, cs)
            except Exception as e:  # noqa: BLE001
                lines, chunks = {"err": type(e).__name__}, []
            reqs.append(("iter", {"chunks": chunks}))
            reals.append(lines)
            meta.append((t, cs, chunks))
    for (t, cs, chunks), real, m in zip(meta, reals, drv.batch(reqs)):
        ok = _cmp(out, "iterSplitlines differs from iter_splitlines", {"text": t, "chunk_size": cs, "chunks": chunks},
                  m, real, ("it", t, cs) if real else None)
        bump(out, "iter_chunk_size", cs if cs <= 8 else ">8")
        bump(out, "iter_nchunks", min(len(chunks), 10))
        if ok and len(out["samples"]) < 2 and len(chunks) > 3 and len(real) > 2:
            out["samples"].append(dict(kind="iter_splitlines", text=t, chunk_size=cs, lines=real))

    # ---- 3. writers ----------------------------------------------------------
    wreq, wreal, wmeta = [], [], []
    n_sets = ctx.budget(500, 5000)
    for i in range(n_sets):
        r = rng.random()
        mt, names, seqs = gen_recset(rng, ragged=r < 0.25, distinct_trunc=False, small=rng.random() < 0.5)
        if r > 0.9:
            names = gen_names(rng, len(names), wf=False)
            seqs = seqs[: len(names)]
        if i == 0:
            names, seqs = [], []
        bs = rng.choice([1, 2, 3, 4, 5, 6, 7, 8, 9, 10, 11, 12, 13, 59, 60, 61])
        recs = [[n, s] for n, s in zip(names, seqs)]
        # textwrap contract + FASTA writer with the external's lines
        wrapped = []
        for n, s in recs:
            ls = textwrap.wrap(s, bs)
            out["evaluations"] += 1
            if "".join(ls) != s or any((not l) or len(l) > bs for l in ls) or (s and not ls):
                add_failure(out, "corr", "textwrap.wrap breaks the wrapping contract", {"s": s, "bs": bs}, s, ls, confirmed=False)
            wrapped.append([n, ls])
        wreq.append(("fasta_format", {"recs": wrapped}))
        wreal.append(real_format("fasta", names, seqs, bs))
        wmeta.append(("fasta", names, seqs, bs))
        if all("-" not in s and " " not in s for s in seqs):
            wreq.append(("fasta_format_chunk", {"recs": recs, "bs": bs}))
            wreal.append(wreal[-1])
            wmeta.append(("fasta(block slicing)", names, seqs, bs))
        for fmt in ("gde", "paml", "phylip"):
            wreq.append((f"{fmt}_format", {"recs": recs, "bs": bs}))
            wreal.append(real_format(fmt, names, seqs, bs))
            wmeta.append((fmt, names, seqs, bs))
    texts_by_fmt = {"fasta": [], "gde": [], "paml": [], "phylip": []}
    for (fmt, names, seqs, bs), real, m in zip(wmeta, wreal, drv.batch(wreq)):
        ok = _cmp(out, f"{fmt} writer model differs", dict(fmt=fmt, names=names, seqs=seqs, block_size=bs), m, real,
                  ("w", fmt, tuple(names), tuple(seqs), bs) if real else None)
        bump(out, "writer", fmt)
        bump(out, "writer_block_size", bs)
        for s in seqs[:1]:
            bump(out, "seq_len_mod_block", "0" if len(s) % bs == 0 else ("1" if len(s) % bs == 1 else "other"))
        if ok and isinstance(real, str) and fmt in texts_by_fmt:
            texts_by_fmt[fmt].append(real)
            if len(out["samples"]) < 4 and fmt == "phylip" and len(names) > 1:
                out["samples"].append(dict(kind="writer", fmt=fmt, names=names, block_size=bs, text=real[:200]))

    # ---- 4. parsers: writer output + malformed stream -------------------------
    preq, preal, pmeta = [], [], []
    # The model carries two record splitters for iter_fasta_records(bytes): the one the pinned code uses
    # (split on ">" anywhere; theorem fasta_parsers_agree_partial + fasta_bytes_gt_counter) and the repaired one
    # (split at line starts; theorem fasta_parsers_agree_repaired).  One probe decides which of the two the code
    # under test is compared with -- on ALL inputs below.
    bytes_cmd = "fasta_bytes" if real_bytes(">a>b c\nACGT\n") == [["b c", "ACGT"]] else "fasta_bytes_ls"
    bump(out, "bytes_record_splitter", "gt-anywhere" if bytes_cmd == "fasta_bytes" else "line-start")
    ctx.notes.append(
        "iter_fasta_records(bytes) corresponds to the model splitter "
        + ("fastaBytes (split on '>' anywhere): agreement needs the no-'>' hypothesis" if bytes_cmd == "fasta_bytes"
           else "fastaBytesLS (split at line starts): fasta_parsers_agree_repaired applies, no hypothesis on labels")
    )

    def add(cmd, arg, real, what):
        preq.append((cmd, arg))
        preal.append(real)
        pmeta.append((what, arg))

    for t in texts_by_fmt["fasta"]:
        ls = t.splitlines()
        if ls:
            add("strict", {"lc": ">", "lines": ls}, real_strict(ls), "strict parser (writer output)")
            add("faster", {"lc": ">", "lines": ls}, real_faster(ls), "faster parser (writer output)")
        add(bytes_cmd, {"text": t}, real_bytes(t), "bytes parser (writer output)")
    for t in texts_by_fmt["gde"]:
        ls = t.splitlines()
        if ls:
            add("strict", {"lc": "%#", "lines": ls}, real_strict(ls, "%#"), "gde strict parser (writer output)")
            add("faster", {"lc": "%#", "lines": ls}, real_faster(ls, "%#"), "gde faster parser (writer output)")
    for t in texts_by_fmt["paml"]:
        add("paml", {"lines": t.splitlines()}, real_paml(t.splitlines()), "paml parser (writer output)")
    for t in texts_by_fmt["phylip"]:
        add("phylip", {"lines": t.splitlines()}, real_phylip(t.splitlines()), "phylip parser (writer output)")
    for _ in range(ctx.budget(5000, 50000)):
        lc = rng.choice([">", ">", "%#"])
        ls = [_line_pool(rng, lc) for _ in range(rng.randint(1, 8))]
        add("strict", {"lc": lc, "lines": ls}, real_strict(ls, lc), "strict parser (malformed stream)")
        add("faster", {"lc": lc, "lines": ls}, real_faster(ls, lc), "faster parser (malformed stream)")
        if lc == ">":
            eol = rng.choice(["\n", "\n", "\r\n"])
            t = eol.join(ls) + rng.choice(["", eol])
            add(bytes_cmd, {"text": t}, real_bytes(t), "bytes parser (malformed stream)")
    hdrs = ["2 5", "2  5", "1 4", "3 6", "2 5 I", "2 5 i x", "x y", "", "2", "-1 3", "0 5", "2 0", "+2 05", "2.0 5", " 2 \t 5 "]
    for _ in range(ctx.budget(4000, 40000)):
        h = rng.choice(hdrs)
        body = []
        for _ in range(rng.randint(0, 7)):
            r = rng.random()
            s = gen_seq(rng, "dna", rng.choice([1, 2, 3, 5, 5, 5, 6]), True)
            nm = gen_name(rng, wf=rng.random() < 0.8)
            if r < 0.3:
                body.append(nm)
            elif r < 0.55:
                body.append(s)
            elif r < 0.75:
                body.append(("%-10s" % nm[:9]) + s)
            elif r < 0.85:
                body.append(" " * 10 + s)
            elif r < 0.9:
                body.append(rng.choice(["", "  "]))
            elif r < 0.95:
                body.append(s.lower() + " ")
            else:
                body.append(nm[:12] + " " + s[:2] + " " + s[2:])
        ls = [h] + body
        add("paml", {"lines": ls}, real_paml(ls), "paml parser (malformed stream)")
        add("phylip", {"lines": ls}, real_phylip(ls), "phylip parser (malformed stream)")
    add("paml", {"lines": []}, real_paml([]), "paml parser (malformed stream)")
    for (what, arg), real, m in zip(pmeta, preal, drv.batch(preq)):
        if isinstance(real, dict) and real["err"] not in ERRS:
            bump(out, "unmodelled_exception", real["err"])
        nt = None
        if real:
            nt = (what, str(arg))
        _cmp(out, what + ": model differs", arg, m, real, nt)
        bump(out, "parser", what)
        bump(out, "parser_result", real["err"] if isinstance(real, dict) else ("records" if real else "empty"))

    # ---- 5. small primitives --------------------------------------------------
    sreq, sreal = [], []
    for _ in range(ctx.budget(400, 4000)):
        s = "".join(rng.choice(" \t\x0b\x0c\x1c\x1f\xa0ab>-") for _ in range(rng.randint(0, 8)))
        sreq.append(("strip", {"s": s}))
        sreal.append([s.strip(), s.encode("latin-1").strip().decode("latin-1"), s.split()])
    for n in list(range(0, 130)) + [999, 1000, 12345, 10**9, 10**18 + 7]:
        sreq.append(("digits", {"n": n}))
        sreal.append("%d" % n)
    for s in ["0", "7", "-3", "+12", "007", "", "-", "1x", "1.0", "12345678901234567890"]:
        sreq.append(("int", {"s": s}))
        sreal.append(_exc(lambda s=s: int(s)))
    for (cmd, arg), real, m in zip(sreq, sreal, drv.batch(sreq)):
        _cmp(out, f"primitive {cmd}: model differs", arg, m, real, None)

    # ---- 6. the specification predicates (Spec/SeqRecords.lean) --------------------
    # the hypotheses of the round-trip theorems (wfName / wfSeq / noLower) and the PHYLIP truncation (truncName) against
    # their plain-Python reading, on the generators' own output: every name gen_name(wf=True) produces and every
    # sequence gen_seq produces must satisfy the Lean predicate (so the theorems cover the tested domain), malformed
    # ones must not, and truncName must be the trunc_name oracle used by spec_check
    def py_spec(t, lc):
        pr = all(32 <= ord(c) <= 126 for c in t)
        return dict(
            wfName=bool(t) and pr and t[0] != " " and t[-1] != " ",
            wfSeq=bool(t) and pr and not any(c in " #" or c in lc for c in t),
            noLower=not any("a" <= c <= "z" for c in t),
            truncName=trunc_name(t),
        )

    qreq, qreal = [], []
    for _ in range(ctx.budget(1500, 15000)):
        r = rng.random()
        lc = rng.choice([">", "%#", ""])
        if r < 0.45:
            t = gen_name(rng, wf=True)
            if not py_spec(t, lc)["wfName"]:
                add_failure(out, "corr", "generator produced a name outside the theorems' domain", {"s": t}, True, False, confirmed=False)
        elif r < 0.6:
            t = gen_name(rng, wf=False)
        elif r < 0.9:
            t = gen_seq(rng, rng.choice(["dna", "rna", "protein"]), rng.randint(1, 12), rng.random() < 0.5)
            if not py_spec(t, lc)["wfSeq"]:
                add_failure(out, "corr", "generator produced a sequence outside the theorems' domain", {"s": t}, True, False, confirmed=False)
            if rng.random() < 0.2:
                t = t.lower()
        else:
            t = "".join(rng.choice(" #>%a\tA-\x7f\xa0") for _ in range(rng.randint(0, 11)))
        qreq.append(("spec", {"s": t, "lc": lc}))
        qreal.append(py_spec(t, lc))
    for (cmd, arg), real, m in zip(qreq, qreal, drv.batch(qreq)):
        _cmp(out, "Spec/SeqRecords predicate differs from its Python reading", arg, m, real, ("spec", arg["s"], arg["lc"]) if arg["s"] else None)
        bump(out, "spec_predicates", "wfName" if real["wfName"] else ("wfSeq" if real["wfSeq"] else "neither"))
    return out


# --------------------------------------------------------------------------
# spec-level differential on the real code
# --------------------------------------------------------------------------
MAX_PER_SIG = 4


def _spec_fail(out, what, inp, want, got, sig):
    """keep at most MAX_PER_SIG failures per signature so that a frequent (known) class can never
    crowd a different one out of the bounded failure list"""
    seen = out.setdefault("_per_sig", {})
    seen[sig] = seen.get(sig, 0) + 1
    bump(out, "spec_failures_by_sig", sig)
    if seen[sig] <= MAX_PER_SIG:
        add_failure(out, "spec", what, inp, want, got, sig=sig)


SUFFIXES = ["fasta", "fa", "mfa", "phylip", "paml", "gde", "json"]
COMPRESS = ["", ".gz", ".bz2", ".zip"]
KINDS = ["array_align", "alignment", "collection", "collection_new"]


def _make(kind, names, seqs, mt):
    import cogent3

    data = dict(zip(names, seqs))
    if kind == "array_align":
        return cogent3.make_aligned_seqs(data, moltype=mt, array_align=True)
    if kind == "alignment":
        return cogent3.make_aligned_seqs(data, moltype=mt, array_align=False)
    if kind == "collection":
        return cogent3.make_unaligned_seqs(data, moltype=mt)
    return cogent3.make_unaligned_seqs(data, moltype=mt, new_type=True)


def _load(kind, path, mt):
    import cogent3

    if kind == "array_align":
        return cogent3.load_aligned_seqs(path, moltype=mt, array_align=True)
    if kind == "alignment":
        return cogent3.load_aligned_seqs(path, moltype=mt, array_align=False)
    if kind == "collection":
        return cogent3.load_unaligned_seqs(path, moltype=mt)
    return cogent3.load_unaligned_seqs(path, moltype=mt, new_type=True)


def _fmt_family(sfx):
    return "fasta" if sfx in ("fasta", "fa", "mfa") else sfx


def roundtrip_once(scratch, kind, sfx, cmp_, names, seqs, mt, tag="rt"):
    """write with obj.write(path), load back; returns None if the property holds, else (sig, expected, got)"""
    path = os.path.join(str(scratch), f"{tag}.{sfx}{cmp_}")
    fam = _fmt_family(sfx)
    want_names = [trunc_name(n) if fam == "phylip" else n for n in names]
    want = [[a, b] for a, b in zip(want_names, seqs)]
    stage = "make"
    try:
        obj = _make(kind, names, seqs, mt)
        stage = "write"
        obj.write(path)
        stage = "load"
        back = _load(kind, path, mt)
        d = back.to_dict()
        got = [[str(n), str(d[n])] for n in back.names]
    except Exception as e:  # noqa: BLE001
        got = {"err": type(e).__name__, "stage": stage, "msg": str(e)[:160]}
    finally:
        try:
            os.unlink(path)
        except OSError:
            pass
    if got == want:
        return None
    has_gt = any(">" in n for n in names)
    if isinstance(got, dict):
        if stage == "write" and cmp_ == ".zip" and got["err"] == "FileNotFoundError":
            cls = "zip-write-raises"
        elif fam == "fasta" and has_gt:
            cls = "label-gt-exc"
        elif fam == "json" and kind == "collection_new" and stage == "load" and got["err"] == "TypeError":
            cls = "json-new-type-load"
        else:
            cls = f"exc:{stage}:{got['err']}"
    else:
        if [g[1] for g in got] == seqs and fam == "fasta" and has_gt and all(
            g[0] == n or (">" in n and g[0] == n.split(">")[-1].strip()) for g, n in zip(got, names)
        ):
            cls = "label-cut-at-gt"
        elif fam == "fasta" and has_gt:
            cls = "label-gt-other"
        elif [g[0] for g in got] != want_names:
            cls = "names"
        else:
            cls = "seqs"
    return f"roundtrip:{fam}:{cls}", want, got


def _agree_once(scratch, text, want, tag="ag"):
    """all FASTA parser variants on one well-formed file; returns list of (sig, expected, got, which)"""
    from pathlib import Path

    from cogent3.parse.fasta import MinimalFastaParser, iter_fasta_records
    from cogent3.parse.sequence import PARSERS

    p = Path(scratch) / f"{tag}.fasta"
    p.write_bytes(text.encode("latin-1"))
    lines = text.splitlines()
    variants = {
        "MinimalFastaParser(path,strict)": lambda: _recs(MinimalFastaParser(str(p), strict=True)),
        "MinimalFastaParser(path,non-strict)": lambda: _recs(MinimalFastaParser(str(p), strict=False)),
        "MinimalFastaParser(lines,strict)": lambda: _recs(MinimalFastaParser(lines, strict=True)),
        "iter_fasta_records(lines)": lambda: _recs(iter_fasta_records(lines)),
        "iter_fasta_records(path)": lambda: _recs(iter_fasta_records(p)),
        "iter_fasta_records(bytes)": lambda: _recs(iter_fasta_records(text.encode("latin-1"))),
        "PARSERS[fasta](str path)": lambda: _recs(PARSERS["fasta"](str(p))),
    }
    bad = []
    for which, f in variants.items():
        got = _exc(f)
        if got != want:
            gt = any(">" in n for n, _ in want)
            bytes_based = "path)" in which and "iter_fasta" in which or "bytes" in which or "PARSERS" in which
            if gt and bytes_based and not isinstance(got, dict) and all(
                g[1] == w[1] and (g[0] == w[0] or g[0] == w[0].split(">")[-1].strip()) for g, w in zip(got, want)
            ) and len(got) == len(want):
                cls = "label-cut-at-gt"
            elif gt and bytes_based:
                cls = "label-gt-other"
            else:
                cls = "other:" + which
            bad.append((f"agree:fasta:{cls}", want, got, which))
    p.unlink()
    return bad


def _variations(rng, names, seqs):
    """well-formed FASTA texts for the same records: different wrap widths, CRLF, blank lines between
    records, trailing blanks after residues, no final newline"""
    bs = rng.choice([1, 3, 7, 59, 60, 61, 1000])
    eol = rng.choice(["\n", "\n", "\r\n"])
    lines = []
    for n, s in zip(names, seqs):
        lines.append(">" + n)
        lines += [l + rng.choice(["", "", " "]) for l in textwrap.wrap(s, bs)]
        if rng.random() < 0.2:
            lines.append("")
    return eol.join(lines) + rng.choice([eol, eol, ""])


def _genbank_text(rng, recs):
    out = []
    for name, seq in recs:
        locus = "".join(c for c in name if c.isalnum())[:12] or "L1"
        out.append(f"LOCUS       {locus:<16} {len(seq)} bp    DNA     linear   UNA 01-JAN-2000")
        out.append(f"DEFINITION  generated {locus}.")
        out.append(f"ACCESSION   {locus}")
        out.append("FEATURES             Location/Qualifiers")
        out.append(f"     source          1..{len(seq)}")
        out.append('                     /organism="Test organism"')
        out.append('                     /mol_type="genomic DNA"')
        if len(seq) > 3:
            out.append(f"     gene            2..{len(seq) - 1}")
            out.append('                     /gene="g1"')
        out.append("ORIGIN")
        low = seq.lower()
        for i in range(0, len(low), 60):
            chunk = low[i : i + 60]
            out.append(f"{i + 1:>9} " + " ".join(chunk[j : j + 10] for j in range(0, len(chunk), 10)))
        out.append("//")
    return "\n".join(out) + "\n", [("".join(c for c in n if c.isalnum())[:12] or "L1", s) for n, s in recs]


def genbank_once(scratch, text, want):
    """minimal_parser / rich_parser / rich_parser(just_seq) / the line based MinimalGenbankParser on one flat file"""
    from pathlib import Path

    from cogent3.parse import genbank

    p = Path(scratch) / "g.gb"
    p.write_text(text)
    w = [[n, s] for n, s in want]
    got = {
        "minimal_parser": _exc(lambda: [[r["locus"], r["sequence"].upper()] for r in genbank.minimal_parser(p)]),
        "rich_parser": _exc(lambda: [[n, str(s)] for n, s in genbank.rich_parser(p)]),
        "rich_parser(just_seq)": _exc(lambda: [[n, str(s)] for n, s in genbank.rich_parser(str(p), just_seq=True)]),
    }
    old = getattr(genbank, "MinimalGenbankParser", None)
    if old is not None:
        old = getattr(old, "__wrapped__", old)  # the deprecation decorator prints a warning per call
        got["MinimalGenbankParser(lines)"] = _exc(lambda: [[r["locus"], r["sequence"].upper()] for r in old(text.splitlines())])
    p.unlink()
    if all(v == w for v in got.values()):
        return None
    new = [got[k] for k in ("minimal_parser", "rich_parser", "rich_parser(just_seq)")]
    if len(want) > 1 and all(v == {"err": "IndexError"} for v in new) and got.get("MinimalGenbankParser(lines)", w) == w:
        return "genbank:multi-record-indexerror", w, got
    return "genbank:parsers-differ", w, got


def spec_check(ctx, budget):
    out = new_outcome(
        "real code vs the identity spec: obj.write(path) then load_aligned_seqs/load_unaligned_seqs for suffixes "
        "fasta/fa/mfa/phylip/paml/gde/json x ''/.gz/.bz2/.zip x ArrayAlignment/Alignment/SequenceCollection(old,new) "
        "(names printable ASCII incl. > | blanks, 9/10/11-char names; lengths 1..3,59,60,61,119..121,180; DNA/RNA/protein "
        "with gaps); all FASTA parser variants on well-formed texts (wrap widths, CRLF, blank lines); iter_splitlines for "
        "every chunk size vs str.splitlines of the whole file; GenBank minimal vs rich parser; non-trivial = distinct "
        "(kind, suffix, compression, names, seqs) / (text) / (text, chunk_size) actually compared"
    )
    rng = ctx.subrng(f"spec{budget}")
    scratch = ctx.scratch / f"spec{budget}"
    scratch.mkdir(exist_ok=True)

    # ---- A. write / load round trip -------------------------------------------
    n_sets = 40 * budget
    combos = [(k, s, c) for k in KINDS for s in SUFFIXES for c in COMPRESS]
    for i in range(n_sets):
        ragged = i % 4 == 3
        mt, names, seqs = gen_recset(rng, ragged=ragged, distinct_trunc=True)
        if i == 0:
            names, seqs, mt = ["a>b c", "x|y", "abcdefghi", "ABCDEFGHIJK"], ["ACGT-A"] * 4, "dna"
        # every suffix and compression for one kind per set, plus a random sample of the full product
        kind0 = KINDS[i % len(KINDS)]
        todo = [(kind0, s, c) for s in SUFFIXES for c in COMPRESS] + rng.sample(combos, 10)
        for kind, sfx, cmp_ in todo:
            fam = _fmt_family(sfx)
            if ragged and (kind in ("array_align", "alignment") or fam in ("phylip", "paml")):
                continue  # ragged data is not an alignment; PHYLIP/PAML are alignment formats
            res = roundtrip_once(scratch, kind, sfx, cmp_, names, seqs, mt)
            out["evaluations"] += 1
            out["nontrivial"].add(("rt", kind, sfx, cmp_, tuple(names), tuple(seqs)))
            bump(out, "rt_format", fam)
            bump(out, "rt_compression", cmp_ or "plain")
            bump(out, "rt_kind", kind)
            bump(out, "rt_name_features", "gt" if any(">" in n for n in names) else ("blank" if any(" " in n for n in names) else "plain"))
            bump(out, "rt_len_mod_60", str(len(seqs[0]) % WRAP))
            if res is not None:
                sig, want, got = res
                _spec_fail(
                    out, f"write/load round trip differs ({sig})",
                    dict(check="roundtrip", kind=kind, suffix=sfx, compression=cmp_, names=names, seqs=seqs, moltype=mt),
                    want, got, sig,
                )
            elif len(out["samples"]) < 3 and len(names) > 2 and cmp_:
                out["samples"].append(dict(check="roundtrip", kind=kind, file=f"x.{sfx}{cmp_}", names=names, seq_len=len(seqs[0]), result="identical"))

    # ---- B. parser variants agree, labels verbatim ------------------------------
    for i in range(120 * budget):
        mt, names, seqs = gen_recset(rng, ragged=True, distinct_trunc=False, small=i % 2 == 0)
        text = _variations(rng, names, seqs)
        want = [[n, s] for n, s in zip(names, seqs)]
        out["evaluations"] += 1
        out["nontrivial"].add(("agree", text))
        bump(out, "agree_texts", "crlf" if "\r\n" in text else "lf")
        for sig, w, got, which in _agree_once(scratch, text, want):
            _spec_fail(out, f"FASTA parser variant {which} differs from the records written ({sig})",
                       dict(check="agree", text=text, names=names, seqs=seqs, variant=which), w, got, sig)
    # GDE / PHYLIP / PAML: file based registry parser vs line based call, strict vs non-strict
    from cogent3.format.alignment import FORMATTERS
    from cogent3.parse.fasta import MinimalGdeParser
    from cogent3.parse.sequence import PARSERS

    for i in range(30 * budget):
        mt, names, seqs = gen_recset(rng, ragged=False, distinct_trunc=True, small=i % 2 == 0)
        bs = rng.choice([1, 4, 59, 60, 61])
        for fam in ("gde", "phylip", "paml"):
            text = FORMATTERS[fam](dict(zip(names, seqs)), block_size=bs, order=list(names))
            p = scratch / f"pv.{fam}"
            p.write_text(text)
            want = [[trunc_name(n) if fam == "phylip" else n, s] for n, s in zip(names, seqs)]
            variants = {"registry(path)": lambda: _recs(PARSERS[fam](p)), "registry(str)": lambda: _recs(PARSERS[fam](str(p))),
                        "registry(lines)": lambda: _recs(PARSERS[fam](text.splitlines()))}
            if fam == "gde":
                variants["MinimalGdeParser(non-strict)"] = lambda: _recs(MinimalGdeParser(text.splitlines(), strict=False))
            for which, f in variants.items():
                got = _exc(f)
                out["evaluations"] += 1
                bump(out, "agree_other_formats", fam)
                if got != want:
                    _spec_fail(out, f"{fam} parser variant {which} differs from the records written",
                               dict(check="agree_fmt", fmt=fam, names=names, seqs=seqs, block_size=bs, variant=which),
                               want, got, f"agree:{fam}:{which}")

    # ---- C. every chunk size gives the same lines --------------------------------
    from cogent3.util.io import iter_splitlines

    for i in range(16 * budget):
        mt, names, seqs = gen_recset(rng, ragged=True, distinct_trunc=False, small=True)
        text = _variations(rng, names[:3], seqs[:3])[: rng.choice([30, 60, 90])]
        p = scratch / "chunks.fasta"
        p.write_bytes(text.encode("latin-1"))
        want = text.splitlines()
        for cs in range(1, len(text) + 2):
            got = _exc(lambda: list(iter_splitlines(p, chunk_size=cs)))
            out["evaluations"] += 1
            out["nontrivial"].add(("chunks", text, cs))
            if got != want:
                _spec_fail(out, "iter_splitlines depends on the chunk size",
                           dict(check="chunks", text=text, chunk_size=cs), want, got, "chunks:lines-differ")
        bump(out, "chunk_files", "crlf" if "\r\n" in text else "lf")

    # ---- D. GenBank parser variants (exercised only: no model, no theorem) ------------
    for i in range(12 * budget):
        mt, names, seqs = gen_recset(rng, ragged=True, distinct_trunc=False)
        if i % 2 == 0:
            names, seqs = names[:1], seqs[:1]
        recs = [(n, gen_seq(rng, "dna", len(s), False)) for n, s in zip(names, seqs)]
        text, want = _genbank_text(rng, recs)
        out["evaluations"] += 1
        bump(out, "genbank_records", len(recs))
        res = genbank_once(scratch, text, want)
        if res:
            _spec_fail(out, f"GenBank parser variants differ on a generated flat file ({res[0]})",
                       dict(check="genbank", text=text, want=[list(w) for w in want]), res[1], res[2], res[0])
    out.pop("_per_sig", None)
    return out


# --------------------------------------------------------------------------
# findings, replay
# --------------------------------------------------------------------------
def match_finding(f, k):
    if f.get("sig") not in k.get("sigs", []):
        return False
    r = k.get("restrict") or {}
    inp = f.get("input") or {}
    if r.get("needs_gt_in_name") and not any(">" in n for n in inp.get("names", [])):
        return False
    if r.get("compression") and inp.get("compression") != r["compression"]:
        return False
    if r.get("not_suffix") and inp.get("suffix") in r["not_suffix"]:
        return False
    if r.get("kind") and inp.get("kind") != r["kind"]:
        return False
    if r.get("suffix") and inp.get("suffix") != r["suffix"]:
        return False
    return True


def _rerun(ctx, inp):
    """re-evaluate one recorded input on the real code -> failure dict or None"""
    out = new_outcome()
    scratch = ctx.scratch / "replay"
    scratch.mkdir(exist_ok=True)
    chk = inp.get("check")
    if chk == "roundtrip":
        res = roundtrip_once(scratch, inp["kind"], inp["suffix"], inp["compression"], inp["names"], inp["seqs"], inp["moltype"], tag="rp")
        if res:
            add_failure(out, "spec", f"write/load round trip differs ({res[0]})", inp, res[1], res[2], sig=res[0])
    elif chk == "agree":
        want = [[n, s] for n, s in zip(inp["names"], inp["seqs"])]
        for sig, w, got, which in _agree_once(scratch, inp["text"], want, tag="rp"):
            if inp.get("variant") in (None, which):
                add_failure(out, "spec", f"FASTA parser variant {which} differs ({sig})", dict(inp, variant=which), w, got, sig=sig)
    elif chk == "genbank":
        res = genbank_once(scratch, inp["text"], [tuple(w) for w in inp["want"]])
        if res:
            add_failure(out, "spec", f"GenBank parser variants differ ({res[0]})", inp, res[1], res[2], sig=res[0])
    elif chk == "chunks":
        from cogent3.util.io import iter_splitlines

        p = scratch / "rp.fasta"
        p.write_bytes(inp["text"].encode("latin-1"))
        got = _exc(lambda: list(iter_splitlines(p, chunk_size=inp["chunk_size"])))
        if got != inp["text"].splitlines():
            add_failure(out, "spec", "iter_splitlines depends on the chunk size", inp, inp["text"].splitlines(), got, sig="chunks:lines-differ")
    return out["failures"][0] if out["failures"] else None


def check_witness(ctx, w):
    return _rerun(ctx, w)


def replay(ctx, data):
    f = data.get("failing_input") or {}
    inp = f.get("input")
    if not inp:
        return False
    r = _rerun(ctx, inp)
    if r:
        print("expected", r["expected"], "got", r["got"])
    return r is not None
