"""C19 — file writes are all-or-nothing; interrupted apply_to runs resume to the same result.

Tie: the REAL system-call trace of every writer is extracted on every run (audit hook + file
proxy in forked children of one fork server, harness/c19_child.py) and compared with the Lean
model's program; the variant of the model (commit strategy, handler table) is detected from the
traces.  Then real fault injection: kill at every call boundary, OSError at every call,
formatting failures, apply_to interrupted at every record / file boundary and re-run.
"""
from __future__ import annotations

import atexit
import itertools
import json
import os
import subprocess

from .common import LEAN, SRC, VERIF, add_failure, bump, log, new_outcome

PROP = "C19"
PROPS_FILES = ["CogentModel/Props/C19.lean"]
LEAN_TARGETS = ["CogentModel.Props.C19"]
DRIVER = "drv_c19"
TRUSTED = [
    "translator/c19_atomic2lean.py (AST of util/io.py class atomic_write -> Gen/C19Program.lean: control structure around the file-system calls; write list of "
    "DataStoreDirectory._write); anything outside its fragment is a reported translation problem; the statement semantics / with-statement protocol of "
    "Model/AtomicProg.lean are hand-written; the translated program is compared with the real traces and outcomes for every injected fault on every run",
    "translator/c19_writers2lean.py (AST of every *.py under src/cogent3 -> Gen/C19Writers.lean: one row per call atomic_write(…): protocol, tmpdir= / in_zip= passed, "
    "file-system calls in the writer's own handlers / block, close in the block); tied by wrapping atomic_write.__init__ / __enter__ in the traced children",
    "hand-written model lean/CogentModel/Model/AtomicWrite.lean (file system + atomic_write program + handler table), tied by "
    "comparing the model's program / crash states / fault traces with the system-call traces extracted from the real writers on every run",
    "hand-written model lean/CogentModel/Model/Composable.lean (select / writeAll of _apply_to) for the resume theorems",
    "sys.addaudithook event stream (os.mkdir, open, os.remove, os.rename, shutil.rmtree) + a proxy around the file object returned by open_ "
    "and around ZipFile.close as the definition of 'call boundary'; os._exit inside the hook as the definition of 'process dies'",
]
ASSUMPTIONS = [
    "POSIX rename(2) replaces the destination atomically; a crash is modelled at system-call granularity (no torn single write, no power loss / fsync ordering)",
    "single fault per run; the failing call has no effect; a fault injected into the final rmtree itself is exempt from the no-temp-left requirement "
    "(it is swallowed by ignore_errors: the write must then report success with the complete new content — fault_at_every_call_outcome)",
    "writers given a *.zip file name (nested atomic_write) are exercised by the fault injection but not modelled in Lean",
    "the directory data store's record write is modelled at file-operation granularity (Model/StoreWrite.lean: create / fill record, create / fill md5; "
    "variant detected from the kill_open / kill_created injections); the drop of a stale not-completed record after a completed write and the log file are not in that model",
    "atomic_write(path, tmpdir=D): modelled for the success path (programTmp), every kill point (crashStateTmp) and every raised OSError (faultTraceTmp / faultStateTmp, "
    "through the translated program); a kill before the rename can leave the temp file in the caller's directory (part of the theorem's statement)",
    "the bare-object protocol (aw.write(); aw.close()) is modelled for at least one write; a bare object closed without any write only as 'raises'",
    "a fault 'at rmtree' is an OSError from the first unlink / rmdir INSIDE shutil.rmtree (persistent variant: from every one of them)",
    "tempfile.mkdtemp's own retry on FileExistsError is stdlib behaviour outside the model (that injected case is skipped when comparing with the translated program)",
    "zip-member faults: the failing zip_data call is the open of the archive (zipfile's own retry in 'w+b' is part of the model's handler); a failing close() writes nothing",
]

GEN_FILE = LEAN / "CogentModel" / "Gen" / "C19Program.lean"
GEN_WRITERS_FILE = LEAN / "CogentModel" / "Gen" / "C19Writers.lean"


def generate(ctx):
    """translator step: the control structure around the file-system calls of util/io.py atomic_write (and the write list of
    DataStoreDirectory._write) -> Gen/C19Program.lean, from the CURRENT source; Props/C19.lean proves the result equal to the hand model"""
    import sys

    sys.path.insert(0, str(VERIF))
    from translator import c19_atomic2lean as tr

    try:
        lean, info, problems = tr.translate(SRC / "util" / "io.py", SRC / "app" / "data_store.py")
    except (tr.TranslationError, SyntaxError, OSError) as e:
        return [f"c19_atomic2lean: {e}"]
    ctx.notes.append("c19_atomic2lean: " + json.dumps({k: info.get(k) for k in ("code", "store_writes", "preconditions")})[:1200])
    if lean is not None and tr.write_if_changed(GEN_FILE, lean):
        ctx.notes.append("Gen/C19Program.lean was rewritten (the translated source differs from the last generated text)")
    problems = [f"c19_atomic2lean: {p}" for p in problems]
    # the call sites of atomic_write in all of src/cogent3 -> Gen/C19Writers.lean (Props/C19.lean: writer_call_sites_covered)
    from translator import c19_writers2lean as tw

    try:
        wlean, sites, wproblems = tw.translate(SRC)
    except (SyntaxError, OSError) as e:
        return problems + [f"c19_writers2lean: {e}"]
    ctx.notes.append("c19_writers2lean: " + json.dumps([[s["file"], s["func"], s["protocol"], s["mode"]] for s in sites])[:1500])
    if wlean is not None and tr.write_if_changed(GEN_WRITERS_FILE, wlean):
        ctx.notes.append("Gen/C19Writers.lean was rewritten (the call sites of atomic_write differ from the last generated table)")
    return problems + [f"c19_writers2lean: {p}" for p in wproblems]


STANDARD = ("plain", "gz", "json", "phylip")
# PermissionError (EACCES, EPERM), FileExistsError, FileNotFoundError, IsADirectoryError and plain OSError flavours
ERRNOS = ["EACCES", "EPERM", "EEXIST", "ENOENT", "EISDIR", "ENOSPC", "EXDEV", "EBUSY"]
WRITERS_ALL = ["aln", "arrayaln", "seqcoll", "newcoll", "tree", "table", "dictarray", "treecoll", "atomic"]


CALLER_FILES = ["mytmp", "mytmp/precious.txt"]  # see c19_child.CALLER_TMP


def _tclass(target):
    return "standard" if target in STANDARD else ("zipmember" if target == "zipmember" else "zipsuffix")


def _configs(ctx):
    quick = [
        ("aln", "plain"), ("aln", "gz"), ("aln", "json"), ("seqcoll", "plain"), ("newcoll", "gz"), ("tree", "plain"),
        ("table", "plain"), ("table", "gz"), ("dictarray", "plain"), ("treecoll", "plain"), ("atomic", "plain"),
        ("atomic", "zipmember"), ("aln", "zip"), ("tree", "zip"), ("atomic_tmpdir", "plain"),
    ]
    if not ctx.thorough:
        cfgs = quick
    else:
        cfgs = []
        for w in WRITERS_ALL:
            for t in ("plain", "gz"):
                cfgs.append((w, t))
            if w in ("aln", "arrayaln", "seqcoll", "newcoll", "tree", "table"):
                cfgs.append((w, "json"))
            if w not in ("table", "atomic"):
                cfgs.append((w, "zip"))
        cfgs.append(("atomic", "zipmember"))
        cfgs.append(("atomic_tmpdir", "plain"))
    return [(w, t, p) for (w, t) in cfgs for p in (True, False)]


# --------------------------------------------------------------------------
# fork server
# --------------------------------------------------------------------------
class Server:
    def __init__(self):
        env = dict(os.environ)
        env["PYTHONPATH"] = f"{VERIF}:{env.get('PYTHONPATH', '')}"
        env["PYTHONDONTWRITEBYTECODE"] = "1"
        import sys

        self.p = subprocess.Popen(
            [sys.executable, "-W", "ignore", "-m", "harness.c19_child"],
            stdin=subprocess.PIPE, stdout=subprocess.PIPE, text=True, cwd=str(VERIF), env=env,
        )
        first = self.p.stdout.readline()
        if "ready" not in first:
            raise RuntimeError(f"c19 fork server did not start: {first!r}")
        self.n = 0
        atexit.register(self.close)

    def job(self, **kw):
        self.n += 1
        self.p.stdin.write(json.dumps(kw) + "\n")
        self.p.stdin.flush()
        line = self.p.stdout.readline()
        if not line:
            raise RuntimeError("c19 fork server died")
        return json.loads(line)

    def close(self):
        try:
            self.p.stdin.close()
            self.p.wait(timeout=10)
        except Exception:
            try:
                self.p.kill()
            except Exception:
                pass


def _server(ctx):
    if getattr(ctx, "_c19srv", None) is None:
        ctx._c19srv = Server()
    return ctx._c19srv


def _canon_state(st):
    d = st["dest"]
    k = d["kind"]
    if k == "file":
        return ("file", d["text"])
    if k == "archive":
        return ("archive", tuple(m[1] for m in d["members"]))
    return (k,)


def _collect(ctx, cfg):
    """all injected runs of one (writer, target, present) configuration (cached)"""
    cache = ctx.__dict__.setdefault("_c19data", {})
    if cfg in cache:
        return cache[cfg]
    srv = _server(ctx)
    w, t, present = cfg
    wd = str(ctx.scratch / f"w_{w}_{t}_{int(present)}")
    base = srv.job(kind="write", writer=w, target=t, present=present, mode="trace", workdir=wd)
    data = dict(cfg=cfg, base=base, kills={}, faults={}, fmtfails={}, natural=None)
    tr = base.get("trace") or []
    n = len(tr)
    for k in range(n + 1):
        data["kills"][k] = srv.job(kind="write", writer=w, target=t, present=present, mode="kill", k=k, workdir=wd)
    for k in range(n):
        data["faults"][k] = srv.job(kind="write", writer=w, target=t, present=present, mode="fault", k=k, workdir=wd)
    # the same with other errno values / OSError subclasses: all of them at the calls that touch the destination, a rotating one elsewhere
    data["faults_errno"] = {}
    for k in range(n):
        commit_call = tr[k][0] in ("unlink", "rename", "zip_data", "zip_dir") or "dest" in tr[k][1:]
        names = ERRNOS if (commit_call or ctx.thorough) else [ERRNOS[(k + len(w) + len(t) + int(present)) % len(ERRNOS)]]
        for en in names:
            data["faults_errno"][(k, en)] = srv.job(kind="write", writer=w, target=t, present=present, mode="fault", k=k, errno=en, workdir=wd)
        if commit_call:
            # at the calls that touch the destination also: the failing condition PERSISTS (a retry fails again), and the process is
            # killed one / two calls after the (possibly swallowed) failure
            # quick tier: both PermissionError flavours (the class a "remove and retry" fallback keys on) + one rotating other errno
            rot = [e for e in ERRNOS if e not in ("EACCES", "EPERM")]
            some = ["EACCES", "EPERM", rot[(k + len(w) + len(t) + ctx.seed) % len(rot)]]
            for en in ERRNOS if ctx.thorough else (some if present else ["EACCES"]):
                data["faults_errno"][(k, en, "persist")] = srv.job(kind="write", writer=w, target=t, present=present, mode="fault", k=k, errno=en, persist=True, workdir=wd)
                for ka in (1, 2):
                    data["faults_errno"][(k, en, f"kill+{ka}")] = srv.job(kind="write", writer=w, target=t, present=present, mode="fault", k=k, errno=en,
                                                                            kill_after_fault=ka, workdir=wd)
    for k in range(n):
        if tr[k][0] == "write":
            data["fmtfails"][k] = srv.job(kind="write", writer=w, target=t, present=present, mode="fmtfail", k=k, workdir=wd)
    if w not in ("atomic", "atomic_tmpdir"):
        data["natural"] = srv.job(kind="write", writer=w, target=t, present=present, mode="natural", workdir=wd)
    cache[cfg] = data
    return data


# --------------------------------------------------------------------------
# correspondence: model program / crash states / fault traces vs the real ones
# --------------------------------------------------------------------------
def _enc(text):
    return list(text.encode("latin-1"))


OLD_M, NEW_M = 4, 8


def _model_dest(before, tclass):
    d = before["dest"]
    if d["kind"] == "absent":
        return {"kind": "absent"}
    if d["kind"] == "file":
        return {"kind": "file", "data": _enc(d["text"])}
    if d["kind"] == "archive":
        return {"kind": "archive", "members": [[OLD_M + i, _enc(m[1])] for i, m in enumerate(d["members"])]}
    raise ValueError(d)


def _model_state_canon(ms):
    d = ms["dest"]
    if d["kind"] == "file":
        c = ("file", bytes(d["data"]).decode("latin-1"))
    elif d["kind"] == "archive":
        c = ("corrupt",) if d["torn"] else ("archive", tuple(bytes(m[1]).decode("latin-1") for m in d["members"]))
    else:
        c = (d["kind"],)
    return c, bool(ms["tmpdir"])


def _trace_shape(tr):
    out = []
    skip = False
    for c in tr:
        if c[0] == "zip_trunc":
            skip = True  # zipfile's own retry ('w+b') and the write that follows happen inside the call the hook already counted
            continue
        if skip and c[0] == "zip_data":
            skip = False
            continue
        if c[0] == "write":
            out.append(("write", c[1], c[2] if isinstance(c[2], int) else len(c[2])))
        elif c[0] == "zip_data":
            out.append(("zip_data", c[1]))
        else:
            out.append(tuple(c))
    return out


def correspondence(ctx):
    out = new_outcome(
        "per (writer, target, dest present/absent): real audit-hook trace == model program; for EVERY kill point k the model's "
        "crashState == observed directory (dest content, temp dir present); for EVERY call k raising OSError the model's fault trace "
        "and faultState == observed; the variant is detected from the traces and must be THE model Job.cfg (replace, guarded, with-block); the program TRANSLATED from "
        "util/io.py (Gen/C19Program.lean) run with no fault / call k raising (every injected errno) / a formatting failure == the real calls and outcome; non-trivial = distinct "
        "(writer, target, present, mode, k) with at least one data chunk"
    )
    variants = {}
    for cfg in _configs(ctx):
        w, t, present = cfg
        tclass = _tclass(t)
        if tclass == "zipsuffix":
            continue  # nested atomic_write: exercised by spec_check only
        if w == "atomic_tmpdir":
            _corr_tmpdir(ctx, out, cfg)
            continue
        data = _collect(ctx, cfg)
        base = data["base"]
        inp = dict(writer=w, target=t, present=present)
        if base.get("exc") or base.get("exit") != 0:
            add_failure(out, "corr", "writer failed on the no-fault path (model program expects success)", inp, "success", base.get("exc"), confirmed=False)
            continue
        tr = base["trace"]
        names = [c[0] for c in tr]
        commit = "unlink_rename" if "unlink" in names else "replace"
        chunks = [_enc(c) for c in base["chunks"]]
        mcfg = dict(commit=commit, guarded=False, with_block=True, body_unlink=False, close_in_body=False, chunks=chunks,
                    zip_member=(NEW_M if tclass == "zipmember" else None))
        dest0 = _model_dest(base["before"], tclass)
        # 1. program
        prog = ctx.driver.batch([("prog", mcfg)])[0]
        out["evaluations"] += 1
        bump(out, "trace_len", len(tr))
        bump(out, "commit_variant", commit)
        if _trace_shape(prog) != _trace_shape(tr):
            add_failure(out, "corr", "real system-call trace differs from the model program", inp, prog, tr, confirmed=False)
            continue
        # the written content is the concatenation of the chunks seen by the proxy
        newc = _canon_state(base["after"])
        if newc[0] == "file" and newc[1] != "".join(base["chunks"]):
            add_failure(out, "corr", "final content is not the concatenation of the observed write() chunks", inp, "".join(base["chunks"])[:200], newc[1][:200], confirmed=False)
        # 2. kill points
        reqs = [("crash", dict(cfg=mcfg, dest=dest0, k=k)) for k in sorted(data["kills"])]
        for k, ms in zip(sorted(data["kills"]), ctx.driver.batch(reqs)):
            real = data["kills"][k]
            out["evaluations"] += 1
            mc, mtmp = _model_state_canon(ms)
            rc, rtmp = _canon_state(real["after"]), bool(real["after"]["leftover"])
            if rc == ("corrupt",) and mc == ("archive", ()):
                mc = ("corrupt",)
            if (mc, mtmp) != (rc, rtmp) or real["exit"] != (77 if k < len(tr) else 0):
                add_failure(out, "corr", "crash state differs from the model", dict(inp, mode="kill", k=k), [mc, mtmp], [rc, rtmp, real["exit"]], confirmed=False)
            elif chunks:
                out["nontrivial"].add((w, t, present, "kill", k))
            bump(out, "kill_before", tr[k][0] if k < len(tr) else "end")
        # 3. faults: detect the handler-table variant
        best = None
        for guarded, wb, bu, cb in itertools.product((False, True), (True, False), (False, True), (False, True)):
            if True:
                vc = dict(mcfg, guarded=guarded, with_block=wb, body_unlink=bu, close_in_body=cb)
                res = ctx.driver.batch([("fault", dict(cfg=vc, dest=dest0, k=k)) for k in sorted(data["faults"])])
                bad = []
                for k, mr in zip(sorted(data["faults"]), res):
                    real = data["faults"][k]
                    mc, mtmp = _model_state_canon(mr["state"])
                    rc, rtmp = _canon_state(real["after"]), bool(real["after"]["leftover"])
                    if rc == ("corrupt",) and mc == ("archive", ()):
                        mc = ("corrupt",)
                    if _trace_shape(mr["trace"]) != _trace_shape(real["trace"]) or (mc, mtmp) != (rc, rtmp):
                        bad.append((k, [mr["trace"][k:], mc, mtmp], [real["trace"][k:], rc, rtmp]))
                if best is None or len(bad) < len(best[1]):
                    best = ((guarded, wb, bu, cb), bad)
        (guarded, wb, bu, cb), bad = best
        variants.setdefault((commit, guarded, wb, bu, cb), []).append(f"{w}/{t}")
        bump(out, "handler_variant", f"commit={commit},guarded={guarded},with_block={wb},body_unlink={bu},close_in_body={cb}")
        for k in sorted(data["faults"]):
            out["evaluations"] += 1
            bump(out, "fault_at", tr[k][0])
            if chunks and not any(b[0] == k for b in bad):
                out["nontrivial"].add((w, t, present, "fault", k))
        for k, exp, got in bad[:3]:
            add_failure(out, "corr", "fault trace/state differs from every handler variant of the model (closest shown)", dict(inp, mode="fault", k=k, variant=[commit, guarded, wb, bu, cb]), exp, got, confirmed=False)
        if (commit, guarded, wb, bu) != ("replace", True, True, False):
            add_failure(
                out, "corr",
                "the real traces are not those of THE model (Job.cfg: commit=replace, guarded handlers, with-block, no writer-level unlink) "
                f"but of the historical variant commit={commit},guarded={guarded},with_block={wb},body_unlink={bu} "
                "(see the historical_* theorems of Props/C19.lean for what that loses)",
                dict(inp, variant=[commit, guarded, wb, bu, cb]), ["replace", True, True, False], [commit, guarded, wb, bu], confirmed=False,
            )
        _gen_corr(ctx, out, cfg, data, mcfg, True)
        if tclass == "standard":
            _gen_fmt_corr(ctx, out, cfg, data, mcfg, dest0)
        if len(out["samples"]) < 6 and present:
            out["samples"].append(dict(inp, trace=tr, commit=commit, guarded=guarded, with_block=wb, body_unlink=bu, close_in_body=cb))
    ctx.notes.append(
        "model variant followed by the code (detected from the real traces): "
        + "; ".join(f"commit={c},guarded={g},with_block={b},body_unlink={bu},close_in_body={cb}: {len(v)} configs" for (c, g, b, bu, cb), v in sorted(variants.items()))
        + " — THE model (Job.cfg, the subject of atomic_all_prefixes / fault_leaves_old_and_no_temp) is commit=replace,guarded=True,"
        "with_block=True,body_unlink=False; any other variant is reported as a correspondence failure"
    )
    _corr_bare(ctx, out)
    _resume_corr(ctx, out)
    _fine_corr(ctx, out)
    _corr_sites(ctx, out)
    return out


def _corr_bare(ctx, out):
    """the bare-object protocol `aw = atomic_write(p); aw.write(ch)*; aw.close()`: the translated methods run by AtomicSite.runBare vs
    the real object — no fault, and every call k raising: calls issued, whether the exception reaches the caller, destination, temp dir"""
    for present in (True, False):
        cfg = ("atomic_bare", "plain", present)
        data = _collect(ctx, cfg)
        base = data["base"]
        inp = dict(writer="atomic_bare", target="plain", present=present)
        if base.get("exc") or base.get("exit") != 0:
            add_failure(out, "corr", "bare atomic_write object failed on the no-fault path", inp, "success", base.get("exc"), confirmed=False)
            continue
        chunks = [_enc(c) for c in base["chunks"]]
        mcfg = dict(commit="replace", guarded=True, with_block=True, body_unlink=False, close_in_body=False, chunks=chunks, zip_member=None)
        dest0 = _model_dest(base["before"], "standard")
        keys = [None] + sorted(data["faults"])
        res = ctx.driver.batch([("gen_bare", dict(cfg=mcfg, dest=dest0, k=k)) for k in keys])
        for k, mr in zip(keys, res):
            real = base if k is None else data["faults"][k]
            out["evaluations"] += 1
            mc, mtmp = _model_state_canon(mr["state"])
            exp = [_trace_shape(mr["trace"]), mr["raised"], mc, mtmp]
            got = [_trace_shape(real.get("trace") or []), real.get("exc") is not None, _canon_state(real["after"]), bool(real["after"]["leftover"])]
            bump(out, "gen_bare", "no-fault" if k is None else ("raised, temp dir left" if mr["raised"] and mtmp else ("raised" if mr["raised"] else "swallowed")))
            if exp != got:
                add_failure(out, "corr", "bare-object protocol (aw.write(); aw.close()): the translated methods (Gen/C19Program bareWrite / bareClose under "
                            "AtomicSite.runBare) differ from the real object: calls issued / exception / destination / temp dir", dict(inp, mode="fault" if k is not None else "trace", k=k),
                            exp, got, confirmed=False)
            elif k is not None:
                out["nontrivial"].add(("atomic_bare", "plain", present, "gen-bare", k))


def _corr_sites(ctx, out):
    """the call-site table translated from src/cogent3 (Gen/C19Writers.lean) vs the call sites the real writers go through: every
    atomic_write constructed inside cogent3 during a traced run must be a row of the table, with the same tmpdir= / in_zip= use and
    the same protocol (entered through a with statement or not)"""
    table = ctx.driver.batch([("sites", {})])[0]
    rows = {}
    for r in table:
        rows.setdefault((r["file"], r["func"]), []).append(r)
    seen = set()
    runs = [(cfg, _collect(ctx, cfg)["base"].get("sites") or []) for cfg in _configs(ctx)]  # cached; the spec stream needs all of them anyway
    runs += [(cfg, d["base"].get("sites") or []) for cfg, d in sorted(ctx.__dict__.get("_c19data", {}).items()) if cfg[0] == "atomic_bare"]
    for i, case in enumerate(_resume_cases(ctx, 1)[:2]):
        runs.append((("apply_to", "store", bool(i)), case["ref"].get("sites") or []))
    for cfg, sts in runs:
        for st in sts:
            out["evaluations"] += 1
            key = (st["file"], st["func"])
            inp = dict(writer=cfg[0], target=cfg[1], present=cfg[2], site=st)
            cands = rows.get(key)
            if not cands:
                add_failure(out, "corr", "a writer constructs atomic_write at a call site that is not in the translated table (Gen/C19Writers.lean)", inp,
                            sorted(rows), key, confirmed=False)
                continue
            ok = [r for r in cands if r["tmpdir_arg"] == st["tmpdir_arg"] and r["in_zip_arg"] == st["in_zip_arg"]
                  and (r["protocol"] == "withBlock") == st["entered"]]
            if not ok:
                add_failure(out, "corr", "call site of atomic_write: the translated row (protocol, tmpdir=, in_zip=) differs from how the real writer uses the object",
                            inp, cands, st, confirmed=False)
                continue
            seen.add(key)
            bump(out, "call_site", f"{st['file']}:{st['func']}:{'with' if st['entered'] else 'bare/returned'}")
            out["nontrivial"].add(("site",) + key + (cfg[0], cfg[1]))
    ctx.notes.append(f"call sites of atomic_write: {len(table)} in the translated table ({sum(1 for r in table if r['covered'])} covered by the outcome theorems), "
                     f"{len(seen)} distinct (file, function) reached by the traced writers: {sorted(seen)}")


def _gen_corr(ctx, out, cfg, data, mcfg, own):
    """the program TRANSLATED from util/io.py (Gen/C19Program.lean, run under the with-statement protocol of Model/AtomicProg.lean)
    vs the real traces: no fault, and every call k raising (every injected errno): same calls, same outcome (raised / returned)"""
    w, t, present = cfg
    inp = dict(writer=w, target=t, present=present)
    base = data["base"]
    keys = [None] + sorted(data["faults"])
    res = ctx.driver.batch([("gen_run", dict(cfg=mcfg, own=own, k=k)) for k in keys])
    for k, mr in zip(keys, res):
        reals = [("EIO", base if k is None else data["faults"][k])]
        if k is not None:
            reals += [(key[1], r) for key, r in data.get("faults_errno", {}).items() if key[0] == k and len(key) == 2]
        for en, real in reals:
            if k is not None and en == "EEXIST" and (base["trace"][k][0] == "mkdir"):
                bump(out, "gen_run", "skipped: tempfile.mkdtemp retries another name on FileExistsError (stdlib, outside the model)")
                continue
            out["evaluations"] += 1
            bump(out, "gen_run", "no-fault" if k is None else ("raised" if mr["raised"] else "swallowed"))
            got = [_trace_shape(real.get("trace") or []), real.get("exc") is not None]
            exp = [_trace_shape(mr["trace"]), mr["raised"]]
            if exp != got:
                add_failure(out, "corr", "the program translated from util/io.py (Gen/C19Program.lean), run with call k raising, differs from the real "
                            "writer: calls issued / whether the exception reaches the caller", dict(inp, mode="fault" if k is not None else "trace", k=k, errno=en, own_tmpdir=own),
                            exp, got, confirmed=False)
            elif k is not None:
                out["nontrivial"].add((w, t, present, "gen", k, en))


def _gen_fmt_corr(ctx, out, cfg, data, mcfg, dest0):
    """formatting failure (the writer's own code raises in place of data write k): translated program vs real trace and directory"""
    w, t, present = cfg
    tr = data["base"]["trace"]
    ks = sorted(data["fmtfails"])
    if not ks:
        return
    res = ctx.driver.batch([("gen_fmtfail", dict(cfg=mcfg, dest=dest0, n=sum(1 for c in tr[:k] if c[0] == "write"))) for k in ks])
    for k, mr in zip(ks, res):
        real = data["fmtfails"][k]
        out["evaluations"] += 1
        bump(out, "gen_run", "formatting-failure")
        rtrace = list(real.get("trace") or [])
        if len(rtrace) > k:
            del rtrace[k]  # the hook recorded the write whose place the formatting failure took; it never happened
        mc, mtmp = _model_state_canon(mr["state"])
        got = [_trace_shape(rtrace), real.get("exc") is not None, _canon_state(real["after"]), bool(real["after"]["leftover"])]
        exp = [_trace_shape(mr["trace"]), mr["raised"], mc, mtmp]
        if exp != got:
            add_failure(out, "corr", "formatting failure inside the writer's with-block: the translated program (Gen/C19Program.lean) differs from the real writer "
                        "(calls issued / exception / destination / temp dir)", dict(writer=w, target=t, present=present, mode="fmtfail", k=k), exp, got, confirmed=False)
        else:
            out["nontrivial"].add((w, t, present, "gen-fmtfail", k))


def _corr_tmpdir(ctx, out, cfg):
    """atomic_write(path, tmpdir=D): success trace and final state vs the model's programTmp (either cleanup variant)"""
    w, t, present = cfg
    data = _collect(ctx, cfg)
    base = data["base"]
    inp = dict(writer=w, target=t, present=present)
    out["evaluations"] += 1
    if base.get("exc"):
        add_failure(out, "corr", "tmpdir= route failed on the no-fault path", inp, "success", base.get("exc"), confirmed=False)
        return
    chunks = [_enc(c) for c in base["chunks"]]
    mcfg = dict(commit="replace", guarded=True, with_block=True, body_unlink=False, close_in_body=False, chunks=chunks, zip_member=None)
    res = ctx.driver.batch([("prog_tmp", dict(cfg=mcfg, cleanup=cl, dest=_model_dest(base["before"], "standard"))) for cl in ("rmtree_dir", "unlink_file")])
    hit = None
    for cl, mr in zip(("rmtree_dir", "unlink_file"), res):
        if _trace_shape(mr["prog"]) == _trace_shape(base["trace"]):
            hit = (cl, mr)
    if hit is None:
        add_failure(out, "corr", "tmpdir= route: real trace matches neither cleanup variant of the model's programTmp", inp, [r["prog"] for r in res], base["trace"], confirmed=False)
        return
    cl, mr = hit
    bump(out, "tmpdir_cleanup_variant", cl)
    _gen_corr(ctx, out, cfg, data, mcfg, False)
    real_keeps = all(x in base["after"]["leftover"] for x in CALLER_FILES)
    mdest = mr["dest"]
    mtext = bytes(mdest["data"]).decode("latin-1") if mdest["kind"] == "file" else None
    if mr["caller_file_kept"] != real_keeps or ("file", mtext) != _canon_state(base["after"]):
        add_failure(out, "corr", "tmpdir= route: final state differs from the model", dict(inp, variant=cl), [mr["caller_file_kept"], mtext], [real_keeps, _canon_state(base["after"])], confirmed=False)
    else:
        out["nontrivial"].add((w, t, present, "tmpdir", cl))
    # every kill point and every raised OSError on this route: destination, temp file left, the caller's directory and file
    def real_view(r):
        left = set(r["after"]["leftover"])
        return [_canon_state(r["after"]), bool(left - set(CALLER_FILES)), CALLER_FILES[0] in left, CALLER_FILES[1] in left]

    def model_view(m):
        d = m["dest"]
        c = ("file", bytes(d["data"]).decode("latin-1")) if d["kind"] == "file" else (d["kind"],)
        return [c, m["tmpfile"], m["caller_dir"], m["caller_file_kept"]]

    if cl == "unlink_file":
        dest0 = _model_dest(base["before"], "standard")
        ks = sorted(data["kills"])
        for k, m in zip(ks, ctx.driver.batch([("crash_tmp", dict(cfg=mcfg, dest=dest0, k=k)) for k in ks])):
            out["evaluations"] += 1
            bump(out, "tmpdir_route", "kill")
            if model_view(m) != real_view(data["kills"][k]):
                add_failure(out, "corr", "tmpdir= route: state after a kill differs from the model (crashStateTmp: destination, temp file, caller's directory / file)",
                            dict(inp, mode="kill", k=k), model_view(m), real_view(data["kills"][k]), confirmed=False)
            elif chunks:
                out["nontrivial"].add((w, t, present, "tmpdir-kill", k))
        fk = sorted(data["faults"])
        for k, m in zip(fk, ctx.driver.batch([("fault_tmp", dict(cfg=mcfg, dest=dest0, k=k)) for k in fk])):
            real = data["faults"][k]
            out["evaluations"] += 1
            bump(out, "tmpdir_route", "fault")
            exp = model_view(m) + [_trace_shape(m["trace"])]
            got = real_view(real) + [_trace_shape(real.get("trace") or [])]
            if exp != got:
                add_failure(out, "corr", "tmpdir= route: trace / state after a raised OSError differs from the model (faultTraceTmp / faultStateTmp)",
                            dict(inp, mode="fault", k=k), exp, got, confirmed=False)
            elif chunks:
                out["nontrivial"].add((w, t, present, "tmpdir-fault", k))
    if cl != "unlink_file":
        add_failure(out, "corr", "tmpdir= route: the real trace is not that of THE model (programTmp … unlinkFile) but of the historical variant that "
                    "removes the caller's directory (historical_tmpdir_route_removed_callers_dir)", dict(inp, variant=cl), "unlink_file", cl, confirmed=False)


# --------------------------------------------------------------------------
# spec check: real behaviour vs the property (independent of the model)
# --------------------------------------------------------------------------
def _judge(cfg, data, mode, k, real, out, collect=True):
    """returns list of (sig, what, expected, got)"""
    w, t, present = cfg
    tclass = _tclass(t)
    base = data["base"]
    tr = base.get("trace") or []
    old = _canon_state(base["before"])
    new = _canon_state(base["after"]) if not base.get("exc") else None
    after = _canon_state(real["after"])
    left = real["after"]["leftover"]
    call = tr[k][0] if (k is not None and k < len(tr)) else "end"
    res = []
    if w == "atomic_tmpdir":
        # the temp file lives in a directory supplied by the caller, which holds an unrelated file: both must survive everything
        gone = [x for x in CALLER_FILES if x not in left]
        left = [x for x in left if x not in CALLER_FILES]
        if gone:
            res.append((f"{mode}:tmpdir-arg:{call if mode != 'trace' else 'success'}:caller-files-removed",
                        "atomic_write(path, tmpdir=D) removed the caller's directory D and the unrelated file in it", CALLER_FILES, real["after"]["leftover"]))

    def symptom():
        if after == old or (new is not None and after == new):
            return None
        if after == ("absent",):
            return "dest-lost"
        # (auditor) narrower classes, so that the zip-member finding does not absorb other wrong contents
        if after == ("corrupt",):
            return "dest-corrupt"  # unreadable archive / compressed file
        if after[0] == "archive" and old[0] == "archive" and not set(old[1]) <= set(after[1]):
            return "dest-members-lost"  # readable archive that lost previous members
        return "dest-other"

    commit_idx = min([i for i, c in enumerate(tr) if c[0] in ("unlink", "rename", "zip_data") and "dest" in c[1:]] or [len(tr)])
    if mode == "kill":
        s = symptom()
        if s:
            res.append((f"kill:{tclass}:before-{call}:{s}", f"process killed just before call {k} ({call}): destination is neither the old nor the new content", [old, new], after))
    elif mode == "fault" and real.get("exc") is None and new is not None:
        # the injected error was swallowed below cogent3 (e.g. zipfile retries open('r+b') as 'w+b') and the
        # write went on: it must then be a complete write
        if after != new:
            res.append((f"fault:{tclass}:{call}:{symptom() or 'dest-other'}", f"OSError raised by call {k} ({call}) was swallowed, the write reported success but the destination is not the new content", new, after))
        if left and call != "rmtree":
            res.append((f"fault:{tclass}:{call}:temp-left", f"OSError raised by call {k} ({call}) was swallowed, the write reported success but temporary files stay behind", [], left))
    elif mode == "fault":
        s = symptom()
        wsfx = f":{w}" if call == "write" else ""
        if s:
            res.append((f"fault:{tclass}:{call}:{s}{wsfx}", f"OSError raised by call {k} ({call}): destination is neither the old nor the new content", [old, new], after))
        elif k < commit_idx and after != old:
            res.append((f"fault:{tclass}:{call}:dest-changed{wsfx}", f"OSError raised by call {k} ({call}) before the commit point changed the destination", old, after))
        elif after != old and real.get("exc") is not None:
            # the write REPORTED a failure to its caller, yet the destination no longer holds the previous content
            res.append((f"fault:{tclass}:{call}:raised-after-commit{wsfx}", f"OSError raised by call {k} ({call}) reaches the caller as a failed write, but the destination "
                        "was already replaced (a reported failure must leave the previous content / absence)", old, after))
        if left and call != "rmtree":
            res.append((f"fault:{tclass}:{call}:temp-left{wsfx}", f"OSError raised by call {k} ({call}) is propagated to the caller but temporary files stay behind", [], left))
    elif mode in ("fmtfail", "natural"):
        if real.get("exc") is None and mode == "natural":
            return res  # the writer did not consider this a failure
        if after != old:
            res.append((f"{mode}:{tclass}:{w}:{'dest-lost' if after == ('absent',) else 'dest-changed'}", "a formatting failure (exception inside the writer) changed the destination", old, after))
        if left:
            res.append((f"{mode}:{tclass}:{w}:temp-left", "a formatting failure (exception inside the writer) leaves temporary files behind", [], left))
    elif mode == "trace":
        if real.get("exc"):
            if after != old:
                res.append((f"write-raises:{tclass}:{w}:dest-changed", f"the write raised {real['exc']} and changed the destination", old, after))
            if left:
                res.append((f"write-raises:{tclass}:{w}:temp-left", f"the write raised {real['exc']} and leaves temporary files behind", [], left))
        else:
            if left:
                res.append((f"write-ok:{tclass}:{w}:temp-left", "a successful write leaves temporary files behind", [], left))
            if after[0] in ("absent", "corrupt"):
                res.append((f"write-ok:{tclass}:{w}:no-output", "a successful write leaves no readable destination", "content", after))
            elif tclass == "standard" and after != ("file", "".join(base["chunks"])):
                res.append((f"write-ok:{tclass}:{w}:content", "destination content is not what the writer wrote", "".join(base["chunks"])[:100], after))
    return res


def _spec_writes(ctx, out):
    for cfg in _configs(ctx):
        w, t, present = cfg
        data = _collect(ctx, cfg)
        runs = [("trace", None, data["base"])]
        runs += [("kill", k, r) for k, r in data["kills"].items()]
        runs += [("fault", k, r) for k, r in data["faults"].items()]
        for key, r in data.get("faults_errno", {}).items():
            k, en = key[0], key[1]
            extra = key[2] if len(key) > 2 else None
            if extra and extra.startswith("kill"):
                if r.get("exit") == 77:
                    runs.append(("kill", k, dict(r, _errno=en, _extra=extra)))  # died after the failure: judged like any kill point
            else:
                runs.append(("fault", k, dict(r, _errno=en, _extra=extra)))
        runs += [("fmtfail", k, r) for k, r in data["fmtfails"].items()]
        if data["natural"] is not None:
            runs.append(("natural", None, data["natural"]))
        tr = data["base"].get("trace") or []
        for mode, k, real in runs:
            out["evaluations"] += 1
            bump(out, "mode", mode)
            bump(out, "target", t)
            bump(out, "writer", w)
            inp = dict(kind="write", writer=w, target=t, present=present, mode=mode, k=k, at=(tr[k][0] if k is not None and k < len(tr) else None))
            if real.get("_errno"):
                inp["errno"] = real["_errno"]
                bump(out, "fault_errno", real["_errno"])
                if real.get("_extra"):
                    inp["after_fault"] = real["_extra"]
                    inp["mode"] = "fault"
                    bump(out, "fault_followup", real["_extra"])
            if mode in ("kill", "fault", "fmtfail") or (mode == "natural" and real.get("exc")):
                out["nontrivial"].add((w, t, present, mode, k))
            for sig, what, exp, got in _judge(cfg, data, mode, k, real, out):
                extra = real.get("_extra")
                if extra and extra.startswith("kill"):
                    sig = sig.replace("kill:", "fault-then-kill:", 1)
                    what = f"call {k} raised {real['_errno']} and the process was killed {extra[5:]} call(s) later: " + what
                elif extra == "persist":
                    sig += ":persistent"
                    what = f"(the failing condition {real['_errno']} persists for retries) " + what
                add_failure(out, "spec", what, inp, exp, got, confirmed=True, sig=sig)
            if mode == "kill" and len(out["samples"]) < 4 and present and k == len(tr) - 2:
                out["samples"].append(dict(inp, after=real["after"]))


# --------------------------------------------------------------------------
# resume: apply_to interrupted and re-run
# --------------------------------------------------------------------------
def _resume_inputs(ctx, tag, rng, with_failure=True):
    d = ctx.scratch / f"resume_in_{tag}"
    d.mkdir(exist_ok=True)
    n = rng.randint(4, 6) if with_failure else rng.randint(2, 4)
    short = rng.randrange(n) if with_failure else -1
    paths = []
    for i in range(n):
        p = d / f"r{i:02d}.fasta"
        L = 2 if i == short else rng.randint(6, 12)
        p.write_text("".join(f">s{j}\n{''.join(rng.choice('ACGT') for _ in range(L + j))}\n" for j in range(3)))
        paths.append(str(p))
    return paths, short


def _run_resume(ctx, tag, inputs, kills):
    """kills: list of dicts (kill_after / kill_open / kill_created) applied in order, then a complete run"""
    srv = _server(ctx)
    outdir = str(ctx.scratch / f"resume_out_{tag}")
    logs = []
    import shutil

    shutil.rmtree(outdir, ignore_errors=True)
    res = None
    first = None
    for i, kw in enumerate(list(kills) + [{}]):
        lg = str(ctx.scratch / f"resume_{tag}_{i}.log")
        if os.path.exists(lg):
            os.unlink(lg)
        res = srv.job(kind="resume", out=outdir, inputs=inputs, log=lg, **kw)
        if first is None and kw:
            first = res.get("store")  # the store as the killed run left it
        logs.append(res.get("log", []))
    if res is not None:
        res["after_kill"] = first
    return res, logs


def _store_view(st):
    return dict(completed=st["completed"], not_completed=st["not_completed"], md5=st["md5"], other=st["other"], logs=st.get("logs"),
                describe=st.get("describe"), validate=st.get("validate"), summary_logs_rows=st.get("summary_logs_rows"))


def _resume_cases(ctx, budget):
    cache = ctx.__dict__.setdefault("_c19resume", {})
    key = budget
    if key in cache:
        return cache[key]
    rng = ctx.subrng(f"resume{budget}")
    cases = []
    for rep in range(2 if budget <= 1 else 4):
        # every other replicate has no failing input: then a re-run after "all members written" has nothing left to process
        inputs, short = _resume_inputs(ctx, f"{budget}_{rep}", rng, with_failure=(rep % 2 == 0))
        order = list(inputs)
        rng.shuffle(order)
        ref, ref_logs = _run_resume(ctx, f"ref_{budget}_{rep}", order, [])
        n_open = ref.get("opens", 0)
        runs = []
        for j in range(len(order) + 1):
            runs.append(("record", j, [dict(kill_after=j)]))
        opens = list(range(n_open))
        for k in opens:
            runs.append(("file", k, [dict(kill_open=k)]))
        # (auditor) …and right AFTER every record / md5 / not-completed file creation (file exists, still empty)
        for k in range(ref.get("created", 0)):
            runs.append(("created", k, [dict(kill_created=k)]))
        if len(order) >= 3:
            runs.append(("record2", 1, [dict(kill_after=1), dict(kill_after=1)]))
        for mode, k, kills in runs:
            res, logs = _run_resume(ctx, f"{budget}_{rep}_{mode}_{k}", order, kills)
            cases.append(dict(inputs=order, short=short, mode=mode, k=k, ref=ref, res=res, logs=logs))
    cache[key] = cases
    return cases


def _judge_resume(case):
    ref, res = _store_view(case["ref"]["store"]), _store_view(case["res"]["store"])
    fails = []
    b = "record-boundary" if case["mode"].startswith("record") else ("file-created" if case["mode"] == "created" else "file-boundary")
    if case["res"].get("exc"):
        fails.append((f"resume:{b}:rerun-raises", "the re-run of the interrupted apply_to raised", None, case["res"]["exc"]))
        return fails
    if sorted(res["completed"]) != sorted(ref["completed"]) or sorted(res["not_completed"]) != sorted(ref["not_completed"]):
        fails.append((f"resume:{b}:members-differ", "after interrupt + re-run the store has different members than an uninterrupted run",
                      [sorted(ref["completed"]), sorted(ref["not_completed"])], [sorted(res["completed"]), sorted(res["not_completed"])]))
    elif res["completed"] != ref["completed"] or res["not_completed"] != ref["not_completed"]:
        bad = [k for k in ref["completed"] if res["completed"].get(k) != ref["completed"][k]]
        fails.append((f"resume:{b}:content-differs", "after interrupt + re-run a record's content differs from an uninterrupted run", bad, {k: res["completed"].get(k, "")[:60] for k in bad}))
    elif res["md5"] != ref["md5"]:
        miss = sorted(set(ref["md5"]) - set(res["md5"]))
        fails.append((f"resume:{b}:md5-{'missing' if miss else 'differs'}", "after interrupt + re-run the store's md5 records differ from an uninterrupted run (record complete, checksum never written)", sorted(ref["md5"]), sorted(res["md5"])))
    if res["logs"] != ref["logs"] or res["summary_logs_rows"] != ref["summary_logs_rows"]:
        fails.append((f"resume:{b}:log-{'missing' if len(res['logs'] or []) < len(ref['logs'] or []) else 'differs'}",
                      "after interrupt + re-run the store's logs differ from an uninterrupted run (the re-run did not store its log / stored extra ones)",
                      dict(logs=ref["logs"], summary_logs_rows=ref["summary_logs_rows"]), dict(logs=res["logs"], summary_logs_rows=res["summary_logs_rows"])))
    elif not fails and (res["describe"] != ref["describe"] or res["validate"] != ref["validate"]):
        fails.append((f"resume:{b}:describe-differs", "after interrupt + re-run describe / validate() of the store differ from an uninterrupted run",
                      dict(describe=ref["describe"], validate=ref["validate"]), dict(describe=res["describe"], validate=res["validate"])))
    if res["other"]:
        fails.append((f"resume:{b}:stray-files", "stray files in the store after interrupt + re-run", [], res["other"]))
    return fails


def _spec_resume(ctx, out, budget):
    for case in _resume_cases(ctx, budget):
        out["evaluations"] += 1
        bump(out, "resume_mode", case["mode"])
        inp = dict(kind="resume", n=len(case["inputs"]), order=[os.path.basename(p) for p in case["inputs"]], mode=case["mode"], k=case["k"], short=case["short"])
        if case["k"]:
            out["nontrivial"].add(("resume", tuple(inp["order"]), case["mode"], case["k"]))
        for sig, what, exp, got in _judge_resume(case):
            add_failure(out, "spec", what, inp, exp, got, confirmed=True, sig=sig)
        # record-level: an input whose completed record was written before the interruption is not processed again
        if case["mode"].startswith("record"):
            ref_completed = {k.replace(".fasta", "") for k in case["ref"]["store"]["completed"]}
            j = case["k"]
            # the first j results (input order, serial) were written before the kill
            order_ids = [os.path.basename(p).replace(".fasta", "") for p in case["inputs"]]
            written = [i for i in order_ids[:j] if i in ref_completed]
            again = [os.path.basename(x).replace(".fasta", "") for x in case["logs"][-1]]
            twice = sorted(set(written) & set(again))
            if twice:
                add_failure(out, "spec", "an input completed before the interruption was processed again by the re-run", inp, [], twice, sig="resume:record-boundary:processed-twice")
        if len(out["samples"]) < 6 and case["mode"] == "record" and case["k"] == 2:
            out["samples"].append(dict(inp, rerun_processed=case["logs"][-1], completed=sorted(case["res"]["store"]["completed"]), not_completed=case["res"]["store"]["not_completed"]))


def _resume_corr(ctx, out):
    """Lean applyTo (interrupted after j results, then re-run) vs the real stores"""
    reqs, cases = [], []
    for case in _resume_cases(ctx, 1):
        if case["mode"] != "record":
            continue
        n = len(case["inputs"])
        idx = [int(os.path.basename(p)[1:3]) for p in case["inputs"]]
        steps = [
            dict(name=1, kind="generic", skip=True, accepts=[], rules=[[case["short"], ["raise", 1]]], default=["ret", 2, 0]),
            dict(name=0, kind="loader", skip=True, accepts=[], rules=[], default=["ret", 2, 0]),
        ]
        common = dict(ids=[[m, m] for m in idx], steps=steps, inputs=idx, ident_ty=1)
        reqs.append(("apply", dict(common, store=[], order=list(range(case["k"])))))
        cases.append(case)
    first = ctx.driver.batch(reqs)
    reqs2 = []
    for (cmd, rq), r1 in zip(reqs, first):
        reqs2.append(("apply", dict(rq, store=r1["store"], order=list(range(len(rq["inputs"]))))))
    for case, r2 in zip(cases, ctx.driver.batch(reqs2)):
        out["evaluations"] += 1
        model_done = sorted(f"r{e[0]:02d}.fasta" for e in r2["store"] if "ok" in e[1])
        model_nc = sorted(f"r{e[0]:02d}.json" for e in r2["store"] if "nc" in e[1])
        st = case["res"]["store"]
        if model_done != sorted(st["completed"]) or model_nc != sorted(st["not_completed"]):
            add_failure(out, "corr", "store after interrupt+resume differs from the model's applyTo", dict(k=case["k"], inputs=[os.path.basename(p) for p in case["inputs"]]), [model_done, model_nc], [sorted(st["completed"]), sorted(st["not_completed"])], confirmed=False)
        else:
            out["nontrivial"].add(("resume-corr", tuple(case["inputs"]), case["k"]))
        for e in r2["store"]:
            if "nc" in e[1]:
                real = st["not_completed"].get(f"r{e[0]:02d}.json")
                exp = [e[1]["nc"][0], "c19_check" if e[1]["nc"][1] == 1 else "c19_load"]
                if not real or real[:2] != exp or "too short" not in real[2]:
                    add_failure(out, "corr", "not-completed record differs from the model", dict(k=case["k"]), exp, real, confirmed=False)


def _cells(store, ids):
    """observed store -> [[m, record slot, not-completed slot, md5 slot]] with slots absent / empty / full"""
    def slot(d, name):
        if name not in d:
            return "absent"
        v = d[name]
        if isinstance(v, list):
            return "empty" if v and v[0] == "unparsable" else "full"
        return "full" if v else "empty"

    return [[m, slot(store["completed"], f"r{m:02d}.fasta"), slot(store["not_completed"], f"r{m:02d}.json"), slot(store["md5"], f"r{m:02d}.txt")] for m in ids]


def _fine_corr(ctx, out):
    """record-granular resume: Lean StoreWrite (crash point (j, p)) vs the real store after the kill and after the re-run;
    the variant of the store's _write (in place / md5-then-record through atomic_write) is detected"""
    cases = [c for c in _resume_cases(ctx, 1) if c["mode"] in ("file", "created") and c["res"].get("after_kill") is not None]
    if not cases:
        return
    best = None
    for variant in ("in_place", "atomic_md5_first"):
        reqs, keep = [], []
        for c in cases:
            ids = [int(os.path.basename(p)[1:3]) for p in c["inputs"]]
            k = c["k"]
            if k >= 2 * len(ids):
                continue  # the log file, not a record
            j, odd = divmod(k, 2)
            if variant == "in_place":
                p = (2 if odd else 0) if c["mode"] == "file" else (3 if odd else 1)
            else:
                p = 1 if odd else 0
            reqs.append(("fine", dict(variant=variant, inputs=[[m, m != c["short"]] for m in ids], j=j, p=p)))
            keep.append((c, ids, j, p))
        bad = []
        gen_is = None
        for (c, ids, j, p), mr in zip(keep, ctx.driver.batch(reqs)):
            real_crash, real_final = _cells(c["res"]["after_kill"], ids), _cells(c["res"]["store"], ids)
            gen_is = mr.get("gen_is_variant")
            if mr["crash"] != real_crash or mr["resumed"] != real_final:
                bad.append((dict(mode=c["mode"], k=c["k"], j=j, p=p, variant=variant, order=ids, short=c["short"]), [mr["crash"], mr["resumed"]], [real_crash, real_final]))
        if best is None or len(bad) < len(best[1]):
            best = (variant, bad, len(keep), gen_is)
    variant, bad, n, gen_is = best
    bump(out, "store_write_list_translated_is_detected_variant", str(gen_is))
    if gen_is is False and not bad:
        add_failure(out, "corr", "the write list translated from DataStoreDirectory._write (Gen/C19Program.storeWrites) does not give the file operations of the "
                    "variant the real store follows under kill injection", dict(variant=variant), "blockOfWrites storeWrites = block variant", "different", confirmed=False)
    bump(out, "store_write_variant", variant)
    out["evaluations"] += n
    for inp, exp, got in bad[:3]:
        add_failure(out, "corr", "store after a kill inside a record write / after the re-run differs from the StoreWrite model (closest variant shown)", inp, exp, got, confirmed=False)
    if not bad:
        out["nontrivial"].add(("fine-resume", variant, n))
    if variant != "atomic_md5_first" and not bad:
        add_failure(out, "corr", "DataStoreDirectory._write does not follow THE model (StoreWrite atomicMd5First: md5 then record, each by one rename) but the "
                    "historical in-place variant (historical_store_write_in_place_witness says what that loses)", dict(variant=variant), "atomic_md5_first", variant, confirmed=False)


def spec_check(ctx, budget):
    out = new_outcome(
        "real fault injection: every writer x target x {dest present, absent}: kill (os._exit in the audit hook) before every call, "
        "OSError raised by every call, exception raised by every data write, the writer's own formatting failure; oracle: dest in {old,new}, "
        "old before the commit point, no temp files after a handled failure; apply_to killed after every j results / before every file "
        "creation then re-run: store (members, contents, md5, not-completed records) equals an uninterrupted run; non-trivial = injected runs"
    )
    _regression_witnesses(ctx, out)
    _spec_writes(ctx, out)
    _spec_resume(ctx, out, budget)
    return out


# --------------------------------------------------------------------------
# findings
# --------------------------------------------------------------------------
def _regression_witnesses(ctx, out):
    """the witnesses of the FIXED findings are permanent regression tests: each is replayed on the real code first, so that a
    regression is reported as a VIOLATION whose replay is exactly the old witness"""
    import json as _json

    from .common import VERIF as _V

    fp = _V / "known_findings.d" / f"{PROP}.json"
    if not fp.exists():
        return
    for k in _json.loads(fp.read_text()).get("findings", []):
        if k.get("status") != "fixed" or "witness" not in k:
            continue
        out["evaluations"] += 1
        bump(out, "regression_witness", k["id"])
        f = check_witness(ctx, k["witness"])
        if f:
            f = dict(f, what=f"REGRESSION of fixed finding {k['id']} ({k.get('commit')}): " + f["what"])
            f["input"] = dict(f.get("input") or {}, regression_of=k["id"])
            out["failures"].append(f)


def match_finding(f, k):
    sig = f.get("sig") or ""
    if sig not in k.get("sigs", []) and not any(sig.startswith(p) for p in k.get("sig_prefixes", [])):
        return False
    if k.get("sig_suffix") and not sig.endswith(k["sig_suffix"]):
        return False
    r = k.get("restrict") or {}
    inp = f.get("input") or {}
    if r.get("writers") and inp.get("writer") not in r["writers"]:
        return False
    if r.get("targets") and inp.get("target") not in r["targets"]:
        return False
    if "present" in r and inp.get("present") != r["present"]:
        return False
    if r.get("resume_modes") and (inp.get("kind") != "resume" or inp.get("mode") not in r["resume_modes"]):
        return False
    return True


def _one(ctx, w):
    """run a single injected write job described by a witness; returns list of (sig, what, exp, got), input"""
    srv = _server(ctx)
    cfg = (w["writer"], w["target"], bool(w.get("present", True)))
    wd = str(ctx.scratch / "witness")
    base = srv.job(kind="write", writer=cfg[0], target=cfg[1], present=cfg[2], mode="trace", workdir=wd)
    data = dict(cfg=cfg, base=base)
    tr = base.get("trace") or []
    mode = w["mode"]
    k = None
    if mode in ("kill", "fault", "fmtfail"):
        idxs = [i for i, c in enumerate(tr) if c[0] == w["at"] and (w.get("role") is None or c[1] == w["role"])]
        if not idxs:
            return [], None
        k = idxs[w.get("nth", 0)] if len(idxs) > w.get("nth", 0) else idxs[0]
        af = w.get("after_fault") or ""
        real = srv.job(kind="write", writer=cfg[0], target=cfg[1], present=cfg[2], mode=mode, k=k, workdir=wd, errno=w.get("errno", "EIO"),
                       persist=(af == "persist"), kill_after_fault=(int(af[5:]) if af.startswith("kill+") else None))
        if af.startswith("kill+"):
            mode = "kill"
    elif mode == "natural":
        real = srv.job(kind="write", writer=cfg[0], target=cfg[1], present=cfg[2], mode="natural", workdir=wd)
    else:
        real = base
    inp = dict(kind="write", writer=cfg[0], target=cfg[1], present=cfg[2], mode=mode, k=k, at=w.get("at"))
    if w.get("errno"):
        inp["errno"] = w["errno"]
    return _judge(cfg, data, mode, k, real, None), inp


def check_witness(ctx, w):
    out = new_outcome()
    if w.get("kind") == "resume":
        rng = ctx.subrng("witness-resume")
        inputs, short = _resume_inputs(ctx, "wit", rng, with_failure=w.get("with_failure", True))
        ref, _ = _run_resume(ctx, "wit_ref", inputs, [])
        res, logs = _run_resume(ctx, "wit_run", inputs, [w["kill"]])
        mode = "file" if "kill_open" in w["kill"] else ("created" if "kill_created" in w["kill"] else "record")
        case = dict(inputs=inputs, short=short, mode=mode, k=list(w["kill"].values())[0], ref=ref, res=res, logs=logs)
        for sig, what, exp, got in _judge_resume(case):
            if sig == w.get("sig", sig):
                add_failure(out, "spec", what, dict(kind="resume", mode=case["mode"], k=case["k"]), exp, got, sig=sig)
                return out["failures"][0]
        return None
    res, inp = _one(ctx, w)
    for sig, what, exp, got in res:
        if w.get("sig") in (None, sig):
            add_failure(out, "spec", what, inp, exp, got, sig=sig)
            return out["failures"][0]
    return None


def replay(ctx, data):
    f = data.get("failing_input") or {}
    inp = f.get("input") or {}
    if inp.get("kind") == "write":
        w = dict(inp)
        if w.get("at") is None and w["mode"] in ("kill", "fault", "fmtfail"):
            return False
        res, _ = _one(ctx, w)
        for sig, what, exp, got in res:
            print(sig, what, "expected", exp, "got", got)
        return any(sig == f.get("sig") for sig, *_ in res) or bool(res)
    if inp.get("kind") == "resume":
        out = new_outcome()
        _spec_resume(ctx, out, 1)
        return any(x["sig"] == f.get("sig") for x in out["failures"])
    return False
