"""C12, correspondence stream 11: the DERIVED-STATE model of new-style collections (lean Model/GeneticCodeState.lean,
theorems Props/C12State.lean) against the real `new_alignment.SequenceCollection`.

A case = stored rows (named), a number of `rc()` calls, an operation (what is displayed / get_translation /
trim_stop_codons / has_terminal_stop).  The model keeps stored strings + reversed flags like `SeqsData`; both sides are
compared on what they DISPLAY.  `trim_stop_codons` exists in two variants of the model (`fwd`: is
`reversed_seqs=self.seqs.reversed` passed to the new SeqsData, the code of the known finding, or not, the repaired
code); which one the tree under test implements is decided BEHAVIOURALLY by one fixed probe, then every case is
compared with that variant (so the stream is silent on both trees and any third behaviour is a mismatch).
"""
from __future__ import annotations

from .common import add_failure, bump

PROBE = [["s0", "TCAGCAAAA"], ["s1", "AAAAACTAT"]]  # rc() displays TTTTGCTGA / ATAGTTTTT


def _real(data, nrc, op, code, io=False, is_=False, ts=True, strict=False):
    from . import c12

    def run():
        from cogent3.core import new_alignment

        o = new_alignment.make_unaligned_seqs(dict((k, v) for k, v in data), moltype="dna")
        for _ in range(nrc):
            o = o.rc()
        names = [k for k, _ in data]
        if op == "display":
            d = o.to_dict()
            return {"names": list(o.names), "rows": [str(d[n]) for n in names]}
        if op == "has_terminal_stop":
            return bool(o.has_terminal_stop(gc=code, strict=strict))
        if op == "trim_stop_codons":
            d = o.trim_stop_codons(gc=code, strict=strict).to_dict()
        else:
            d = o.get_translation(gc=code, incomplete_ok=io, include_stop=is_, trim_stop=ts).to_dict()
        return [str(d[n]) for n in names]

    return c12._call(run)


def corr_collstate(ctx, out, drv, rng, both):
    from . import c12

    # which variant of trim_stop_codons does this tree implement?  (one fixed probe, behaviour only)
    base = dict(code=1, data=PROBE, nrc=1, op="trim_stop_codons", strict=False)
    m_fwd, m_plain = drv.batch([("collstate", dict(base, fwd=True)), ("collstate", dict(base, fwd=False))])
    real = _real(PROBE, 1, "trim_stop_codons", 1)
    if real == m_plain:
        fwd = False
    elif real == m_fwd:
        fwd = True
    else:
        fwd = False
        add_failure(out, "corr", "new SequenceCollection.trim_stop_codons on the rc'd probe collection matches neither variant of the "
                    "derived-state model (reversed flags forwarded / not forwarded)", dict(base), dict(forwarding=m_fwd, plain=m_plain), real, confirmed=False)
    bump(out, "collstate_trim_forwards_reversed_flags", str(fwd))

    reqs, reals = [], []
    flags = [(a, b, c) for a in (False, True) for b in (False, True) for c in (False, True)]
    for _ in range(ctx.budget(30, 300)):
        code = rng.choice(both)
        tbl = c12._oracle_table(c12._code_seqs()[code])
        stops = [c for c, a in tbl.items() if a == "*"] or ["GCT"]
        rcstops = [c12_rc(c) for c in stops]
        n = rng.choice([3, 6, 9, 12]) if rng.random() < 0.75 else rng.randint(1, 13)
        data = []
        for j in range(rng.randint(1, 3)):
            r = c12._rand_seq(rng, n, rng.choice(["canon", "stops"]))
            q = rng.random()
            if n >= 3 and q < 0.3:
                r = r[: n - 3] + rng.choice(stops)  # a stop at the stored 3' end
            elif n >= 3 and q < 0.7:
                r = rng.choice(rcstops) + r[3:]  # a stop at the END of the reverse complement
            data.append([f"s{j}", r])
        if rng.random() < 0.3:
            data.reverse()  # names not in sorted order
        nrc = rng.choice([0, 1, 1, 1, 2, 3])
        io, is_, ts = rng.choice(flags)
        strict = rng.random() < 0.3
        common = dict(code=code, data=data, nrc=nrc)
        reqs.append(("collstate", dict(common, op="display", fwd=False)))
        reals.append(_real(data, nrc, "display", code))
        reqs.append(("collstate", dict(common, op="get_translation", fwd=False, incomplete_ok=io, include_stop=is_, trim_stop=ts)))
        reals.append(_real(data, nrc, "get_translation", code, io, is_, ts))
        reqs.append(("collstate", dict(common, op="has_terminal_stop", fwd=False, strict=strict)))
        reals.append(_real(data, nrc, "has_terminal_stop", code, strict=strict))
        reqs.append(("collstate", dict(common, op="trim_stop_codons", fwd=fwd, strict=strict)))
        reals.append(_real(data, nrc, "trim_stop_codons", code, strict=strict))
    for (cmd, rq), real, mod in zip(reqs, reals, drv.batch(reqs)):
        out["evaluations"] += 1
        bump(out, "collstate_model", f"{rq['op']}:rc x{rq['nrc']}")
        if rq["op"] == "display" and isinstance(mod, dict):
            mod = {"names": mod["names"], "rows": mod["rows"]}
        if isinstance(real, dict) and isinstance(mod, dict) and "err" in real and "err" in mod and {real["err"], mod["err"]} <= {"AlphabetError", "ValueError"}:
            real = mod  # both reject (the exception class of a rejected row is not modelled at collection level)
        if real != mod:
            add_failure(out, "corr", f"new SequenceCollection in a derived state: {rq['op']} after {rq['nrc']} x rc() differs from the "
                        "derived-state model (stored rows + reversed flags)", rq, mod, real, confirmed=False)
        elif rq["nrc"] % 2 == 1 and real not in (None, [], False):
            out["nontrivial"].add(("collstate", str(sorted((k, str(v)) for k, v in rq.items()))))
            if isinstance(real, dict) and "err" in real:
                bump(out, "errors", real["err"])
    return out


def c12_rc(s):
    return s.translate(str.maketrans("ACGT", "TGCA"))[::-1]
