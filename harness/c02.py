"""C02 — log-likelihood equals the first-principles Felsenstein sum-product."""
from __future__ import annotations

import itertools
import math
import time
from fractions import Fraction

from . import c02_history as H
from . import c02_options as O
from . import c02_sites as S
from . import c02_util as U
from .common import add_failure, bump, new_outcome, unrat

PROP = "C02"
PROPS_FILES = ["CogentModel/Props/C02.lean", "CogentModel/Props/C02Sites.lean", "CogentModel/Props/C02Fixed.lean", "CogentModel/Props/C02Gen.lean"]
LEAN_TARGETS = ["CogentModel.Props.C02", "CogentModel.Props.C02Sites", "CogentModel.Props.C02Fixed", "CogentModel.Props.C02Gen"]
DRIVER = "drv_c02"
TRUSTED = [
    "hand-written model lean/CogentModel/Model/Prune.lean of the pruning recursion, bin mixture and _indexed column "
    "compression; tied by exact-rational shadow evaluation: the real float64 P matrices / root probabilities / bin "
    "probabilities / leaf arrays of each likelihood function are sent to the compiled model as exact rationals and "
    "its exact per-column likelihoods are compared with lf.get_full_length_likelihoods() (rel 1e-9) and lf.lnL (rel 1e-8)",
    "spec: CogentModel.Prune.bruteForce (sum over all labelings), evaluated by the same driver on the same inputs",
    "IUPAC ambiguity tables written into harness/c02_util.py (independent of cogent3.core.moltype)",
    "scipy.linalg.expm as the independent matrix exponential for P = exp(Qt)",
    "hand-written model lean/CogentModel/Model/PruneSites.lean of SumDefn over loci, PatchSiteDistribution, "
    "SiteClassTransitionMatrix and the loop of log_dot_reduce (mirrored as written since fix 6668db777: dot(state_probs, switch_probs); "
    "STRICT about the orientation); tied on the real per-bin likelihood "
    "arrays / root index / PatchSiteDistribution attributes of sites_independent=False likelihood functions",
    "translator/c02_indexed2lean.py (AST of likelihood_tree._indexed -> Gen/C02Indexed.lean, proved equal to the hand model Prune.indexed: "
    "gen_indexed_eq_model) with its prelude Model/PyAccum.lean (dict as association list)",
    "hand-written model lean/CogentModel/Model/PruneFixed.lean of PartialLikelihoodProductDefnFixedMotif (mask on one internal node "
    "addressed by its path); tied to every successful reconstruct_ancestral_seqs of the history stream (driver `lfpin`)",
    "the harness's own reading of the site-class HMM definition at the level of the bins (harness/c02_sites.py hmm_definition)",
]
ASSUMPTIONS = [
    "float rounding / underflow of the numba kernels is bounded by the stated tolerances, not modelled",
    "the rate matrix Q itself (predicates, calibration) is C05's concern; here P is checked against scipy expm(Q t) only",
    "log is uninterpreted in the theorems (any function into an additive commutative monoid)",
    "calculation-graph caching is C07's concern: every likelihood function is evaluated once, freshly built",
    "the rescaling by 2**100 inside log_dot_reduce is not modelled (identity in exact arithmetic)",
]

REL_LH = 1e-9


def generate(ctx):
    """translator step: `_indexed` of the CURRENT evolve/likelihood_tree.py -> Gen/C02Indexed.lean (proved equal to the hand model
    `Prune.indexed` for all key lists in Props/C02Gen.lean, so a semantic edit of the function breaks a proof obligation and
    syntax outside the supported fragment is a reported translation problem)"""
    import sys

    from .common import LEAN, SRC, VERIF

    sys.path.insert(0, str(VERIF))
    from translator import c02_indexed2lean as tr

    lean, info, problems = tr.translate(SRC / "evolve" / "likelihood_tree.py")
    ctx.notes.append(f"c02_indexed2lean: {info}")
    if lean is not None and tr.write_if_changed(LEAN / "CogentModel" / "Gen" / "C02Indexed.lean", lean):
        ctx.notes.append("Gen/C02Indexed.lean was rewritten (source differs from the last generated text)")
    return [f"c02_indexed2lean: {p}" for p in problems]
REL_LNL = 1e-8
MAX_LABELINGS = 20000


# --------------------------------------------------------------------------
# shared evaluation of one problem
# --------------------------------------------------------------------------
def _uniq_cols(cols):
    seen, out = {}, []
    for c in cols:
        k = tuple(c)
        if k not in seen:
            seen[k] = len(out)
            out.append(c)
    return out


def _features(spec, ex):
    tree = spec["tree"]

    def arities(n):
        return ([len(n["children"])] if n["children"] else []) + [a for c in n["children"] for a in arities(c)]

    ar = arities(tree)
    nsym_amb = sum(1 for _, p in ex["symbols"] if p is not None and sum(1 for x in p if x != 0) > 1)
    return dict(
        kind=spec["kind"], model=spec["model"], ntips=len(ex["tips"]), root_degree=ar[0], max_arity=max(ar),
        polytomy=max(ar) > 2, unary=min(ar) == 1, internal=len(ar), bins=len(ex["bins"]), ambiguous_symbols=nsym_amb,
        new_type=spec.get("new_type", False), scoped=bool(spec.get("scoped")),
    )


def _sig(kind, what, feat):
    return f"{what}:{feat['kind']}:bins={'y' if feat['bins'] > 1 else 'n'}:poly={'y' if feat['polytomy'] else 'n'}:scoped={'y' if feat['scoped'] else 'n'}"


def _slim(spec):
    return {k: v for k, v in spec.items() if k != "tree"} | {"tree": spec["tree"]}


def evaluate(ctx, specs, rng, profiles, want_brute, out, kind):
    """build every problem with the real cogent3, run the Lean model (and spec) on its numeric
    inputs, compare.  kind='corr': prune vs implementation; kind='spec': bruteForce vs implementation."""
    import numpy

    built = []
    reqs = []
    for spec in specs:
        try:
            lf = U.build_lf(spec, rng)
            lnl = float(lf.lnL)
            fl = numpy.array(lf.get_full_length_likelihoods(), dtype=float)
            ex = U.extract(lf, spec, profiles=profiles)
        except Exception as e:  # the real code refused a well-formed problem
            add_failure(out, "spec", "likelihood function construction raised", _slim(spec), "a likelihood function",
                        f"{type(e).__name__}: {e}", sig=f"build-raised:{spec['kind']}:{type(e).__name__}")
            continue
        if kind == "spec":
            _check_lengths(lf, spec, out)
            if spec["kind"] == "codon":
                _check_indep_codon(ctx, lf, spec, out)
                _check_omega_structure(lf, spec, out)
        uc = _uniq_cols(ex["cols"])
        brute = []
        if want_brute:
            cand = [u for u, c in enumerate(uc) if U.n_labelings(ex, c) * len(ex["bins"]) <= MAX_LABELINGS]
            brute = cand[: want_brute]
        root = lf.get_param_value("root")
        nodes = None
        if kind == "corr":
            # the implementation's compressed likelihood tree: every node's index and unique child-index tuples
            lht = lf.get_param_value("lht")
            nodes = {}
            for e, name in [(-1, "root")] + list(enumerate(ex["edges"])):
                nd = lht if name == "root" else lht.get_edge(name)
                uq = nd.uniq
                nodes[e] = dict(index=[int(i) for i in nd.index],
                                uniq=None if name in ex["tips"] else [[int(x) for x in row] for row in uq[:-1]],
                                nuniq=len(uq) - 1)
        built.append(dict(spec=spec, lnl=lnl, fl=fl, ex=ex, brute=brute, root_index=[int(i) for i in root.index],
                          root_counts=[int(c) for c in root.counts], nodes=nodes))
        reqs.append(U.lean_request(ex, brute))
        if kind == "corr":
            reqs.append(("clf", U.lean_request(ex, [])[1]))
        del lf
    replies = ctx.driver.batch(reqs) if reqs else []
    if kind == "corr":
        creplies = replies[1::2]
        replies = replies[0::2]
        for b, cres in zip(built, creplies):
            _compare_compressed(b, cres, out)
    for b, res in zip(built, replies):
        spec, ex = b["spec"], b["ex"]
        feat = _features(spec, ex)
        out["evaluations"] += 1
        for k in ("kind", "model", "ntips", "root_degree", "max_arity", "internal", "bins", "new_type", "scoped", "unary"):
            bump(out, k, feat[k])
        if "error" in res:
            add_failure(out, "corr", "driver error", _slim(spec), "reply", res["error"], confirmed=False)
            continue
        lhs = [unrat(x) for x in res["lh"]]
        index, counts = res["index"], res["counts"]
        bump(out, "unique_columns", len(counts))
        bump(out, "columns", ex["ncols"])
        bump(out, "ambiguous_symbols", min(feat["ambiguous_symbols"], 9))
        if kind == "corr":
            # column compression as the implementation did it at the root
            if b["root_index"] != index or b["root_counts"] != counts + [0]:
                add_failure(out, "corr", "root index/counts differ from model `indexed`", _slim(spec),
                            dict(index=index, counts=counts + [0]), dict(index=b["root_index"], counts=b["root_counts"]), confirmed=False)
            bad = [i for i, u in enumerate(index) if not U.close(float(b["fl"][i]), lhs[u], REL_LH)]
            if len(b["fl"]) != len(index):
                bad = ["length"]
            if bad:
                i = bad[0]
                add_failure(out, "corr", "per-column likelihood differs from model prune", dict(_slim(spec), column=i),
                            None if i == "length" else str(lhs[index[i]]), None if i == "length" else float(b["fl"][i]), confirmed=False)
            exact_lnl = sum(k * U.log_fraction(l) for k, l in zip(counts, lhs))
            if not (abs(b["lnl"] - exact_lnl) <= REL_LNL * abs(exact_lnl) + 1e-12):
                add_failure(out, "corr", "lnL differs from model weighted log-sum", _slim(spec), exact_lnl, b["lnl"], confirmed=False)
        else:
            bfs = {x["u"]: unrat(x["bf"]) for x in res["brute"]}
            for x in res["brute"]:
                bump(out, "labelings_log10", int(math.log10(max(x["labelings"], 1))))
            for u, bf in bfs.items():
                cols_u = [i for i, uu in enumerate(index) if uu == u]
                i = cols_u[0]
                out["evaluations"] += 1
                if bf != lhs[u]:
                    # the model's pruning and the spec disagree: theorem prune_eq_bruteForce says impossible
                    add_failure(out, "corr", "Lean prune != Lean bruteForce", dict(_slim(spec), column=i), str(bf), str(lhs[u]), confirmed=False)
                if not U.close(float(b["fl"][i]), bf, REL_LH):
                    add_failure(out, "spec", "per-column likelihood differs from the sum over all labelings",
                                dict(_slim(spec), column=i, check="lh"), float(bf), float(b["fl"][i]), sig=_sig(kind, "lh", feat))
            # lnL against the plain definition: one term per alignment column (the harness's own column
            # bookkeeping, not the model's `indexed`); columns that were not brute-forced use the model's
            # prune value, which theorem prune_eq_bruteForce proves equal to the sum over labelings
            pos = {tuple(c): u for u, c in enumerate(res["uniq"])}
            exact_lnl = 0.0
            for col in ex["cols"]:
                u = pos[tuple(col)]
                exact_lnl += U.log_fraction(bfs.get(u, lhs[u]))
            if not (abs(b["lnl"] - exact_lnl) <= REL_LNL * abs(exact_lnl) + 1e-12):
                add_failure(out, "spec", "lnL differs from sum over columns of log(sum over labelings)",
                            dict(_slim(spec), check="lnl"), exact_lnl, b["lnl"], sig=_sig(kind, "lnl", feat))
            if bfs and len(bfs) == len(counts):
                bump(out, "lnl_fully_brute_forced")
        if len(counts) >= 2:
            out["nontrivial"].add((spec["model"], spec["newick"], spec["seed"], kind))
        if len(out["samples"]) < 6 and feat["internal"] > 1:
            out["samples"].append(dict(model=spec["model"], newick=spec["newick"], bins=feat["bins"], rules=spec["rules"][:3],
                                       seqs={k: v[:24] for k, v in list(spec["seqs"].items())[:3]}, lnL=b["lnl"],
                                       unique_columns=len(counts)))


def _check_lengths(lf, spec, out):
    """the branch lengths of the tree the caller supplied are the `length` parameters of the calculation"""
    if spec["model"] in U.DISCRETE:
        return
    ruled = {r.get("edge") for r in spec.get("rules", []) if r["par_name"] == "length"}

    def walk(n):
        for c in n["children"]:
            if c["len"] is not None and c["name"] not in ruled:
                got = float(lf.get_param_value("length", edge=c["name"]))
                out["evaluations"] += 1
                if got != float(c["len"]):
                    add_failure(out, "spec", "edge length used by the calculation differs from the tree's branch length",
                                dict(_slim(spec), check="length", edge=c["name"]), float(c["len"]), got,
                                sig=f"length-from-tree:{'zero' if float(c['len']) == 0.0 else 'nonzero'}")
                    return True
            if walk(c):
                return True
        return False

    walk(spec["tree"])


def _compare_compressed(b, cres, out):
    """Model/PruneCompressed.lean (hierarchical de-duplication, products through index arrays) vs the
    implementation's likelihood tree: every node's index / uniq, and the full-length likelihoods"""
    spec = b["spec"]
    out["evaluations"] += 1
    if "error" in cres:
        add_failure(out, "corr", "driver error (clf)", _slim(spec), "reply", cres["error"], confirmed=False)
        return
    for nd in cres["nodes"]:
        real = b["nodes"][nd["e"]]
        bump(out, "lht_nodes_compared")
        if nd["index"] != real["index"] or len(nd["uniq"]) != real["nuniq"] or (real["uniq"] is not None and nd["uniq"] != real["uniq"]):
            add_failure(out, "corr", "likelihood-tree node index/uniq differs from compressed model",
                        dict(_slim(spec), node=nd["e"]), dict(index=nd["index"], uniq=nd["uniq"]), real, confirmed=False)
            return
    full = [unrat(x) for x in cres["full"]]
    if len(full) != len(b["fl"]) or any(not U.close(float(x), f, REL_LH) for x, f in zip(b["fl"], full)):
        add_failure(out, "corr", "full-length likelihoods differ from compressed model", _slim(spec),
                    [float(f) for f in full[:5]], [float(x) for x in b["fl"][:5]], confirmed=False)


def _model_plan(ctx, rng, n_nuc, n_codon, n_prot, n_dinuc):
    kinds = U.model_kinds()
    nuc = [m for m, k in kinds.items() if k == "nucleotide"]
    codon = [m for m, k in kinds.items() if k == "codon"]
    prot = [m for m, k in kinds.items() if k == "protein"]
    plan = []
    # every nucleotide model at least once, then random
    pool = list(nuc)
    rng.shuffle(pool)
    plan += [pool[i % len(pool)] for i in range(n_nuc)]
    # codon / protein models rotate with the seed so that seeds 0..4 cover all of them
    off = ctx.seed * max(n_codon, 1)
    plan += [codon[(off + i) % len(codon)] for i in range(n_codon)]
    off = ctx.seed * max(n_prot, 1)
    plan += [prot[(off + i) % len(prot)] for i in range(n_prot)]
    plan += [U.DINUC] * n_dinuc
    return plan


# --------------------------------------------------------------------------
# correspondence: Lean model vs implementation
# --------------------------------------------------------------------------
def _indexed_tie(ctx, out, rng):
    from cogent3.evolve.likelihood_tree import _indexed

    cases = []
    for n in range(0, 6):
        for keys in itertools.product(range(3), repeat=n):
            cases.append([[k] for k in keys])
    for _ in range(ctx.budget(300, 5000)):
        n = rng.randint(0, 30)
        w = rng.randint(1, 4)
        k = rng.randint(1, 4)
        cases.append([[rng.randrange(k) for _ in range(w)] for _ in range(n)])
    replies = ctx.driver.batch([("indexed", dict(values=c)) for c in cases])
    for c, r in zip(cases, replies):
        out["evaluations"] += 1
        u, cnt, idx = _indexed([tuple(x) for x in c])
        got = dict(uniq=[list(x) for x in u], counts=[int(x) for x in cnt], index=[int(x) for x in idx])
        if got != r:
            add_failure(out, "corr", "_indexed differs from model `indexed`", c, r, got, confirmed=False)
        bump(out, "indexed_len", min(len(c), 10))
        if len(got["uniq"]) < len(c) and len(got["uniq"]) > 1:
            out["nontrivial"].add(("indexed", str(c)))


def _wls_tie(ctx, out, rng):
    """the model's `weightedLogSum`/`lnLCompressed` and `fullLength` (the functions theorems compress_sum /
    full_length_expand / lnL_eq_definition talk about) against the REAL numba kernel get_log_sum_across_sites and
    get_full_length_likelihoods: per-key likelihood 2^-e (e = first component of the key, 0..3), so that log is exact up
    to the factor ln 2 and the model can run with the integer-valued g(key) = -e"""
    import types

    import numpy
    from cogent3.evolve.likelihood_tree import LikelihoodTreeEdge, _indexed

    cases = []
    for n in range(0, 5):
        for keys in itertools.product(range(3), repeat=n):
            cases.append([[k] for k in keys])
    for _ in range(ctx.budget(200, 4000)):
        n = rng.randint(0, 40)
        w = rng.randint(1, 3)
        k = rng.randint(1, 4)
        cases.append([[rng.randrange(k) for _ in range(w)] for _ in range(n)])
    replies = ctx.driver.batch([("wls", dict(values=c)) for c in cases])
    ln2 = math.log(2.0)
    for c, r in zip(cases, replies):
        out["evaluations"] += 1
        if "error" in r:
            add_failure(out, "corr", "driver error (wls)", c, "reply", r["error"], confirmed=False)
            continue
        u, cnt, idx = _indexed([tuple(x) for x in c])
        node = types.SimpleNamespace(counts=numpy.array(cnt, float), index=idx)
        lhs = numpy.array([2.0 ** -key[0] for key in u], float)
        real = float(LikelihoodTreeEdge.get_log_sum_across_sites(node, lhs)) / ln2
        full = [int(x) for x in LikelihoodTreeEdge.get_full_length_likelihoods(node, numpy.array([-key[0] for key in u], int))]
        bump(out, "wls_len", min(len(c), 10))
        if abs(real - r["wls"]) > 1e-9 * max(1.0, abs(r["wls"])) or r["wls"] != r["plain"]:
            add_failure(out, "corr", "get_log_sum_across_sites differs from model weightedLogSum", c, r["wls"], real, confirmed=False)
        if full != r["full"]:
            add_failure(out, "corr", "get_full_length_likelihoods differs from model fullLength", c, r["full"], full, confirmed=False)
        if len(u) < len(c) and len(u) > 1:
            out["nontrivial"].add(("wls", str(c)))


def correspondence(ctx):
    out = new_outcome(
        "shadow: likelihood functions of every named model (nucleotide always; codon/protein rotating with the seed in the "
        "quick tier, all in thorough; a dinucleotide model), random rose trees 3-7 tips with polytomies/unary nodes, "
        "alignments with IUPAC ambiguity and gaps, random in-bounds parameters, per-edge scopes, 1-4 rate bins; the model "
        "`prune` on the implementation's own float64 inputs and leaf arrays vs get_full_length_likelihoods / lnL / root "
        "index+counts; plus `_indexed` exhaustively on short key lists and randomly; plus the model's weightedLogSum / fullLength "
        "vs the real numba get_log_sum_across_sites / get_full_length_likelihoods on power-of-two likelihoods; `lnLLoci` vs the real "
        "SumDefn.calc over per-locus numba log-sums; `siteHmm` on the real per-bin likelihood arrays, root index and bin probabilities of "
        "sites_independent=False likelihood functions (2-4 bins) vs lf.lnL and the PatchSiteDistribution attributes; non-trivial = problems with >= 2 "
        "unique columns (and _indexed inputs with a repeated key and >= 2 distinct keys; HMM problems with >= 2 sites)"
    )
    rng = ctx.subrng("corr")
    U.BIG_BINS = ctx.thorough
    _indexed_tie(ctx, out, rng)
    _wls_tie(ctx, out, rng)
    if ctx.thorough:
        plan = _model_plan(ctx, rng, 800, 100, 40, 20)
    else:
        plan = _model_plan(ctx, rng, 40, 2, 2, 1)
    specs = []
    for name in plan:
        specs.append(U.rand_problem(rng, name, unary=rng.random() < 0.15))
    evaluate(ctx, specs, rng, "impl", 0, out, "corr")
    # second part: SumDefn over loci, site-class HMM (Model/PruneSites.lean)
    S.correspondence(ctx, out, ctx.subrng("sites-corr"))
    return out


# --------------------------------------------------------------------------
# spec-level differential and failing-input search
# --------------------------------------------------------------------------
def _all_columns_problem(rng, name, ntips):
    kind = U.kind_of(name)
    sm = U.get_sm(name)
    motifs = [str(m) for m in sm.get_alphabet()]
    tree = U.rand_tree(rng, ntips)
    tips = U.tree_tips(tree)
    cols = list(itertools.product(motifs, repeat=ntips))
    rng.shuffle(cols)
    seqs = {t: "".join(c[i] for c in cols) for i, t in enumerate(tips)}
    spec = dict(model=name, kind=kind, newick=U.newick(tree), tree=tree, seqs=seqs,
                moltype="protein" if kind == "protein" else "dna", new_type=bool(rng.random() < 0.5),
                mprobs=U.rand_mprobs(rng, motifs), rules=[], bins=1, model_kw={}, scoped=bool(rng.random() < 0.5),
                seed=rng.randrange(1 << 30), all_columns=True)
    if name not in U.DISCRETE and rng.random() < 0.4:
        spec["bins"] = rng.choice([2, 3])
        spec["model_kw"] = dict(ordered_param="rate", distribution="gamma")
    return spec


def _check_sum_one(spec, rng, out):
    import numpy

    lf = U.build_lf(spec, rng)
    fl = numpy.array(lf.get_full_length_likelihoods(), dtype=float)
    total = math.fsum(float(x) for x in fl)
    out["evaluations"] += 1
    bump(out, "sum_one_columns", len(fl))
    ok = abs(total - 1.0) <= 1e-9
    if not ok:
        add_failure(out, "spec", "per-column likelihoods over all possible columns do not sum to one",
                    dict(_slim(spec), check="sum1"), 1.0, total,
                    sig=f"sum1:{spec['kind']}:bins={'y' if spec['bins'] > 1 else 'n'}")
    else:
        out["nontrivial"].add((spec["model"], spec["newick"], "sum1"))
    return lf


def _check_expm(lf, spec, out):
    """P of every edge equals scipy's exp(Q t) of the implementation's own uncalibrated rate matrix"""
    import numpy
    from scipy.linalg import expm

    if spec["model"] in U.DISCRETE:
        return
    bins = list(lf.bin_names) if lf.bin_names and len(lf.bin_names) > 1 else [None]
    for e in U.tree_edges(spec["tree"]):
        for b in bins:
            kw = {} if b is None else {"bin": b}
            try:
                Q = numpy.array(lf.get_rate_matrix_for_edge(e, calibrated=True, **kw).array, dtype=float)
                t = float(lf.get_param_value("length", edge=e))
                r = 1.0 if b is None else float(lf.get_param_value("rate", bin=b))
            except Exception as ex:  # pragma: no cover
                bump(out, "expm_skipped", type(ex).__name__)
                return
            P = numpy.array(lf.get_psub_for_edge(e, **kw).array, dtype=float)
            want = expm(Q * (t * r))
            out["evaluations"] += 1
            bump(out, "expm_checked")
            err = float(numpy.abs(P - want).max())
            rows = float(numpy.abs(Q.sum(axis=1)).max())
            if err > 1e-8 or rows > 1e-9:
                add_failure(out, "spec", "edge P differs from exp(Q t) of the edge's rate matrix",
                            dict(_slim(spec), check="expm", edge=e, bin=b), 0.0, dict(max_abs_err=err, row_sum=rows),
                            sig=f"expm:{spec['kind']}:{spec['model']}:bins={'y' if b else 'n'}")
                return



# --------------------------------------------------------------------------
# independent rate matrices ("computed independently from the model's published definition")
# --------------------------------------------------------------------------
TRANSITIONS = {frozenset("AG"), frozenset("CT")}
INDEP_Q_MODELS = {"GY94": ("hky", "tuple"), "Y98": ("hky", "tuple"), "MG94HKY": ("hky", "monomer"), "MG94GTR": ("gtr", "monomer")}


def _indep_codon_Q(name, gc, motifs, par, pi_word, pi_mono):
    """Goldman-Yang / Muse-Gaut rate matrix from the papers' definition: only single-nucleotide changes are
    instantaneous; rate = (kappa for transitions | GTR term of the nucleotide pair) x (omega if the amino acid
    changes under NCBI table `gc`) x (frequency of the target codon [GY] | of the target nucleotide [MG]);
    rows sum to zero; calibrated to one expected substitution per unit time"""
    import numpy

    fam, weight = INDEP_Q_MODELS[name]
    m = len(motifs)
    Q = numpy.zeros((m, m))
    for i, x in enumerate(motifs):
        for j, y in enumerate(motifs):
            diff = [k for k in range(3) if x[k] != y[k]]
            if len(diff) != 1:
                continue
            a, b = x[diff[0]], y[diff[0]]
            if fam == "hky":
                r = par["kappa"] if frozenset((a, b)) in TRANSITIONS else 1.0
            else:
                r = par.get("/".join(sorted((a, b))), 1.0)  # G/T is the reference term
            if U.translate(gc, x) != U.translate(gc, y):
                r *= par["omega"]
            r *= pi_word[j] if weight == "tuple" else pi_mono[b]
            Q[i, j] = r
    Q -= numpy.diag(Q.sum(axis=1))
    Q /= -(pi_word * numpy.diag(Q)).sum()
    return Q


def _lnl_from_P(ctx, ex, Ps):
    """first-principles lnL (exact pruning in the Lean model) with the given edge matrices"""
    ex2 = dict(ex, bins=[dict(P=Ps, pi=ex["bins"][0]["pi"])], bprobs=[1.0])
    (res,) = ctx.driver.batch([U.lean_request(ex2, [])])
    if "error" in res:
        raise RuntimeError(res["error"])
    lhs = [unrat(x) for x in res["lh"]]
    return sum(k * U.log_fraction(l) for k, l in zip(res["counts"], lhs))


def _check_indep_codon(ctx, lf, spec, out):
    """lnL against P = scipy expm(Q t) with Q built here from the published definition, for the codon models
    whose definition is reproduced above, under the genetic code the model was asked for"""
    import numpy
    from scipy.linalg import expm

    name = spec["model"]
    if name not in INDEP_Q_MODELS or spec.get("bins", 1) > 1:
        return
    gc = spec.get("model_kw", {}).get("gc") or 1
    ex = U.extract(lf, spec, profiles="oracle")
    motifs = ex["motifs"]
    pi_word = numpy.array(ex["bins"][0]["pi"], dtype=float)
    mp = lf.get_motif_probs()
    pi_mono = {str(k): float(v) for k, v in mp.to_dict().items()} if INDEP_Q_MODELS[name][1] == "monomer" else None
    pnames = [p for p in lf.get_param_names() if p not in ("mprobs", "length")]
    Ps = []
    for e in ex["edges"]:
        par = {p: float(lf.get_param_value(p, edge=e)) for p in pnames}
        Q = _indep_codon_Q(name, gc, motifs, par, pi_word, pi_mono)
        t = float(lf.get_param_value("length", edge=e))
        Ps.append(expm(Q * t))
    want = _lnl_from_P(ctx, ex, Ps)
    got = float(lf.lnL)
    out["evaluations"] += 1
    bump(out, "indep_codon_Q", f"{name}:gc={gc}")
    # scipy's Pade and the implementation's eigen exponential agree to ~1e-13 absolutely; a column whose likelihood is of
    # that order (e.g. it needs a path through codons of frequency zero) has no numerically meaningful log
    fl = [float(x) for x in lf.get_full_length_likelihoods()]
    if any(not x > 1e-200 for x in fl):
        bump(out, "indep_codon_Q_ill_conditioned")
        return
    slack = sum(1e-12 / x for x in fl)
    if not (abs(got - want) <= 1e-7 * abs(want) + 1e-10 + slack):
        add_failure(out, "spec", "lnL differs from the value computed from an independently built codon rate matrix",
                    dict(_slim(spec), check="indepQ"), want, got, sig=f"indepQ:{name}:gc={'std' if gc in (1, 11) else 'nonstd'}")
    else:
        out["nontrivial"].add((name, gc, spec["seed"], "indepQ"))


def _check_omega_structure(lf, spec, out):
    """every codon model, any motif-prob model: changing omega alone must rescale exactly the entries of Q whose
    amino acid changes under the REQUESTED genetic code (independent NCBI tables), up to the common calibration factor"""
    import numpy

    if "omega" not in lf.get_param_names():
        return
    gc = spec.get("model_kw", {}).get("gc") or 1
    motifs = [str(m) for m in lf._motifs]
    e = U.tree_edges(spec["tree"])[0]
    saved = [r for r in spec["rules"] if r["par_name"] == "omega"]
    try:
        lf.set_param_rule("omega", init=1.0)
        Q1 = numpy.array(lf.get_rate_matrix_for_edge(e, calibrated=True).array, dtype=float)
        w = 0.25
        lf.set_param_rule("omega", init=w)
        Qw = numpy.array(lf.get_rate_matrix_for_edge(e, calibrated=True).array, dtype=float)
    finally:
        U.apply_rules(lf, saved or [dict(par_name="omega", init=1.0)])
    syn, non = [], []
    for i, x in enumerate(motifs):
        for j, y in enumerate(motifs):
            if i != j and Q1[i, j] > 0:
                (syn if U.translate(gc, x) == U.translate(gc, y) else non).append((Qw[i, j] / Q1[i, j], x, y))
    out["evaluations"] += 1
    bump(out, "omega_structure", f"{spec['model']}:gc={gc}")
    if not syn or not non:
        return
    c = sorted(r for r, _, _ in syn)[len(syn) // 2]
    bad = [(x, y, "synonymous") for r, x, y in syn if abs(r - c) > 1e-9 * c] + \
          [(x, y, "replacement") for r, x, y in non if abs(r - c * w) > 1e-9 * c]
    if bad:
        add_failure(out, "spec", "omega does not scale exactly the replacement changes of the requested genetic code",
                    dict(_slim(spec), check="omega", pairs=bad[:6]), f"{len(syn)} synonymous / {len(non)} replacement pairs per NCBI table {gc}",
                    f"{len(bad)} pairs scaled as the other class, e.g. {bad[0]}",
                    sig=f"omega-structure:{spec['model']}:gc={'std' if gc in (1, 11) else 'nonstd'}")
    else:
        out["nontrivial"].add((spec["model"], gc, "omega-structure"))


# adversarial in-bounds settings for the matrix exponential: ties make Q defective or nearly so
TIE_VALUES = [1.0, 1.0, 3.0, 3.0, 0.5, 2.0, 1e-3, 1e3]


def _adversarial_expm(ctx, rng, out, n):
    """default expm ('either') under tied / equal / extreme in-bounds rate terms: P rows sum to one, P equals scipy
    expm(Q t) of the model's own Q to 1e-8 and lnL equals the first-principles value computed from that P"""
    import numpy
    from scipy.linalg import expm

    kinds = U.model_kinds()
    nuc = [m for m, k in kinds.items() if k == "nucleotide" and m not in U.DISCRETE]
    fixed = [("GN", {"A>G": 3.0, "C>T": 3.0, "T>A": 3.0}), ("GN", {}), ("ssGN", {}), ("GTR", {})]
    for i in range(n):
        if i < len(fixed):
            name, forced = fixed[i]
        else:
            name, forced = rng.choice(["GN", "GN", "ssGN", "GTR", "TN93", "HKY85"] + nuc), None
        spec = U.rand_problem(rng, name, ntips=3, ncols=6, bins=1, scoped=False)
        spec["mprobs"] = spec["mprobs"] or U.rand_mprobs(rng, [str(m) for m in U.get_sm(name).get_alphabet()])
        try:
            lf = U.build_lf(spec, None)
            pnames = [p for p in lf.get_param_names() if p not in ("mprobs", "length")]
            if forced is not None:
                rules = [dict(par_name=p, init=forced.get(p, 1.0)) for p in pnames]
            else:
                pool = rng.choice([TIE_VALUES, [1.0, 3.0], [2.0], [1e-6, 1.0, 1e6], [0.5, 0.5, 2.0]])
                rules = [dict(par_name=p, init=rng.choice(pool)) for p in pnames]
            spec["rules"] = rules
            U.apply_rules(lf, rules)
            got = float(lf.lnL)
            ex = U.extract(lf, spec, profiles="oracle")
            Ps, worst, rows = [], 0.0, 0.0
            for e in ex["edges"]:
                Q = numpy.array(lf.get_rate_matrix_for_edge(e, calibrated=True).array, dtype=float)
                t = float(lf.get_param_value("length", edge=e))
                P = numpy.array(lf.get_psub_for_edge(e).array, dtype=float)
                W = expm(Q * t)
                Ps.append(W)
                worst = max(worst, float(numpy.abs(P - W).max()))
                rows = max(rows, float(numpy.abs(P.sum(axis=1) - 1).max()))
            want = _lnl_from_P(ctx, ex, Ps)
        except Exception as e:
            add_failure(out, "spec", "likelihood function with tied/extreme in-bounds rate terms raised", _slim(spec), "a likelihood",
                        f"{type(e).__name__}: {e}", sig=f"adversarial-raised:{name}:{type(e).__name__}")
            continue
        out["evaluations"] += 1
        bump(out, "adversarial_expm", name)
        # extreme terms (1e-6 / 1e6) give P entries ~1e-10: a column likelihood of that order carries the 1e-16 absolute
        # difference between the two exponentials as a relative error; allow for it (P itself is compared at 1e-8)
        fl = [float(x) for x in lf.get_full_length_likelihoods()]
        slack = sum(1e-12 / x for x in fl) if all(x > 1e-200 for x in fl) else float("inf")
        if worst > 1e-8 or rows > 1e-9 or not (abs(got - want) <= 1e-7 * abs(want) + 1e-10 + slack):
            add_failure(out, "spec", "P / lnL differ from scipy expm(Q t) of the model's own Q under tied or extreme in-bounds rate terms",
                        dict(_slim(spec), check="adversarial"), dict(lnL=want, max_abs_P_err="<=1e-8", row_sum_err="<=1e-9"),
                        dict(lnL=got, max_abs_P_err=worst, row_sum_err=rows), sig=f"adversarial-expm:{name}")
        else:
            out["nontrivial"].add((name, str(rules), "adversarial"))


# --------------------------------------------------------------------------
# "specified vs applied": parameter scopes resolved by the harness's own tree walk
# --------------------------------------------------------------------------
INDEP_NUC = ("HKY85", "TN93", "GTR")


def _indep_nuc_Q(name, motifs, par, pi):
    """HKY85 / TN93 / GTR rate matrix from the papers' definition: rate(i->j) = exchangeability x pi_j, rows sum to
    zero, calibrated to one expected substitution per unit time"""
    import numpy

    m = len(motifs)
    Q = numpy.zeros((m, m))
    for i, a in enumerate(motifs):
        for j, b in enumerate(motifs):
            if i == j:
                continue
            pair = frozenset((a, b))
            if name == "HKY85":
                r = par["kappa"] if pair in TRANSITIONS else 1.0
            elif name == "TN93":
                r = par["kappa_y"] if pair == frozenset("CT") else par["kappa_r"] if pair == frozenset("AG") else 1.0
            else:
                r = par.get("/".join(sorted((a, b))), 1.0)
            Q[i, j] = r * pi[j]
    Q -= numpy.diag(Q.sum(axis=1))
    Q /= -(pi * numpy.diag(Q)).sum()
    return Q


def scope_edges(tree, rule):
    """the edges a scope names, by the harness's own walk over the tree as an UNDIRECTED graph.
    edge= / edges= name edges directly (an edge is named after its lower node in the stored rooting);
    tip_names=(a, b): the tree is viewed from `outgroup_name` (from the stored root if none); M = the last common node of
    the paths to a and b; clade = every edge on the far side of M, stem = the edge joining M to the side of the outgroup.
    Returns None when the request is ill-formed (no edges, or a stem asked of the viewing root)."""
    if rule.get("edges") is not None:
        return list(rule["edges"])
    if rule.get("edge") is not None:
        return [rule["edge"]]
    if not rule.get("tip_names"):
        return U.tree_edges(tree)
    a, b = rule["tip_names"]
    stem = bool(rule.get("stem")) if rule.get("stem") is not None else False
    clade = rule["clade"] if rule.get("clade") is not None else not stem
    # undirected adjacency: node -> [(neighbour, edge name)]
    adj = {}

    def walk(n):
        adj.setdefault(n["name"], [])
        for c in n["children"]:
            adj.setdefault(c["name"], [])
            adj[n["name"]].append((c["name"], c["name"]))
            adj[c["name"]].append((n["name"], c["name"]))
            walk(c)

    walk(tree)
    top = rule.get("outgroup_name") or "root"
    parent = {top: (None, None)}
    order = [top]
    for x in order:
        for y, e in adj[x]:
            if y not in parent:
                parent[y] = (x, e)
                order.append(y)

    def path(x):
        out = [x]
        while parent[out[-1]][0] is not None:
            out.append(parent[out[-1]][0])
        return out[::-1]

    pa, pb = path(a), path(b)
    k = 0
    while k < min(len(pa), len(pb)) and pa[k] == pb[k]:
        k += 1
    mrca = pa[k - 1]
    names = []
    if stem:
        if parent[mrca][0] is None:
            return None
        names.append(parent[mrca][1])
    if clade:
        below = [mrca]
        for x in below:
            for y, e in adj[x]:
                if parent.get(y, (None,))[0] == x:
                    names.append(e)
                    below.append(y)
    return names or None


def _rand_scope(rng, tree):
    tips = U.tree_tips(tree)
    edges = U.tree_edges(tree)
    r = rng.random()
    if r < 0.15:
        return dict(edge=rng.choice(edges))
    if r < 0.3:
        return dict(edges=sorted(rng.sample(edges, rng.randint(1, len(edges) - 1))))
    a, b = rng.sample(tips, 2)
    rule = dict(tip_names=[a, b])
    if rng.random() < 0.75:
        rule["outgroup_name"] = rng.choice([t for t in tips if t not in (a, b)])
    form = rng.choice(["default", "clade", "stem", "both", "stem-only-explicit"])
    if form == "clade":
        rule["clade"] = True
    elif form == "stem":
        rule["stem"] = True
    elif form == "both":
        rule["clade"], rule["stem"] = True, True
    elif form == "stem-only-explicit":
        rule["clade"], rule["stem"] = False, True
    return rule


def _scope_problems(ctx, rng, out, n):
    """the parameter value every edge must carry is derived here from the scopes the test ASKS for; Q, P = scipy
    expm(Qt) and lnL (exact pruning) follow from that assignment and are compared with lf.lnL and the values read back"""
    import numpy
    from scipy.linalg import expm

    for i in range(n):
        name = INDEP_NUC[(i + ctx.seed) % len(INDEP_NUC)]
        spec = U.rand_problem(rng, name, ntips=rng.randint(4, 7), ncols=rng.randint(6, 14), bins=1, scoped=False, zero_ok=False,
                              root_deg=rng.choice([2, 3, 3]))
        spec["mprobs"] = spec["mprobs"] or U.rand_mprobs(rng, [str(m) for m in U.get_sm(name).get_alphabet()])
        tree = spec["tree"]
        pnames = {"HKY85": ["kappa"], "TN93": ["kappa_y", "kappa_r"], "GTR": ["A/C", "A/G", "A/T", "C/G", "C/T"]}[name]
        rules, expect = [], {}
        for p in pnames:
            v = round(math.exp(rng.uniform(math.log(0.2), math.log(6.0))), 5)
            rules.append(dict(par_name=p, init=v))
            expect[p] = {e: v for e in U.tree_edges(tree)}
        for _ in range(rng.randint(1, 3)):
            p = rng.choice(pnames)
            scope = _rand_scope(rng, tree)
            es = scope_edges(tree, scope)
            if es is None:
                continue
            v = round(math.exp(rng.uniform(math.log(0.2), math.log(6.0))), 5)
            rule = dict(par_name=p, init=v, **scope)
            if rng.random() < 0.4:
                rule["is_independent"] = bool(rng.random() < 0.5)
            rules.append(rule)
            for e in es:
                expect[p][e] = v
            bump(out, "scope_form", "+".join(sorted(k for k in scope)) + ("" if "tip_names" not in scope else f":clade={scope.get('clade')}:stem={scope.get('stem')}"))
        spec["rules"] = rules
        spec["scoped"] = True
        _check_scope(ctx, spec, expect, out)


def _check_scope(ctx, spec, expect, out):
    import numpy
    from scipy.linalg import expm

    name = spec["model"]
    if expect is None:
        expect = {}
        for r in spec["rules"]:
            es = scope_edges(spec["tree"], r)
            for e in es or []:
                expect.setdefault(r["par_name"], {})[e] = r["init"]
    try:
        lf = U.build_lf(spec, None)
        got = float(lf.lnL)
        ex = U.extract(lf, spec, profiles="oracle")
    except Exception as e:
        add_failure(out, "spec", "a well-formed parameter scope was refused", dict(_slim(spec), check="scope"), "a likelihood function",
                    f"{type(e).__name__}: {e}", sig=f"scope-raised:{type(e).__name__}")
        return
    pi = numpy.array(ex["bins"][0]["pi"], dtype=float)
    Ps, wrong = [], []
    for e in ex["edges"]:
        par = {p: expect[p][e] for p in expect}
        for p in par:
            back = float(lf.get_param_value(p, edge=e))
            if back != par[p]:
                wrong.append((p, e, par[p], back))
        t = float(lf.get_param_value("length", edge=e))
        Ps.append(expm(_indep_nuc_Q(name, ex["motifs"], par, pi) * t))
    want = _lnl_from_P(ctx, ex, Ps)
    out["evaluations"] += 1
    bump(out, "scope_problems", name)
    fl = [float(x) for x in lf.get_full_length_likelihoods()]
    slack = sum(1e-12 / x for x in fl) if all(x > 1e-200 for x in fl) else float("inf")
    if wrong or not (abs(got - want) <= 1e-7 * abs(want) + 1e-10 + slack):
        add_failure(out, "spec", "lnL differs from the value computed with the parameter assignment the scopes specify",
                    dict(_slim(spec), check="scope"), dict(lnL=want), dict(lnL=got, edges_with_other_value=wrong[:6]),
                    sig=f"scope:{'tip_names' if any('tip_names' in r for r in spec['rules']) else 'edges'}:"
                        f"{'outgroup' if any(r.get('outgroup_name') for r in spec['rules']) else 'stored-root'}")
    else:
        out["nontrivial"].add((name, spec["seed"], "scope"))


# --------------------------------------------------------------------------
# size-scaling stream: LARGE problems, where index / count / dtype widths of the compressed likelihood tree matter
# (more than 2^15 and more than 2^16 distinct site patterns below one child of an internal node; pattern counts
# above 2^16).  Oracle: plain float64 pruning vectorised over ALL columns, no compression, on the implementation's
# own psubs / root probabilities / bin probabilities; leaf profiles from the harness's IUPAC table.
# Theorems compress_sum / full_length_expand / compressed_prune_eq hold for lists of ANY length; this stream ties them
# to the implementation at sizes where a fixed-width index would wrap.
# --------------------------------------------------------------------------
LARGE_SYMBOLS = "RYN-?"


def _np_prune(tree_json, Ps, pi, prof):
    """plain float64 pruning vectorised over columns: prof[tip] is an (ncols, m) 0/1 array"""
    import numpy

    def go(t):
        if "l" in t:
            v = prof[t["l"]]
        else:
            v = None
            for c in t["c"]:
                u = go(c)
                v = u if v is None else v * u
        return v if t["e"] < 0 else v @ numpy.asarray(Ps[t["e"]]).T

    return go(tree_json) @ numpy.asarray(pi)


def _large_tree(rng, ntips, kbig, shape):
    """a tree with one clade `big` of kbig tips (so the index array some parent keeps for that child ranges over
    the clade's distinct site patterns); the other tips hang above it.  shape of the clade: caterpillar / one
    polytomy / random rose tree"""
    def ln():
        return round(rng.uniform(0.05, 0.6), 4)

    tips = [dict(name=f"s{i}", len=ln(), children=[]) for i in range(ntips)]
    rng.shuffle(tips)
    inner, outer = tips[:kbig], tips[kbig:]
    k = [0]

    def node(children):
        k[0] += 1
        return dict(name=f"c{k[0]}", len=round(rng.uniform(0.05, 0.3), 4), children=children)

    if shape == "caterpillar":
        big = node([inner[0], inner[1]])
        for t in inner[2:]:
            big = node([big, t] if rng.random() < 0.5 else [t, big])
    elif shape == "polytomy":
        big = node(inner)
    else:
        nodes = list(inner)
        while len(nodes) > 1:
            g = min(rng.choice([2, 2, 3, 4]), len(nodes))
            grp = [nodes.pop(rng.randrange(len(nodes))) for _ in range(g)]
            nodes.append(node(grp))
        big = nodes[0]
    big["name"] = "big"
    top = big
    # the remaining tips: either all at the root next to the clade, or stacked above it
    if len(outer) >= 2 and rng.random() < 0.5:
        for t in outer[:-1]:
            top = node([top, t] if rng.random() < 0.5 else [t, top])
        outer = outer[-1:]
    ch = [top] + outer
    rng.shuffle(ch)
    return dict(name="root", len=None, children=ch)


def _rand_large(rng, target):
    """description of one large problem (everything needed to rebuild it; the columns are regenerated from np_seed).
    target 15 / 16: more than 2^15 / 2^16 distinct patterns in a clade; 'counts': few patterns, counts above 2^16"""
    kinds = U.model_kinds()
    nuc = [m for m, k in kinds.items() if k == "nucleotide" and m not in U.DISCRETE]
    name = rng.choice(nuc)
    if target == "counts":
        ntips = rng.randint(3, 5)
        tree = U.rand_tree(rng, ntips, root_deg=rng.choice([2, 3]), zero_ok=False)

        def relen(n):
            for c in n["children"]:
                c["len"] = round(rng.uniform(0.05, 0.6), 4)
                relen(c)

        relen(tree)
        ncols = rng.choice([120000, 150000, 200000])
        const_frac = rng.choice([0.6, 0.75, 0.9])
    else:
        # distinct patterns among n random columns over N = 4^k possibilities: N (1 - exp(-n / N))
        if target == 15:
            ntips, ncols = rng.choice([10, 11]), rng.choice([42000, 50000, 60000])
            kbig = rng.randint(9, ntips - 1)
        else:
            ntips, ncols = rng.choice([11, 12]), rng.choice([76000, 84000, 90000])
            kbig = rng.randint(10, ntips - 1)
        tree = _large_tree(rng, ntips, kbig, rng.choice(["caterpillar", "polytomy", "rose"]))
        const_frac = 0.0
    motifs = [str(m) for m in U.get_sm(name).get_alphabet()]
    bins = rng.choice([1, 1, 2])
    return dict(model=name, target=target, ntips=ntips, ncols=ncols, tree=tree, mprobs=U.rand_mprobs(rng, motifs),
                np_seed=rng.randrange(1 << 30), new_type=bool(rng.random() < 0.5), sub_seed=rng.randrange(1 << 30),
                bins=bins, model_kw=dict(ordered_param="rate", distribution="gamma") if bins > 1 else {},
                ambig=rng.choice([0.0, 0.0, 0.01]), const_frac=const_frac, rules=None, rules_seed=rng.randrange(1 << 30))


def _large_columns(fixed, tips):
    """(symbols, codes[ntips, ncols]) of the problem, from numpy's generator seeded by np_seed"""
    import numpy

    motifs = [str(m) for m in U.get_sm(fixed["model"]).get_alphabet()]
    symbols = motifs + list(LARGE_SYMBOLS)
    g = numpy.random.default_rng(fixed["np_seed"])
    ntips, ncols = len(tips), fixed["ncols"]
    codes = g.integers(0, 4, size=(ntips, ncols))
    if fixed["const_frac"] > 0:
        # a few patterns carry almost all the weight: constant columns of one state
        const = g.random(ncols) < fixed["const_frac"]
        codes[:, const] = g.integers(0, 4)
    if fixed["ambig"] > 0:
        hit = g.random((ntips, ncols)) < fixed["ambig"]
        codes[hit] = g.integers(4, len(symbols), size=int(hit.sum()))
    return symbols, codes


def _large_problem(ctx, rng, out, fixed=None, target=15):
    import random as _random

    import numpy

    if fixed is None:
        fixed = _rand_large(rng, target)
    name, tree = fixed["model"], fixed["tree"]
    tipnames = sorted(U.tree_tips(tree))
    symbols, codes = _large_columns(fixed, tipnames)
    symarr = numpy.array(symbols)
    seqs = {t: "".join(symarr[codes[i]]) for i, t in enumerate(tipnames)}
    spec = dict(model=name, kind="nucleotide", newick=U.newick(tree), tree=tree, seqs=seqs, moltype="dna", new_type=fixed["new_type"],
                mprobs=fixed["mprobs"], rules=fixed["rules"] or [], bins=fixed["bins"], model_kw=fixed["model_kw"], scoped=False,
                seed=fixed["np_seed"])
    try:
        lf = U.build_lf(spec, _random.Random(fixed["rules_seed"]) if fixed["rules"] is None else None)
        got = float(lf.lnL)
        fl = numpy.array(lf.get_full_length_likelihoods(), dtype=float)
    except Exception as e:
        add_failure(out, "spec", "large alignment: likelihood function construction / evaluation raised",
                    dict(fixed, kind="nucleotide", check="large"), "a likelihood",
                    f"{type(e).__name__}: {e}", sig=f"large-raised:{type(e).__name__}")
        return
    fixed = dict(fixed, rules=spec["rules"])
    inp = dict(fixed, kind="nucleotide", newick=spec["newick"], check="large",
               note="sequences: harness.c02._large_columns(input, sorted tip names) - numpy.random.default_rng(np_seed); "
                    "replay with ./check C02 --replay <this file>")
    small = dict(spec, seqs={k: v[:4] for k, v in seqs.items()})
    ex = U.extract(lf, small, profiles="oracle")  # tree, edges, P, pi, bprobs (the columns are handled here)
    motifs = ex["motifs"]
    table = numpy.array([[1.0 if m in U.IUPAC_DNA[s] else 0.0 for m in motifs] for s in symbols])
    row = {t: i for i, t in enumerate(tipnames)}
    prof = {k: table[codes[row[t]]] for k, t in enumerate(ex["tips"])}
    lhs = sum(float(w) * _np_prune(ex["tree"], b["P"], b["pi"], prof) for w, b in zip(ex["bprobs"], ex["bins"]))
    want = float(numpy.log(lhs).sum())
    # size of the problem, measured by the harness on its own columns: distinct patterns below every internal node
    def patterns(n):
        if not n["children"]:
            return [row[n["name"]]], 0
        rows, best = [], 0
        for c in n["children"]:
            r, b = patterns(c)
            rows += r
            best = max(best, b, len(numpy.unique(codes[r], axis=1).T) if len(r) > 1 else 0)
        return rows, best
    _, npat = patterns(tree)
    _, cnts = numpy.unique(codes, axis=1, return_counts=True)
    out["evaluations"] += 1
    bump(out, "large_problem", f"{fixed['target']}:{fixed['ntips']}x{fixed['ncols']}:bins={fixed['bins']}:ambig={'y' if fixed['ambig'] else 'n'}")
    bump(out, "large_child_patterns_log2", int(math.log2(max(npat, 1))))
    bump(out, "large_max_count_log2", int(math.log2(int(cnts.max()))))
    bad = numpy.flatnonzero(~numpy.isclose(fl, lhs, rtol=1e-9, atol=0)) if len(fl) == len(lhs) else numpy.array([0])
    if len(bad) or not (abs(got - want) <= 1e-9 * abs(want)):
        add_failure(out, "spec", "large alignment: lnL / per-column likelihoods differ from plain float64 pruning over all columns",
                    inp, dict(lnL=want, columns=int(len(lhs)), max_child_patterns=int(npat), max_count=int(cnts.max())),
                    dict(lnL=got, columns=int(len(fl)), first_bad_column=int(bad[0]) if len(bad) else None, n_bad=int(len(bad))),
                    sig=f"large:{'patterns' if fixed['target'] != 'counts' else 'counts'}")
    else:
        out["nontrivial"].add((name, fixed["ntips"], fixed["ncols"], fixed["np_seed"], "large"))
    # a subsample of columns against the exact Lean model
    srng = _random.Random(fixed["sub_seed"])
    sub = sorted(srng.sample(range(fixed["ncols"]), 150))
    subspec = dict(spec, seqs={k: "".join(v[j] for j in sub) for k, v in seqs.items()})
    ex2 = U.extract(lf, subspec, profiles="oracle")
    (res,) = ctx.driver.batch([U.lean_request(ex2, [])])
    if "error" in res:
        add_failure(out, "corr", "driver error (large)", inp, "reply", res["error"], confirmed=False)
        return
    lh = [unrat(x) for x in res["lh"]]
    for k, j in enumerate(sub):
        out["evaluations"] += 1
        if not U.close(float(fl[j]), lh[res["index"][k]], REL_LH):
            add_failure(out, "spec", "large alignment: per-column likelihood differs from the exact sum-product", dict(inp, column=j),
                        float(lh[res["index"][k]]), float(fl[j]), sig="large:column")
            break


def spec_check(ctx, budget):
    out = new_outcome(
        "real likelihood functions vs the Lean spec `bruteForce` (sum over all labelings; leaf profiles from the harness's "
        "own IUPAC tables, so ambiguity/gap resolution is checked too) on up to 4 unique columns per problem with <= 20000 "
        "labelings (codon/protein: 3-4 tip trees); lnL vs sum of log brute-force values when every unique column was "
        "brute-forced; sum over all m^k columns == 1 on 3-4 tip nucleotide (2-tip protein/dinucleotide in thorough) problems; "
        "P == scipy expm(Q t); multi-locus likelihood functions (2-4 loci, per-locus parameters) vs the sum over loci and all columns; "
        "site-class HMM likelihood functions vs the sum over ALL bin paths (harness's own exact evaluation of the definition) and vs "
        "the sites_independent=True value at bin_switch=1; size scaling: 10-12 taxa x 42k-90k random columns (> 2^15 and > 2^16 "
        "patterns below one child) and 120k-200k columns with pattern counts > 2^16 vs plain vectorised float64 pruning over all "
        "columns; constructor option grid: di-/tri-nucleotide and codon models built from the classes with every mprob_model "
        "(monomer / monomers / conditional / tuple) x complete alphabets and alphabets with excluded words: all possible columns sum to "
        "one, root probabilities and P rows sum to one, lnL vs exact pruning with Q and root distribution built by the harness from the "
        "definition of the motif-probability model; histories on one function object (plain / bins / HMM / multi-locus): ~35 read-only "
        "calls, half of them with a bad scope so that they raise, lnL and full-length likelihoods unchanged after each, equal to a fresh "
        "function from get_param_rules(); successful ancestral reconstructions vs the restricted sum-product; "
        "non-trivial = problems with >= 2 unique columns"
    )
    rng = ctx.subrng(f"spec{budget}")
    U.BIG_BINS = ctx.thorough
    kinds = U.model_kinds()
    nuc = [m for m, k in kinds.items() if k == "nucleotide"]
    codon = [m for m, k in kinds.items() if k == "codon"]
    prot = [m for m, k in kinds.items() if k == "protein"]
    specs = []
    for i in range(25 * budget):
        specs.append(U.rand_problem(rng, nuc[(i + ctx.seed) % len(nuc)], ntips=rng.randint(3, 6), unary=rng.random() < 0.15))
    n_big = max(1, budget // 2)
    indep = sorted(INDEP_Q_MODELS)
    for i in range(n_big):
        # one codon model with a reproduced definition and one arbitrary codon model, each under a random NCBI table
        for j in range(2):
            sp = U.rand_problem(rng, indep[(2 * (ctx.seed * n_big + i + budget) + j) % len(indep)], ntips=rng.choice([3, 3, 4]),
                                ncols=rng.randint(4, 7), gc=rng.choice([2, 2, 4, 5, 3, 6, 1]), bins=1)
            # all codon frequencies positive: with frequencies estimated from a 5-column alignment most codons have
            # frequency zero and multi-step changes have likelihood exactly zero (lnL is then rounding noise)
            sp["mprobs"] = sp["mprobs"] or U.rand_mprobs(rng, [str(m) for m in U.get_sm(sp["model"], gc=sp["model_kw"]["gc"]).get_alphabet()])
            specs.append(sp)
        specs.append(U.rand_problem(rng, codon[(ctx.seed * n_big + i + budget) % len(codon)], ntips=rng.choice([3, 3, 4]), ncols=rng.randint(3, 6),
                                    gc=rng.choice([1, 2, 4, 5, 11])))
        specs.append(U.rand_problem(rng, prot[(ctx.seed * n_big + i + budget) % len(prot)], ntips=rng.choice([3, 4]), ncols=rng.randint(3, 8)))
        specs.append(U.rand_problem(rng, U.DINUC, ntips=rng.choice([3, 4]), ncols=rng.randint(3, 8)))
    evaluate(ctx, specs, rng, "oracle", 4, out, "spec")
    # all columns sum to one + P = exp(Qt)
    for i in range(2 * budget):
        name = rng.choice(nuc)
        spec = _all_columns_problem(rng, name, rng.choice([3, 3, 4]))
        try:
            lf = _check_sum_one(spec, rng, out)
            _check_expm(lf, spec, out)
        except Exception as e:
            add_failure(out, "spec", "likelihood function construction raised", _slim(spec), "a likelihood function",
                        f"{type(e).__name__}: {e}", sig=f"build-raised:{spec['kind']}:{type(e).__name__}")
    _adversarial_expm(ctx, rng, out, 6 * budget)
    _scope_problems(ctx, rng, out, 8 * budget)
    # several loci; hidden Markov chain over site classes (sites_independent=False)
    S.spec_stream(ctx, out, ctx.subrng(f"sites-spec{budget}"), budget)
    # constructor option grid (mprob_model x word alphabets with excluded words); histories on one function object
    O.spec_stream(ctx, out, ctx.subrng(f"options{budget}"), budget)
    H.spec_stream(ctx, out, ctx.subrng(f"history{budget}"), budget)
    _t0 = time.time()
    H.ancestral_stream(ctx, out, ctx.subrng(f"ancestral{budget}"), budget)
    bump(out, "ancestral_stream_seconds", int(time.time() - _t0))
    if budget in (1, 10):
        # size scaling (not repeated in the wider search after a failure: the stream does not depend on the budget)
        lrng = ctx.subrng("large")
        for target in ([15, 16, "counts"] if not ctx.thorough else [15, 16, "counts", 15, 16, 15, 16, "counts"]):
            _large_problem(ctx, lrng, out, target=target)
    if budget >= 8:
        for name in [prot[ctx.seed % len(prot)], U.DINUC]:
            spec = _all_columns_problem(rng, name, 2)
            _check_sum_one(spec, rng, out)
    return out


# --------------------------------------------------------------------------
# findings / replay
# --------------------------------------------------------------------------
def match_finding(f, k):
    if f.get("sig") not in k.get("sigs", []):
        return False
    r = k.get("restrict") or {}
    inp = f.get("input") or {}
    if r.get("models") and inp.get("model") not in r["models"]:
        return False
    if r.get("kinds") and inp.get("kind") not in r["kinds"]:
        return False
    return True


def _recheck(ctx, inp):
    """re-run one recorded problem on the real code; returns a failure dict or None"""
    out = new_outcome()
    spec = {k: v for k, v in inp.items() if k not in ("column", "check", "edge", "bin", "pairs")}
    check = inp.get("check", "lh")
    if S.recheck(ctx, inp, out) or O.recheck(ctx, inp, out) or H.recheck(ctx, inp, out):
        pass
    elif check == "sum1":
        _check_sum_one(spec, None, out)
    elif check == "expm":
        lf = U.build_lf(spec, None)
        _check_expm(lf, spec, out)
    elif check == "adversarial":
        lf = None
        import numpy
        from scipy.linalg import expm
        lf = U.build_lf(dict(spec, rules=[]), None)
        U.apply_rules(lf, spec["rules"])
        ex = U.extract(lf, spec, profiles="oracle")
        Ps = [expm(numpy.array(lf.get_rate_matrix_for_edge(e, calibrated=True).array, dtype=float) * float(lf.get_param_value("length", edge=e))) for e in ex["edges"]]
        want, got = _lnl_from_P(ctx, ex, Ps), float(lf.lnL)
        worst = max(float(numpy.abs(numpy.array(lf.get_psub_for_edge(e).array) - W).max()) for e, W in zip(ex["edges"], Ps))
        if worst > 1e-8 or not (abs(got - want) <= 1e-7 * abs(want) + 1e-10):
            add_failure(out, "spec", "P / lnL differ from scipy expm(Q t) under tied or extreme in-bounds rate terms", inp, want, got,
                        sig=f"adversarial-expm:{spec['model']}")
    elif check == "scope":
        _check_scope(ctx, spec, None, out)
    elif check == "large":
        _large_problem(ctx, None, out, fixed={k: inp[k] for k in ("model", "target", "ntips", "ncols", "tree", "mprobs", "np_seed", "new_type",
                                                                   "sub_seed", "bins", "model_kw", "ambig", "const_frac", "rules", "rules_seed")})
    elif check in ("indepQ", "omega"):
        lf = U.build_lf(spec, None)
        (_check_indep_codon(ctx, lf, spec, out) if check == "indepQ" else _check_omega_structure(lf, spec, out))
    elif check == "length":
        lf = U.build_lf(spec, None)
        _check_lengths(lf, spec, out)
    else:
        evaluate(ctx, [spec], None, "oracle", 10**6, out, "spec")
    fails = [f for f in out["failures"] if f["kind"] == "spec"]
    return fails[0] if fails else None


def check_witness(ctx, w):
    return _recheck(ctx, w)


def replay(ctx, data):
    from .common import Driver, lake_build

    f = data.get("failing_input") or {}
    inp = f.get("input")
    if not inp:
        return False
    if not hasattr(ctx, "driver") or ctx.driver is None:
        lake_build([DRIVER])
        ctx.driver = Driver(DRIVER)
    r = _recheck(ctx, inp)
    if r:
        print("still fails:", r["what"], "expected", r["expected"], "got", r["got"])
    return r is not None
