"""C14 — composed apps account for every input exactly once, on any schedule.

Tie: the real `define_app` machinery with generated pipelines (harness/c14_apps.py: a loader, up
to four generic steps whose per-record outcome — success, exception, None, wrong type, returned
NotCompleted, dropped source — is chosen by the PRNG) and the real writers / data stores
(write_json + DataStoreDirectory, write_db + DataStoreSqlite), run serially and with
parallel=True, par_kw=dict(max_workers=2..6) under per-record sleeps; the completion order that
actually happened is observed in the master process and handed to the Lean model.
"""
from __future__ import annotations

import json
import os
import pickle
import time

from .common import add_failure, bump, log, new_outcome

PROP = "C14"
PROPS_FILES = ["CogentModel/Props/C14.lean", "CogentModel/Props/C14Call.lean", "CogentModel/Props/C14Select.lean"]
LEAN_TARGETS = ["CogentModel.Props.C14", "CogentModel.Props.C14Call", "CogentModel.Props.C14Select"]
DRIVER = "drv_c14"
TRUSTED = [
    "hand-written model lean/CogentModel/Model/Composable.lean of composable._call/_validate_data_type/_apply_to/_source_wrapped "
    "and of the writer's completed / not-completed routing (one dict-like store); tied by running the real define_app machinery on generated "
    "pipelines (serial and parallel) and comparing output stores and direct calls",
    "translator/c14_select2lean.py + vocabulary Model/SelectPrims.lean (selection loop of _apply_to and _proxy_input -> Gen/C14Select.lean); validated every "
    "run by the select_gen stream (harness/c14_select.py)",
    "a schedule is modelled as an arbitrary permutation of the submitted results (List.Perm); loky / pickling / MPI are exercised, not modelled",
]
ASSUMPTIONS = [
    "identifier sets include suffix / prefix / substring families ('a1','ba1','cba1','a1b','1a','a',…) in every order; identifiers containing a dot or the "
    "store suffix ('x.fasta' vs 'x', 'sojson') are left to C13 (open findings C13-identifier-spelling-not-normalised / C13-suffix-substring-rewriting)",
    "worker crashes, unpicklable results and MPI execution are not exhibited",
    "inputs are path strings (always wrapped in a source_proxy); falsy inputs (dropped by _proxy_input) and inputs that carry their own .source (not proxied) are not generated",
    "membership test of _apply_to: completed records only for DataStoreDirectory (model hasDone), any record for DataStoreSqlite (model hasAny); the resume theorems are for the former",
    "traceback text is compared by its last line only",
]

TY_NAME = {2: "RecA", 3: "RecB"}


# --------------------------------------------------------------------------
# translator step: Gen/C14Call.lean from the CURRENT source of _call / _validate_data_type / _add / get_default_chunksize
# --------------------------------------------------------------------------
def generate(ctx):
    import sys

    from .common import LEAN, SRC, VERIF

    sys.path.insert(0, str(VERIF))
    from translator import c14_call2lean as T

    try:
        lean, info, problems = T.translate(SRC)
    except T.TranslationError as e:
        return [f"c14_call2lean: {e}"]
    ctx.notes.append(f"c14_call2lean: _builtin_seqs={info.get('_builtin_seqs')} raises of _add={info.get('_add_raises')}")
    if lean is not None and T.write_if_changed(LEAN / "CogentModel" / "Gen" / "C14Call.lean", lean):
        ctx.notes.append("Gen/C14Call.lean was rewritten (the source of _call/_validate_data_type/_add/get_default_chunksize differs from the last translation)")
    problems = [f"c14_call2lean: {p}" for p in problems]
    # wave 3: the selection part of _apply_to and _proxy_input -> Gen/C14Select.lean
    from translator import c14_select2lean as S

    try:
        lean2, info2, problems2 = S.translate(SRC)
    except T.TranslationError as e:
        return problems + [f"c14_select2lean: {e}"]
    ctx.notes.append(f"c14_select2lean: raises={info2.get('raises')} logging left out={info2.get('logging_left_out')} "
                     f"outside the translated slice={info2.get('preamble_outside')}")
    if lean2 is not None and S.write_if_changed(LEAN / "CogentModel" / "Gen" / "C14Select.lean", lean2):
        ctx.notes.append("Gen/C14Select.lean was rewritten (the source of _apply_to's selection / _proxy_input differs from the last translation)")
    return problems + [f"c14_select2lean: {p}" for p in problems2]


# --------------------------------------------------------------------------
# pipeline generation
# --------------------------------------------------------------------------
def gen_pipeline(rng, n_rec, allow_sleep=True, family=False):
    """returns a spec: dict(steps=[(flavour, rules{val: rule}, default)], loader=(rules, default), sleeps, members)"""
    n_steps = rng.choice([0, 1, 2, 2, 3, 3, 4])
    flavours = [rng.choice(["a", "ab"]) for _ in range(n_steps)]
    deltas = [rng.choice([0, 0, 0, 1, 100]) for _ in range(n_steps + 1)]
    members = rng.sample(range(0, 60), n_rec)
    if family and n_rec >= 2:
        # identifiers that are suffixes / prefixes / substrings of each other, in every order
        fam = rng.sample(range(900, 910), min(n_rec, rng.randint(2, 6)))
        members = fam + members[: n_rec - len(fam)]
        rng.shuffle(members)
    lrules, srules = {}, [dict() for _ in range(n_steps)]
    outcome = {}
    for m in members:
        val, ty = m, 2
        fail_at = rng.choice([None, None] + list(range(n_steps + 1)))
        kind = rng.choice(["raise", "none", "nc", "type", "retnosrc"])
        for i in range(n_steps + 1):
            rules = lrules if i == 0 else srules[i - 1]
            key = m if i == 0 else val
            if i > 0 and key in rules:
                break  # another record already fixed what this step does with this payload
            if fail_at == i and kind in ("raise", "none", "nc"):
                rules[key] = {"raise": ["raise", rng.randint(1, 99)], "none": ["none"], "nc": ["nc", rng.randint(1, 99)]}[kind]
                outcome[m] = kind
                break
            if fail_at == i and kind == "type":
                rules[key] = ["ret", 3, deltas[i]]
                ty = 3
                outcome[m] = "type"
            elif fail_at == i and kind == "retnosrc":
                rules[key] = ["retnosrc", 2, deltas[i]]
                outcome[m] = "nosrc"
            val = val + deltas[i]
        outcome.setdefault(m, "ok")
    sleeps = {}
    if allow_sleep:
        # "burst": all tasks take the same time, so several finish before the master asks again
        mode = rng.choice(["reverse", "random", "straggler", "none", "burst", "burst"])
        for j, m in enumerate(members):
            if mode == "reverse":
                sleeps[m] = round(0.08 * (len(members) - j), 2)
            elif mode == "random":
                sleeps[m] = round(rng.random() * 0.5, 2)
            elif mode == "straggler" and j == 0:
                sleeps[m] = 0.8
            elif mode == "burst":
                sleeps[m] = 0.12
    return dict(
        loader=dict(rules=lrules, default=["ret", 2, deltas[0]]),
        steps=[dict(flavour=f, rules=srules[i], default=["ret", 2, deltas[i + 1]]) for i, f in enumerate(flavours)],
        sleeps=sleeps, members=members, outcome=outcome, fn_step=rng.random() < 0.4,
        # the master (writer) is slower than the workers for some runs: results pile up between two polls
        consumer_delay=(rng.choice([0.0, 0.03, 0.06]) if allow_sleep else 0.0),
    )


def build_inner(spec, with_sleep):
    from . import c14_apps as A

    app = A.c14_load(plan={str(k): v for k, v in spec["loader"]["rules"].items()}, default=spec["loader"]["default"],
                     sleeps={str(k): v for k, v in spec["sleeps"].items()} if with_sleep else None)
    for i, st in enumerate(spec["steps"], 1):
        cls = getattr(A, f"c14_step{i}{st['flavour']}")
        app = app + cls(plan={str(k): v for k, v in st["rules"].items()}, default=st["default"])
    if spec.get("fn_step"):
        # a function-style app with mutable positional and keyword constructor arguments that it mutates
        app = app + A.make_fn_step()
    return app


def model_steps(spec):
    steps = [dict(name=0, kind="loader", skip=True, accepts=[], rules=[[k, v] for k, v in spec["loader"]["rules"].items()], default=spec["loader"]["default"])]
    for i, st in enumerate(spec["steps"], 1):
        fl = st["flavour"]  # 'a','ab' skip not-completed input (default); 'na','ns' are skip_not_completed=False steps
        steps.append(dict(name=i, kind="generic", skip=fl in ("a", "ab"), accepts={"a": [2], "na": [2], "ab": [2, 3], "ns": []}[fl],
                          rules=[[k, v] for k, v in st["rules"].items()], default=st["default"]))
    if spec.get("fn_step"):
        steps.append(dict(name=5, kind="generic", skip=True, accepts=[2, 3], rules=[], default=["ret", 2, 0]))
    return list(reversed(steps))


# --------------------------------------------------------------------------
# canonical views
# --------------------------------------------------------------------------
def _src_idx(s):
    from .c14_apps import member_index

    return None if s is None else member_index(s)


def canon_value(r):
    """real result of a call -> model-style value"""
    from cogent3.app.composable import NotCompleted

    from .c14_apps import origin_index

    if isinstance(r, NotCompleted):
        return canon_nc(r.type, r.origin, r.message, r.source)
    if r is None:
        return ["none"]
    return ["ok", r.ty, r.val, _src_idx(r.source)]


def canon_nc(type_, origin, message, source):
    from .c14_apps import origin_index

    last = (message or "").strip().split("\n")[-1]
    if last == "unexpected input value None":
        msg = ["none_in"]
    elif last == "unexpected output value None":
        msg = ["none_out"]
    elif last.startswith("RuntimeError: boom"):
        msg = ["exc", int(last[len("RuntimeError: boom"):])]
    elif last.startswith("invalid data type, '"):
        cls = last.split("'")[1]
        msg = ["bad_type", {"RecA": 2, "RecB": 3, "NotCompleted": 0, "str": 1}.get(cls, cls)]
    elif last.startswith("user"):
        msg = ["user", int(last[4:])]
    else:
        msg = ["other", last[:80]]
    return ["nc", type_, origin_index(origin), msg, _src_idx(source)]


def canon_model(v):
    if "ok" in v:
        return ["ok"] + v["ok"]
    t, o, m, s = v["nc"]
    return ["nc", t, o, m, s]


def observe_store(dstore, kind):
    """{id: canonical record}, list of duplicate ids"""
    recs, dup = {}, []
    for m in dstore.completed:
        uid = str(m.unique_id).replace(".json", "")
        raw = m.read()
        if kind == "dir":
            d = json.loads(json.loads(raw)["data"])
        else:
            d = pickle.loads(raw) if isinstance(raw, bytes) else raw
        if uid in recs:
            dup.append(uid)
        recs[uid] = ["ok", d["ty"], d["val"], _src_idx(d["source"])]
    for m in dstore.not_completed:
        uid = os.path.basename(str(m.unique_id)).replace(".json", "")
        raw = m.read()
        d = json.loads(raw) if kind == "dir" else (pickle.loads(raw) if isinstance(raw, bytes) else raw)
        c = d["not_completed_construction"]
        if uid in recs:
            dup.append(uid)
        recs[uid] = canon_nc(c["args"][0], c["args"][1], c["args"][2], c["kwargs"].get("source"))
    return recs, dup


# --------------------------------------------------------------------------
# one real apply_to run
# --------------------------------------------------------------------------
def run_apply(ctx, tag, spec, inputs_members, store_kind, parallel, max_workers, outdir=None, mode="w", par_kw=None, id_from_source=None):
    from cogent3.app.data_store import DataStoreDirectory
    from cogent3.app.io import write_db, write_json
    from cogent3.app.sqlite_data_store import DataStoreSqlite

    base = ctx.scratch / f"c14_{tag}"
    base.mkdir(exist_ok=True)
    paths = [str(base / "in" / f"{_ident(m)}.txt") for m in inputs_members]
    outdir = outdir or str(base / ("out" if store_kind == "dir" else "out.sqlitedb"))
    if store_kind == "dir":
        ds = DataStoreDirectory(outdir, mode=mode, suffix="json")
        writer = write_json(data_store=ds)
    else:
        ds = DataStoreSqlite(outdir, mode=mode)
        writer = write_db(data_store=ds)
    app = build_inner(spec, with_sleep=parallel) + writer
    order = []
    orig = writer.main

    delay = float(spec.get("consumer_delay") or 0.0) if parallel else 0.0

    def main(*a, **kw):
        order.append(kw.get("identifier"))
        if delay:
            time.sleep(delay)  # a slow consumer: several workers finish before the master asks for the next result
        return orig(*a, **kw)

    writer.main = main
    exc = None
    t = time.time()
    try:
        kw = dict(parallel=True, par_kw=dict(par_kw or {}, max_workers=max_workers)) if parallel else {}
        if id_from_source is not None:
            kw["id_from_source"] = id_from_source
        app.apply_to(paths, logger=False, show_progress=False, **kw)
    except Exception as e:  # noqa
        exc = f"{type(e).__name__}: {e}"[:200]
    took = time.time() - t
    # what the data store object returned by apply_to lists in this session
    listed = [str(m.unique_id) for m in ds.completed] + [str(m.unique_id) for m in ds.not_completed]
    session_dup = sorted({u for u in listed if listed.count(u) > 1})
    if hasattr(ds, "close"):
        ds.close()
    # what is actually stored: a fresh read-only view
    fresh = DataStoreDirectory(outdir, mode="r", suffix="json") if store_kind == "dir" else DataStoreSqlite(outdir, mode="r")
    recs, dup = observe_store(fresh, store_kind)
    if hasattr(fresh, "close"):
        fresh.close()
    return dict(exc=exc, order=order, recs=recs, dup=dup, session_dup=session_dup, took=took, outdir=outdir)


def _ident(m):
    from .c14_apps import member_name

    return member_name(m)


def _compare_run(out, kind, spec, members, res, expected, what_prefix, inp, sigp):
    """compare an observed store with expected {m: canonical}; returns True if equal"""
    ok = True
    if res["exc"]:
        add_failure(out, kind, f"{what_prefix}: apply_to raised", inp, "no exception", res["exc"], confirmed=(kind == "spec"), sig=f"{sigp}apply_to-raises")
        return False
    if res["dup"]:
        add_failure(out, kind, f"{what_prefix}: identifier stored more than once", inp, [], res["dup"], confirmed=(kind == "spec"), sig=f"{sigp}record-duplicated")
        ok = False
    if res.get("session_dup") and kind == "spec":
        add_failure(out, kind, "the data store returned by apply_to lists a member twice (on disk it exists once)", inp, [], res["session_dup"],
                    confirmed=True, sig=f"listed-twice:{inp.get('store')}:{'resumed' if inp.get('resumed') else 'fresh'}:"
                    + ("not_completed" if all("not_completed" in u for u in res["session_dup"]) else "completed"))
    exp = {_ident(m): v for m, v in expected.items()}
    got = res["recs"]
    if sorted(exp) != sorted(got):
        add_failure(out, kind, f"{what_prefix}: stored identifiers differ", inp, sorted(exp), sorted(got), confirmed=(kind == "spec"),
                    sig=f"{sigp}{'record-missing' if set(exp) - set(got) else 'record-extra'}")
        return False
    for k in sorted(exp):
        if exp[k] != got[k]:
            cls = "nc-fields" if exp[k][0] == "nc" and got[k][0] == "nc" else "content"
            add_failure(out, kind, f"{what_prefix}: record {k} differs", dict(inp, record=k), exp[k], got[k], confirmed=(kind == "spec"), sig=f"{sigp}record-{cls}-differs")
            ok = False
    return ok


# --------------------------------------------------------------------------
# scenario plan shared by correspondence and spec_check (real runs are cached)
# --------------------------------------------------------------------------
def _runs(ctx, budget):
    cache = ctx.__dict__.setdefault("_c14runs", {})
    if budget in (1, 10):
        budget = 1  # the standard spec check judges the very runs the correspondence used; only the deeper search adds new ones
    if budget in cache:
        return cache[budget]
    rng = ctx.subrng(f"runs{budget}")
    n_serial = ctx.budget(32, 400) * max(1, budget // 4)
    n_par = ctx.budget(5, 60) * max(1, budget // 8)
    runs = []
    # (max_workers, chunksize, if_serial): chunk sizes that do not divide the input count, one worker, many workers
    par_cfgs = [(2, 3, None), (3, 4, None), (1, None, None), (4, 7, "ignore"), (6, 2, None), (5, 1, "warn"), (3, None, None), (2, 7, None),
                (4, 3, None), (6, 4, "ignore"), (5, None, None), (3, 2, None)]
    rng.shuffle(par_cfgs)
    for i in range(n_serial + n_par):
        parallel = i >= n_serial
        par_kw = {}
        if parallel:
            mw, cs, ifs = par_cfgs[(i - n_serial) % len(par_cfgs)]
            n_rec = rng.randint(1, 12) if (i - n_serial) % 5 == 4 else rng.randint(5, 12)
            if cs and cs > 1:
                while n_rec % cs == 0 or n_rec <= cs:
                    n_rec = n_rec + 1 if n_rec < 12 else cs + 1
                par_kw["chunksize"] = cs
            elif cs:
                par_kw["chunksize"] = cs
            if ifs:
                par_kw["if_serial"] = ifs
        else:
            mw = rng.randint(2, 6)
            n_rec = rng.randint(1, 12)
        spec = gen_pipeline(rng, n_rec, allow_sleep=parallel, family=rng.random() < 0.45)
        store_kind = rng.choice(["dir", "dir", "sqlite"])
        members = list(spec["members"])
        # the first runs of every plan are FORCED histories (never left to chance): a resumed run into a directory store with a CHANGED
        # app, where an input that failed in the first run is among the inputs of the second (it must be retried and re-recorded)
        forced = (not parallel) and i < ctx.budget(4, 24)
        if forced:
            for _ in range(40):
                if len(members) >= 2 and any(spec["outcome"].get(m) in ("raise", "nc", "none") for m in members):
                    break
                n_rec = rng.randint(3, 8)
                spec = gen_pipeline(rng, n_rec, allow_sleep=False, family=rng.random() < 0.45)
                members = list(spec["members"])
            failing = [m for m in members if spec["outcome"].get(m) in ("raise", "nc", "none")]
            if failing and len(members) >= 2:
                members.remove(failing[0])
                members.insert(rng.randrange(0, max(1, len(members) - 1)), failing[0])  # somewhere before the last input
            store_kind = "dir"
        tag = f"{budget}_{i}"
        r = dict(spec=spec, members=members, store_kind=store_kind, parallel=parallel, mw=mw, par_kw=par_kw, tag=tag, pre=None)
        # a third of the runs are resumed runs (mode='a'): first a prefix of the inputs (serially), then all of them
        if (forced or rng.random() < 0.35) and n_rec >= 2 and len(members) >= 2:
            j = rng.randint(1, len(members) - 1)
            if forced:
                fidx = [k for k, m in enumerate(members) if spec["outcome"].get(m) in ("raise", "nc", "none")]
                if fidx:
                    j = rng.randint(min(fidx) + 1, len(members) - 1) if min(fidx) + 1 <= len(members) - 1 else len(members) - 1
            first = run_apply(ctx, tag, spec, members[:j], store_kind, False, mw)
            r["pre"] = dict(members=members[:j], res=first)
            if store_kind == "dir" and (forced or rng.random() < 0.6):
                # the re-run uses a CHANGED app (the failing records now fail differently): every not-completed record must name
                # the CURRENT failure (directory store: a failed input is retried; sqlite never retries it, see apply_idempotent_resume_sqlite)
                r["spec2"] = changed_spec(spec)
            r["res"] = run_apply(ctx, tag, r.get("spec2", spec), members, store_kind, parallel, mw, outdir=first["outdir"], mode="a", par_kw=par_kw)
        else:
            r["res"] = run_apply(ctx, tag, spec, members, store_kind, parallel, mw, par_kw=par_kw)
        runs.append(r)
    cache[budget] = runs
    return runs


def _contains(store_kind):
    return "any" if store_kind == "sqlite" else "ok"


def _order_positions(members_selected, order):
    pos = {_ident(m): i for i, m in enumerate(members_selected)}
    return [pos[o] for o in order if o in pos]


def correspondence(ctx):
    out = new_outcome(
        "generated pipelines (0-4 generic steps, per-record outcome ok/raise/None/wrong type/returned NotCompleted/dropped source) through the real "
        "define_app + write_json/DataStoreDirectory or write_db/DataStoreSqlite, serial and parallel=True (max_workers 2..6, per-record sleeps): output "
        "store == Lean applyTo run with the completion order that was observed; direct calls app(x), app(None), app(NotCompleted) == Lean callChain; "
        "non-trivial = runs with >= 1 failing record or a non-identity completion order"
    )
    runs = _runs(ctx, 1)
    reqs = []
    for r in runs:
        steps = model_steps(r["spec"])
        ms = r["members"]
        common = dict(ids=[[m, m] for m in ms], steps=steps, ident_ty=1)
        store = []
        if r["pre"]:
            pm = r["pre"]["members"]
            first = ("apply", dict(common, store=[], inputs=pm, order=_order_positions(pm, r["pre"]["res"]["order"])))
            r["_first_req"] = first
        reqs.append(r)
    firsts = ctx.driver.batch([r["_first_req"] for r in reqs if r["pre"]])
    it = iter(firsts)
    second = []
    for r in reqs:
        steps = model_steps(r.get("spec2", r["spec"]))
        ms = r["members"]
        store = next(it)["store"] if r["pre"] else []
        # DataStoreSqlite: a stored not-completed record also makes _apply_to skip the input (model: hasAny); directory: completed only
        done = {e[0] for e in store if "ok" in e[1] or r["store_kind"] == "sqlite"}
        selected = [m for m in ms if m not in done]
        second.append(("apply", dict(ids=[[m, m] for m in ms], steps=steps, ident_ty=1, store=store, inputs=ms, contains=_contains(r["store_kind"]),
                                     order=_order_positions(selected, r["res"]["order"]))))
    for r, mr in zip(reqs, ctx.driver.batch(second)):
        out["evaluations"] += 1
        inp = dict(tag=r["tag"], parallel=r["parallel"], max_workers=r["mw"], par_kw=r["par_kw"], store=r["store_kind"], members=r["members"],
                   names=[_ident(m) for m in r["members"]], resumed=bool(r["pre"]), first=(r["pre"] or {}).get("members"), spec=_spec_brief(r["spec"]))
        if "err" in mr:
            add_failure(out, "corr", "model raises ValueError (non-unique identifier) but inputs are distinct", inp, "store", mr, confirmed=False)
            continue
        expected = {e[0]: canon_model(e[1]) for e in mr["store"]}
        same = _compare_run(out, "corr", r["spec"], r["members"], r["res"], expected, "real store vs Lean applyTo", inp, "corr:")
        order_ids = r["res"]["order"]
        nonident = order_ids != [_ident(m) for m in r["members"] if _ident(m) in order_ids]
        bump(out, "mode", ("parallel" if r["parallel"] else "serial") + ("-resumed" if r["pre"] else ""))
        bump(out, "id_family", sum(1 for m in r["members"] if m >= 900))
        bump(out, "n_records", len(r["members"]))
        bump(out, "n_steps", len(r["spec"]["steps"]))
        bump(out, "store", r["store_kind"])
        if r["parallel"]:
            bump(out, "max_workers", r["mw"])
            bump(out, "chunksize", str(r["par_kw"].get("chunksize")))
            bump(out, "completion_order", "permuted" if nonident else "input-order")
        for m, o in r["spec"]["outcome"].items():
            bump(out, "outcome", o)
        if same and (nonident or any(v[0] == "nc" for v in expected.values())):
            out["nontrivial"].add(r["tag"])
        if len(out["samples"]) < 6 and r["parallel"] and nonident:
            out["samples"].append(dict(inp, completion_order=order_ids, store=r["res"]["recs"], seconds=round(r["res"]["took"], 2)))
    _corr_calls(ctx, out)
    _corr_alias(ctx, out)
    _corr_parallel_book(ctx, out)
    from . import c14_rich

    c14_rich.corr_rich(ctx, out)
    c14_rich.corr_add(ctx, out)
    c14_rich.corr_chunksize_gen(ctx, out)
    from . import c14_select

    c14_select.corr_select_gen(ctx, out)
    return out


def _corr_alias(ctx, out):
    """identifier function that is NOT injective (id_from_source maps several inputs to one identifier): the real apply_to must raise
    ValueError('non-unique identifier …') exactly when Lean `select` returns none (two not-yet-completed inputs share an identifier; an
    input whose identifier is already completed is skipped even when it is a duplicate), and otherwise write each record under idOf(input).
    Serial runs, fresh or over a store pre-filled by a first run."""
    from .c14_apps import member_index

    rng = ctx.subrng("alias")
    jobs = []
    for i in range(ctx.budget(30, 300)):
        n_rec = rng.randint(2, 6)
        spec = gen_pipeline(rng, n_rec, allow_sleep=False, family=rng.random() < 0.3)
        ms = list(spec["members"])
        alias = {m: (rng.choice(ms) if rng.random() < (0.0 if i % 4 == 0 else 0.3) else m) for m in ms}
        store_kind = rng.choice(["dir", "dir", "sqlite"])
        tag = f"alias_{i}"

        def id_from_source(src, alias=alias):
            m = member_index(getattr(src, "unique_id", src))
            return _ident(alias.get(m, m))

        pre = None
        if rng.random() < 0.5:
            first = [m for m in ms if rng.random() < 0.5]
            if first and len({alias[m] for m in first}) == len(first):
                pre = first
        outdir = None
        pre_res = None
        if pre:
            pre_res = run_apply(ctx, tag, spec, pre, store_kind, False, 2, id_from_source=id_from_source)
            outdir = pre_res["outdir"]
        res = run_apply(ctx, tag, spec, ms, store_kind, False, 2, outdir=outdir, mode="a" if pre else "w", id_from_source=id_from_source)
        jobs.append(dict(spec=spec, ms=ms, alias=alias, store_kind=store_kind, tag=tag, pre=pre, pre_res=pre_res, res=res))
    ids = lambda j: [[m, j["alias"][m]] for m in j["ms"]]  # noqa: E731
    firsts = ctx.driver.batch([("apply", dict(ids=ids(j), steps=model_steps(j["spec"]), ident_ty=1, store=[], inputs=j["pre"],
                                              order=list(range(len(j["pre"]))))) for j in jobs if j["pre"]])
    it = iter(firsts)
    reqs = []
    for j in jobs:
        store = next(it)["store"] if j["pre"] else []
        j["store0"] = store
        done = {e[0] for e in store if "ok" in e[1] or j["store_kind"] == "sqlite"}
        sel_ids = [j["alias"][m] for m in j["ms"] if j["alias"][m] not in done]
        pos = {_ident(a): k for k, a in reversed(list(enumerate(sel_ids)))}
        reqs.append(("apply", dict(ids=ids(j), steps=model_steps(j["spec"]), ident_ty=1, store=store, inputs=j["ms"], contains=_contains(j["store_kind"]),
                                   order=[pos[o] for o in j["res"]["order"] if o in pos])))
    for j, mr in zip(jobs, ctx.driver.batch(reqs)):
        out["evaluations"] += 1
        inp = dict(kind="alias", tag=j["tag"], store=j["store_kind"], members=j["ms"], alias=sorted(j["alias"].items()), first=j["pre"],
                   spec=_spec_brief(j["spec"]))
        exc = j["res"]["exc"] or ""
        dup = len({j["alias"][m] for m in j["ms"]}) < len(j["ms"])
        bump(out, "alias_case", ("resumed-" if j["pre"] else "fresh-") + ("dup-ids" if dup else "distinct") + ("-ValueError" if "err" in mr else ""))
        if "err" in mr:
            if not exc.startswith("ValueError: non-unique identifier"):
                add_failure(out, "corr", "Lean select reports a duplicate identifier but the real apply_to did not raise ValueError", inp, mr, exc or j["res"]["recs"], confirmed=False)
            else:
                # nothing may have been written by the refused run
                exp0 = {_ident(e[0]): canon_model(e[1]) for e in j["store0"]}
                if exp0 != j["res"]["recs"]:
                    add_failure(out, "corr", "apply_to refused duplicate identifiers but the store changed", inp, exp0, j["res"]["recs"], confirmed=False)
                else:
                    out["nontrivial"].add(("alias", j["tag"]))
            continue
        expected = {e[0]: canon_model(e[1]) for e in mr["store"]}
        if _compare_run(out, "corr", j["spec"], j["ms"], j["res"], expected, "aliased identifiers: real store vs Lean applyTo", inp, "corr:alias:") and (dup or j["pre"]):
            out["nontrivial"].add(("alias", j["tag"]))


def _corr_parallel_book(ctx, out):
    """Model/ParallelBook.lean vs the code's bookkeeping: get_default_chunksize, the chunking executor.map applies
    (loky's own _get_chunks), imap results for every (n, chunksize), and as_completed fed the completion order that was observed"""
    from cogent3.util import parallel as PAR

    try:
        from loky.process_executor import _get_chunks
    except Exception:  # pragma: no cover
        _get_chunks = None
    grid = [(n, w) for n in range(0, 41) for w in range(1, 9)]
    for (n, w), m in zip(grid, ctx.driver.batch([("chunksize", dict(n=n, w=w)) for n, w in grid])):
        out["evaluations"] += 1
        real = PAR.get_default_chunksize(range(n), w)
        if real != m:
            add_failure(out, "corr", "get_default_chunksize differs from the model", dict(n=n, max_workers=w), m, real, confirmed=False)
    cgrid = [(n, c) for n in range(0, 14) for c in (1, 2, 3, 4, 7, 13, 20)]
    res_chunks = ctx.driver.batch([("chunks", dict(n=n, c=c)) for n, c in cgrid])
    res_imap = ctx.driver.batch([("imap", dict(n=n, c=c)) for n, c in cgrid])
    for (n, c), mc, mi in zip(cgrid, res_chunks, res_imap):
        out["evaluations"] += 1
        ref = [list(range(n))[i : i + c] for i in range(0, n, c)]
        real = [[x[0] for x in ch] for ch in _get_chunks(c, range(n))] if _get_chunks else ref
        if mc != real or mc != ref:
            add_failure(out, "corr", "chunking differs from the model", dict(n=n, chunksize=c), mc, real, confirmed=False)
        if mi != [x * x for x in range(n)]:
            add_failure(out, "corr", "model imap results are not [f(x) for x in s]", dict(n=n, chunksize=c), [x * x for x in range(n)], mi, confirmed=False)
        elif n > c:
            out["nontrivial"].add(("chunks", n, c))
    bump(out, "parallel_book", len(grid) + len(cgrid))
    # as_completed: the model, given the completion order that actually happened, yields exactly what the real call yielded
    from .c14_funcs import slow_square

    rng = ctx.subrng("asc-order")
    cases = [(rng.randint(2, 12), rng.randint(1, 6), rng.choice([None, 1, 3, 4, 7])) for _ in range(ctx.budget(4, 40))]
    reqs, reals = [], []
    for n, mw, cs in cases:
        kw = dict(max_workers=mw)
        if cs:
            kw["chunksize"] = cs
        got = [list(r) for r in PAR.as_completed(slow_square, list(range(n)), **kw)]
        order = [r[0] for r in got]
        reqs.append(("as_completed", dict(n=n, order=order)))
        reals.append([r[1] for r in got])
    for (n, mw, cs), rq, real, m in zip(cases, reqs, reals, ctx.driver.batch(reqs)):
        out["evaluations"] += 1
        order = rq[1]["order"]
        if m != real or sorted(order) != list(range(n)):
            add_failure(out, "corr", "util.parallel.as_completed: results differ from the bookkeeping model fed the observed completion order "
                        "(or a task completed not exactly once)", dict(n=n, max_workers=mw, chunksize=cs, order=order), m, real, confirmed=False)
        elif order != sorted(order):
            out["nontrivial"].add(("asc", n, mw, cs, tuple(order)))


def _spec_brief(spec):
    return dict(loader=spec["loader"], steps=spec["steps"], sleeps=spec["sleeps"], fn_step=bool(spec.get("fn_step")),
                consumer_delay=spec.get("consumer_delay", 0.0))


def changed_spec(spec):
    """the same pipeline with every failing rule failing DIFFERENTLY (other message / other kind): the app's settings changed between runs"""
    def ch(rule):
        if rule[0] == "raise":
            return ["raise", rule[1] + 100]
        if rule[0] == "nc":
            return ["nc", rule[1] + 100]
        if rule[0] == "none":
            return ["raise", 777]
        return rule

    return dict(spec, loader=dict(rules={k: ch(v) for k, v in spec["loader"]["rules"].items()}, default=spec["loader"]["default"]),
                steps=[dict(st, rules={k: ch(v) for k, v in st["rules"].items()}) for st in spec["steps"]])


def _corr_calls(ctx, out):
    """direct calls of composed apps (without a writer): app(path), app(None), app(NotCompleted)"""
    from cogent3.app.composable import NotCompleted

    rng = ctx.subrng("calls")
    reqs, reals, inps = [], [], []
    for i in range(ctx.budget(150, 2000)):
        spec = gen_pipeline(rng, rng.randint(1, 6), allow_sleep=False)
        if i % 2 == 1:
            # steps declared with skip_not_completed=False (typed 'na' / untyped 'ns'): callChain's skipNC = false branches,
            # `validate` on a not-completed value (class tag 0) and `main` receiving a NotCompleted
            for st in spec["steps"]:
                if rng.random() < 0.5:
                    st["flavour"] = rng.choice(["na", "ns"])
        bump(out, "call_noskip_steps", sum(1 for st in spec["steps"] if st["flavour"] in ("na", "ns")))
        app = build_inner(spec, False)
        steps = model_steps(spec)
        for m in spec["members"][:3]:
            reqs.append(("call", dict(steps=steps, input={"ok": [1, m, m]})))
            reals.append(canon_value(app(f"/data/{_ident(m)}.txt")))
            inps.append(dict(spec=_spec_brief(spec), input=f"{_ident(m)}.txt"))
        if i % 3 == 0:
            reqs.append(("call", dict(steps=steps, input=None)))
            reals.append(canon_value(app(None)))
            inps.append(dict(spec=_spec_brief(spec), input=None))
        if i % 3 == 1:
            nc = NotCompleted("FAIL", "c14_step4a", "user7", source="r005.txt")
            reqs.append(("call", dict(steps=steps, input={"nc": ["FAIL", 4, ["user", 7], 5]})))
            reals.append(canon_value(app(nc)))
            inps.append(dict(spec=_spec_brief(spec), input="NotCompleted(FAIL, c14_step4a, user7, r005.txt)"))
    for (cmd, rq), real, mr, inp in zip(reqs, reals, ctx.driver.batch(reqs), inps):
        out["evaluations"] += 1
        exp = canon_model(mr)
        bump(out, "call_result", exp[0] if exp[0] == "ok" else f"nc:{exp[3][0]}")
        if exp != real:
            add_failure(out, "corr", "app(x) differs from Lean callChain", inp, exp, real, confirmed=False)
        elif exp[0] == "nc":
            out["nontrivial"].add(("call", json.dumps(inp, sort_keys=True)[:300]))


# --------------------------------------------------------------------------
# spec check: the store vs calling the app on each input alone
# --------------------------------------------------------------------------
def spec_check(ctx, budget):
    out = new_outcome(
        "every apply_to run (serial, resumed, parallel with forced sleeps): no exception; each input has exactly one record under its own identifier; "
        "record == app(x) called on that input alone in this process (fresh app, no writer); plus pipelines ending in write_seqs fed a value the "
        "writer's type check rejects; non-trivial = runs with failures or permuted completion"
    )
    _regression_witnesses(ctx, out)
    for r in _runs(ctx, budget):
        out["evaluations"] += 1
        base = ctx.scratch / f"c14_{r['tag']}"
        expected = {}
        cur = r.get("spec2", r["spec"])
        for m in r["members"]:
            # a FRESH app for every input: "calling the app on that input alone"
            v = canon_value(build_inner(cur, False)(str(base / "in" / f"{_ident(m)}.txt")))
            expected[m] = v
        if r.get("spec2"):
            bump(out, "resumed_with_changed_app", 1)
        inp = dict(kind="generated", tag=r["tag"], parallel=r["parallel"], max_workers=r["mw"], par_kw=r["par_kw"], store=r["store_kind"], members=r["members"],
                   names=[_ident(m) for m in r["members"]], resumed=bool(r["pre"]), first=(r["pre"] or {}).get("members"), spec=_spec_brief(r["spec"]),
                   spec2=_spec_brief(r["spec2"]) if r.get("spec2") else None)
        ok = _compare_run(out, "spec", r["spec"], r["members"], r["res"], expected, "store vs app(x) alone", inp, "")
        if ok and (any(v[0] == "nc" for v in expected.values()) or r["parallel"]):
            out["nontrivial"].add(("spec", r["tag"]))
        bump(out, "spec_mode", "parallel" if r["parallel"] else "serial")
    f = _writer_type_case(ctx, dict(n=4, bad=[1, 3]))
    out["evaluations"] += 1
    if f:
        out["failures"].append(f)
    for w in (dict(kind="falsy_input", falsy=""), dict(kind="source_inputs", n=3, drop=1)):
        out["evaluations"] += 1
        f = check_witness(ctx, w)
        if f:
            out["failures"].append(f)
    writers = ("write_seqs", "write_json", "write_tabular", "write_db")
    par_writers = writers if (ctx.thorough or budget not in (1, 10)) else (ctx.subrng("cid-par").choice(writers),)
    for writer in writers:
        for par in ((False, True) if writer in par_writers else (False,)):
            out["evaluations"] += 1
            f = _custom_id_case(ctx, dict(kind="custom_id", writer=writer, parallel=par, max_workers=2))
            if f:
                out["failures"].append(f)
            else:
                out["nontrivial"].add(("custom_id", writer, par))
    _parallel_direct(ctx, out, budget)
    from .c14_forms import forms_stream

    forms_stream(ctx, out, budget)
    return out


def _custom_id_case(ctx, w):
    """apply_to with a custom id_from_source (directory-qualified identifiers, same file names in different directories, failures among
    inputs that share a basename) through one of the writer apps: every input ends up under ITS identifier"""
    from cogent3.app import io as app_io
    from cogent3.app.data_store import DataStoreDirectory
    from cogent3.app.sqlite_data_store import DataStoreSqlite

    from . import c14_apps as A

    ctx._c14wt = getattr(ctx, "_c14wt", 0) + 1
    base = ctx.scratch / f"c14_cid_{ctx._c14wt}"
    base.mkdir(exist_ok=True)
    writer = w["writer"]
    names = ["batch1/geneA", "batch1/geneB", "batch2/geneB", "batch2/geneC", "batch3/geneB"]
    failing = {"batch1/geneB", "batch2/geneB"}
    kind = {"write_seqs": "seqs", "write_tabular": "table"}.get(writer, "rec")
    plan = {n: ("raise" if n in failing else kind) for n in names}
    paths = [str(base / "in" / f"{n}.txt") for n in names]
    if writer == "write_db":
        ds = DataStoreSqlite(str(base / "out.sqlitedb"), mode="w")
    else:
        ds = DataStoreDirectory(str(base / "out"), mode="w", suffix={"write_seqs": "fasta", "write_json": "json", "write_tabular": "tsv"}[writer])
    wapp = getattr(app_io, writer)(data_store=ds, id_from_source=A.dir_qualified_id)
    app = A.c14_load_named(plan=plan) + wapp
    exc = None
    try:
        pkw = dict(parallel=True, par_kw=dict(max_workers=w.get("max_workers", 2))) if w.get("parallel") else {}
        app.apply_to(paths, id_from_source=A.dir_qualified_id, logger=False, show_progress=False, **pkw)
    except Exception as e:  # noqa
        exc = f"{type(e).__name__}: {e}"[:160]

    def uid(m):
        u = os.path.basename(str(m.unique_id))
        for ext in (".fasta", ".json", ".tsv"):
            if u.endswith(ext):
                u = u[: -len(ext)]
        return u

    got = dict(completed=sorted(uid(m) for m in ds.completed), not_completed=sorted(uid(m) for m in ds.not_completed))
    if hasattr(ds, "close"):
        ds.close()
    exp = dict(completed=sorted(n.replace("/", "-") for n in names if n not in failing), not_completed=sorted(n.replace("/", "-") for n in failing))
    if exc or got != exp:
        out = new_outcome()
        add_failure(out, "spec", f"{writer}: with a custom id_from_source (directory-qualified identifiers) the records are not stored one per input under "
                    "the identifier apply_to derived from the input", dict(w, inputs=[n + ".txt" for n in names], failing=sorted(failing)), exp, dict(exc=exc, **got),
                    sig=f"custom-id:{writer}:{'apply_to-raises' if exc else 'records-differ'}" + (":parallel" if w.get("parallel") else ""))
        return out["failures"][0]
    return None


def _falsy_input_case(ctx, w):
    """apply_to over inputs one of which is falsy ('' / 0 / an empty list): the property wants one record per input"""
    from cogent3.app.data_store import DataStoreDirectory
    from cogent3.app.io import write_json

    from . import c14_apps as A

    ctx._c14wt = getattr(ctx, "_c14wt", 0) + 1
    base = ctx.scratch / f"c14_falsy_{ctx._c14wt}"
    base.mkdir(exist_ok=True)
    falsy = w.get("falsy", "")
    inputs = [str(base / "in" / "r001.txt"), falsy, str(base / "in" / "r003.txt")]
    ds = DataStoreDirectory(str(base / "out"), mode="w", suffix="json")
    app = A.c14_load() + write_json(data_store=ds)
    exc = None
    try:
        app.apply_to(inputs, logger=False, show_progress=False)
    except Exception as e:  # noqa
        exc = f"{type(e).__name__}: {e}"[:160]
    n_rec = len(ds.completed) + len(ds.not_completed)
    if exc or n_rec != len(inputs):
        out = new_outcome()
        add_failure(out, "spec", "an input that is falsy ('' / 0 / empty) is silently dropped by apply_to: it ends up with no record of any kind",
                    dict(w, inputs=[os.path.basename(str(x)) for x in inputs]), f"{len(inputs)} records", dict(exc=exc, records=n_rec),
                    sig="falsy-input:no-record" if not exc else "falsy-input:apply_to-raises")
        return out["failures"][0]
    return None


def _source_inputs_case(ctx, w):
    """a loader-less composition over in-memory inputs that carry `.source`; one step returns a value without a source"""
    from cogent3.app.data_store import DataStoreDirectory
    from cogent3.app.io import write_json

    from . import c14_apps as A

    ctx._c14wt = getattr(ctx, "_c14wt", 0) + 1
    base = ctx.scratch / f"c14_src_{ctx._c14wt}"
    base.mkdir(exist_ok=True)
    plan = {str(w["drop"]): ["retnosrc", 2, 0]}
    objs = [A.RecA(i, source=f"r{i:03d}.txt") for i in range(w["n"])]
    alone = {}
    for o in objs:
        r = A.c14_step1a(plan=plan)(A.RecA(o.val, source=o.source))
        alone[f"r{o.val:03d}"] = "completed" if r else "not_completed"
    ds = DataStoreDirectory(str(base / "out"), mode="w", suffix="json")
    app = A.c14_step1a(plan=plan) + write_json(data_store=ds)
    exc = None
    try:
        app.apply_to(objs, logger=False, show_progress=False)
    except Exception as e:  # noqa
        exc = f"{type(e).__name__}: {e}"[:160]
    got = {str(m.unique_id).replace(".json", ""): "completed" for m in ds.completed}
    got.update({os.path.basename(str(m.unique_id)).replace(".json", ""): "not_completed" for m in ds.not_completed})
    if exc or got != alone:
        out = new_outcome()
        add_failure(out, "spec", "apply_to over in-memory inputs that carry .source raises (inputs are not proxied, the identifier is read from the "
                    "RESULT) when a step returns a value without a source, although every record is fine when the app is called on it alone",
                    dict(w), alone, dict(exc=exc, store=got), sig="apply_to-raises:input-with-source" if exc else "input-with-source:store-differs")
        return out["failures"][0]
    return None


def _parallel_case(fn, n, mw, cs, delay=0.0, same=False):
    """util.parallel.<fn>(slow_square, range(n), max_workers=mw, chunksize=cs): (expected, got); `delay`: the consumer sleeps that long
    after every result (completion bursts: several tasks finish between two polls of the master); `same`: all tasks take equally long"""
    from cogent3.util import parallel as PAR

    from .c14_funcs import even_square, slow_square

    kw = dict(max_workers=mw)
    if cs is not None:
        kw["chunksize"] = cs
    exp = [[x, x * x] for x in range(n)]
    try:
        got = []
        for r in getattr(PAR, fn)(even_square if same else slow_square, list(range(n)), **kw):
            got.append(list(r))
            if delay:
                time.sleep(delay)
    except Exception as e:  # noqa
        return exp, f"{type(e).__name__}: {e}"[:160]
    if fn == "as_completed":
        got = sorted(got)  # any order, but every task exactly once
    return exp, got


def _parallel_direct(ctx, out, budget):
    """every task's result exactly once (as_completed) / in order (imap, map) for every (n, max_workers, chunksize)"""
    cache = ctx.__dict__.setdefault("_c14par", {})
    key = 1 if budget in (1, 10) else budget
    if key not in cache:
        rng = ctx.subrng(f"pardirect{key}")
        grid = [(fn, n, mw, cs) for fn in ("as_completed", "imap", "map") for n in range(1, 13) for mw in range(1, 7) for cs in (None, 1, 2, 3, 4, 7)]
        must = [("as_completed", 10, 3, 3), ("as_completed", 10, 2, 4), ("imap", 10, 3, 4), ("map", 11, 2, 7), ("as_completed", 1, 1, None), ("imap", 5, 6, 7)]
        cases = [c + (0.0, False) for c in must + rng.sample(grid, ctx.budget(16, 400) * (1 if key == 1 else 2))]
        # completion bursts: a consumer slower than the tasks, tasks of equal / of skewed duration, any worker count
        cases += [("as_completed", 12, 1, None, 0.03, True), ("as_completed", 14, 3, None, 0.04, True), ("as_completed", 10, 4, None, 0.05, False),
                  ("imap", 9, 2, 2, 0.03, True)]
        cases += [(rng.choice(["as_completed", "as_completed", "imap"]), rng.randint(6, 16), rng.randint(1, 6), rng.choice([None, 1, 3]),
                   rng.choice([0.02, 0.04, 0.06]), rng.random() < 0.6) for _ in range(ctx.budget(3, 60) * (1 if key == 1 else 2))]
        cache[key] = [(c, _parallel_case(*c)) for c in cases]
    for (fn, n, mw, cs, delay, same), (exp, got) in cache[key]:
        out["evaluations"] += 1
        bump(out, "parallel_direct", fn + (":slow-consumer" if delay else ""))
        if exp != got:
            add_failure(out, "spec", f"util.parallel.{fn} does not return every task's result exactly once" + (" in order" if fn != "as_completed" else "")
                        + (" when the consumer is slower than the tasks (several tasks finish between two polls)" if delay else ""),
                        dict(kind="parallel_direct", fn=fn, n=n, max_workers=mw, chunksize=cs, consumer_delay=delay, equal_durations=same), exp, got,
                        sig=f"parallel:{fn}:results-differ")
        elif n > 1:
            out["nontrivial"].add(("par", fn, n, mw, cs, delay, same))


def _writer_type_case(ctx, w):
    """pipeline loader + write_seqs where some records are not sequence collections"""
    from cogent3.app.data_store import DataStoreDirectory
    from cogent3.app.io import write_seqs

    from . import c14_apps as A

    ctx._c14wt = getattr(ctx, "_c14wt", 0) + 1
    base = ctx.scratch / f"c14_wt_{ctx._c14wt}_{w['n']}_{'_'.join(map(str, w['bad']))}"
    base.mkdir(exist_ok=True)
    plan = {str(m): (["ret", 2, 0] if m in w["bad"] else ["seqs"]) for m in range(w["n"])}
    paths = [str(base / "in" / f"r{m:03d}.txt") for m in range(w["n"])]
    import shutil

    shutil.rmtree(base / "out", ignore_errors=True)
    ds = DataStoreDirectory(str(base / "out"), mode="w", suffix="fasta")
    app = A.c14_load(plan=plan) + write_seqs(data_store=ds)
    alone = {}
    for m, p in enumerate(paths):
        r = A.c14_load(plan=plan) + write_seqs(data_store=DataStoreDirectory(str(base / f"alone{m}"), mode="w", suffix="fasta"))
        v = r(p)
        alone[_ident(m)] = "not_completed" if not v else "completed"
    exc = None
    try:
        app.apply_to(paths, logger=False, show_progress=False)
    except Exception as e:  # noqa
        exc = f"{type(e).__name__}: {e}"[:200]
    got = {str(m.unique_id).replace(".fasta", ""): "completed" for m in ds.completed}
    got.update({os.path.basename(str(m.unique_id)).replace(".json", ""): "not_completed" for m in ds.not_completed})
    if exc or got != alone:
        out = new_outcome()
        add_failure(out, "spec", "apply_to raises / differs from app(x) alone when a record has a type the writer rejects (the writer's main is "
                    "called without the type check that __call__ applies)", dict(kind="writer_type", **w), alone, dict(exc=exc, store=got),
                    sig="apply_to-raises:writer-type-check" if exc else "writer-type:store-differs")
        return out["failures"][0]
    return None


def _regression_witnesses(ctx, out):
    """the witnesses of the FIXED findings are permanent regression tests: each is replayed on the real code first, so that a
    regression is reported as a VIOLATION whose replay is exactly the old witness"""
    import json as _json

    from .common import VERIF as _V

    fp = _V / "known_findings.d" / f"{PROP}.json"
    if not fp.exists():
        return
    for k in _json.loads(fp.read_text()).get("findings", []):
        if k.get("status") != "fixed" or "witness" not in k:
            continue
        out["evaluations"] += 1
        bump(out, "regression_witness", k["id"])
        f = check_witness(ctx, k["witness"])
        if f:
            f = dict(f, what=f"REGRESSION of fixed finding {k['id']} ({k.get('commit')}): " + f["what"])
            f["input"] = dict(f.get("input") or {}, regression_of=k["id"])
            out["failures"].append(f)


def match_finding(f, k):
    if f.get("sig") not in k.get("sigs", []):
        return False
    r = k.get("restrict") or {}
    inp = f.get("input") or {}
    if r.get("kind") and inp.get("kind") != r["kind"]:
        return False
    return True


def check_witness(ctx, w):
    if w.get("kind") == "writer_type":
        return _writer_type_case(ctx, dict(n=w["n"], bad=w["bad"]))
    if w.get("kind") == "custom_id":
        return _custom_id_case(ctx, w)
    if w.get("kind") == "falsy_input":
        return _falsy_input_case(ctx, w)
    if w.get("kind") == "source_inputs":
        return _source_inputs_case(ctx, w)
    if w.get("kind") == "listed_twice":
        spec = dict(loader=dict(rules={w["fail"]: ["raise", 1]}, default=["ret", 2, 0]), steps=[], sleeps={}, members=w["members"], outcome={})
        first = run_apply(ctx, "wit_lt", spec, w["members"][: w["first"]], w["store"], False, 2)
        res = run_apply(ctx, "wit_lt", spec, w["members"], w["store"], False, 2, outdir=first["outdir"], mode="a")
        if res["session_dup"]:
            out = new_outcome()
            add_failure(out, "spec", "the data store returned by apply_to lists a member twice (on disk it exists once)", dict(w, resumed=True), [],
                        res["session_dup"], sig=f"listed-twice:{w['store']}:resumed:not_completed")
            return out["failures"][0]
    return None


def replay(ctx, data):
    f = data.get("failing_input") or {}
    inp = f.get("input") or {}
    if inp.get("kind") == "writer_type":
        r = _writer_type_case(ctx, dict(n=inp["n"], bad=inp["bad"]))
        print(r)
        return r is not None
    if inp.get("kind") in ("falsy_input", "source_inputs", "custom_id"):
        r = check_witness(ctx, inp)
        print(r)
        return r is not None
    if inp.get("kind") in ("as_completed", "apply_form", "qualified_id"):
        from .c14_forms import replay_case

        r = replay_case(ctx, inp)
        print(r)
        return r is not None
    if inp.get("kind") == "parallel_direct":
        exp, got = _parallel_case(inp["fn"], inp["n"], inp["max_workers"], inp["chunksize"], inp.get("consumer_delay", 0.0), inp.get("equal_durations", False))
        print("expected", exp, "got", got)
        return exp != got
    if inp.get("kind") == "generated":
        spec = inp["spec"]
        spec = dict(loader=dict(rules={int(k): v for k, v in spec["loader"]["rules"].items()}, default=spec["loader"]["default"]),
                    steps=[dict(flavour=s["flavour"], rules={int(k): v for k, v in s["rules"].items()}, default=s["default"]) for s in spec["steps"]],
                    sleeps={int(k): v for k, v in spec["sleeps"].items()}, members=inp["members"], outcome={}, fn_step=bool(spec.get("fn_step")),
                    consumer_delay=spec.get("consumer_delay", 0.0))
        cur = spec
        if inp.get("spec2"):
            s2 = inp["spec2"]
            cur = dict(spec, loader=dict(rules={int(k): v for k, v in s2["loader"]["rules"].items()}, default=s2["loader"]["default"]),
                       steps=[dict(flavour=x["flavour"], rules={int(k): v for k, v in x["rules"].items()}, default=x["default"]) for x in s2["steps"]])
        if inp.get("first"):
            first = run_apply(ctx, "replay", spec, inp["first"], inp["store"], False, inp["max_workers"])
            res = run_apply(ctx, "replay", cur, inp["members"], inp["store"], inp["parallel"], inp["max_workers"], outdir=first["outdir"], mode="a",
                            par_kw=inp.get("par_kw"))
        else:
            res = run_apply(ctx, "replay", spec, inp["members"], inp["store"], inp["parallel"], inp["max_workers"], par_kw=inp.get("par_kw"))
        base = ctx.scratch / "c14_replay"
        expected = {m: canon_value(build_inner(cur, False)(str(base / "in" / f"{_ident(m)}.txt"))) for m in inp["members"]}
        out = new_outcome()
        ok = _compare_run(out, "spec", spec, inp["members"], res, expected, "replay", inp, "")
        for x in out["failures"]:
            print(x["what"], x["expected"], x["got"])
        return not ok
    return False
