"""C16 — Nested-model initialisation and optimisation never lose likelihood.

correspondence: the Lean model `Model/Optimiser.lean` (driver `drv_c16`) against
  (A) the REAL `cogent3.maths.optimisers.maximise` driven by scripted optimisers injected through the
      module attributes `GlobalOptimiser` / `LocalOptimiser` (the adversary of the theorems),
  (B) the real Powell / simulated-annealing optimisers on random smooth objectives (recorded traces),
  (C) the start-vector clamp of `Calculator.optimise`,
  (D) `_get_param_mapping` / `_ParamProjection.update_param_rules` on generated coordinate families and on
      the coordinate dicts of the named nucleotide models.
spec_check: property-level differential on real alignments (nested initialisation reproduces lnL, optimise
  never lowers lnL in any mode / evaluation limit, hypothesis LR >= 0, parameters within bounds).
"""
from __future__ import annotations

import builtins
import itertools
import math
import warnings
from fractions import Fraction

from .common import LEAN, REPO, SRC, VERIF, add_failure, bump, new_outcome, rat, unrat

PROP = "C16"
# Proofs/OptGen.lean is listed as well: its theorems are the obligations "generated definition = hand model", and a source
# edit that breaks one of them is then reported by name
PROPS_FILES = ["CogentModel/Props/C16.lean", "CogentModel/Props/C16Link.lean", "CogentModel/Proofs/OptGen.lean",
               "CogentModel/Props/C16Clamp.lean", "CogentModel/Props/C16Gen.lean"]
LEAN_TARGETS = ["CogentModel.Props.C16", "CogentModel.Props.C16Link", "CogentModel.Proofs.OptGen", "CogentModel.Props.C16Clamp",
                "CogentModel.Props.C16Gen"]
DRIVER = "drv_c16"
TRUSTED = [
    "hand-written model lean/CogentModel/Model/Optimiser.lean of maximise's wrapper stack (limited_use, "
    "bounded_function, bounds_exception_catching_function, first evaluation, finally: get_best), of the "
    "Calculator.optimise start clamp and of _get_param_mapping/_ParamProjection; tied by the scripted-optimiser "
    "correspondence against the real maximise (returned x, eval count, exact call sequence, values shown to the "
    "optimiser, exceptions) and against the real projection functions",
    "the optimisers (Powell, SimulatedAnnealing) are NOT modelled: the theorems quantify over every finite query "
    "sequence, so nothing about them is trusted",
    "translator/c16_opt2lean.py (ast only) + lean/CogentModel/Model/OptGenPrelude.lean (the state/exception monad the "
    "generated `do` blocks run in: state survives a raise, try/except, try/finally, one objective call = one log entry): "
    "Gen/C16Opt.lean is rewritten on every run from the CURRENT source of limited_use, bounded_function, "
    "bounds_exception_catching_function, maximise, Calculator.optimise, ParameterController.optimise and "
    "Props/C16Gen.lean proves each generated definition equal to the hand model for all arguments; translator "
    "conventions B1-B5 (dead display/check-pointing names dropped, numpy.array/.copy() identity, None where an array is "
    "required raises at the binding, hoisted locals, warnings counted) are trusted",
    "definition of cellRate (exchangeability at a cell = product of the values of the rules covering it; parameters "
    "without a rule and the reference cell contribute 1)",
]
ASSUMPTIONS = [
    "the objective is a function of the parameter vector (the Calculator's cache consistency is property C07)",
    "float comparison is modelled by a linear order plus a separate NaN result; rounding inside the likelihood "
    "calculation is outside the model (the real-data differential uses tolerance 1e-9*max(1,|lnL|))",
    "the step from equal exchangeability matrices to equal Q and equal likelihood is C05/C02; here it is exercised "
    "on real alignments, not proved",
    "rich likelihood functions handed to initialise_from_nested are fresh (rate parameters at their default 1.0)",
]

TOL = 1e-9
GEN_FILE = LEAN / "CogentModel" / "Gen" / "C16Opt.lean"


# --------------------------------------------------------------------------
# translator step: the optimiser wrapper stack, re-translated from the current source on every run
# --------------------------------------------------------------------------
def generate(ctx):
    import json
    import sys

    sys.path.insert(0, str(VERIF))
    from translator import c16_opt2lean as T

    try:
        lean, info, problems = T.translate(SRC)
    except T.TranslationError as e:
        return [f"c16_opt2lean: {e}"]
    ctx.notes.append("c16_opt2lean: " + json.dumps(info)[:600])
    if lean is not None and T.write_if_changed(GEN_FILE, lean):
        ctx.notes.append("Gen/C16Opt.lean was rewritten (the optimiser stack's source differs from the last generated text)")
    return [f"c16_opt2lean: {p}" for p in problems]


def _tol(v):
    return TOL * max(1.0, abs(v))


# --------------------------------------------------------------------------
# (A) scripted optimisers against the real maximise
# --------------------------------------------------------------------------
ARITH = ["ArithmeticError", "ZeroDivisionError", "FloatingPointError", "OverflowError"]


def _gen_scripted(rng):
    d = rng.choice([1, 1, 2, 2, 3])
    bounded = rng.random() < 0.85
    lo = [rng.choice([0.0, 0.0, -1.0, None]) for _ in range(d)]
    hi = [rng.choice([4.0, 4.0, 3.0, None]) for _ in range(d)]
    coord_vals = [-2.0, -1.0, -0.5, 0.0, 0.5, 1.0, 2.0, 3.0, 3.5, 4.0, 4.5, 6.0]
    npts = rng.randint(2, 9)
    pts = []
    seen = set()
    while len(pts) < npts:
        if rng.random() < 0.7:  # mostly inside / on the bounds
            p = tuple(rng.choice([0.0, 0.5, 1.0, 2.0, 3.0, 4.0]) for _ in range(d))
        else:
            p = tuple(rng.choice(coord_vals) for _ in range(d))
        if p not in seen:
            seen.add(p)
            pts.append(list(p))
    finite_vals = [-2.0, -1.0, 0.0, 1.0, 1.0, 2.0, 2.0, 3.0]
    res = []
    for _ in pts:
        r = rng.random()
        if r < 0.06:
            res.append("oob")
        elif r < 0.12:
            res.append("arith")
        elif r < 0.135:
            res.append("fatal")
        elif r < 0.18:
            res.append("nan")
        elif r < 0.23:
            res.append("-inf")
        elif r < 0.255:
            res.append("+inf")
        elif r < 0.8:
            res.append(rng.choice(finite_vals))
        else:
            res.append(round(rng.uniform(-5, 5), 3))
    # start: mostly a valid point
    def valid(i):
        return isinstance(res[i], float) and _in_bounds(pts[i], lo, hi, bounded)

    good = [i for i in range(npts) if valid(i)]
    x0 = rng.choice(good) if good and rng.random() < 0.85 else rng.randrange(npts)
    nq = rng.choice([0, 1, 2, 3, 5, 8, 12])
    qs = [rng.randrange(npts) for _ in range(nq)]
    r = rng.random()
    if r < 0.3:
        me = None
    elif r < 0.4:
        me = 0 if rng.random() < 0.3 else 1
    else:
        me = rng.randint(1, nq + 2)
    local = rng.choice([True, False, None])
    split = rng.randint(0, nq) if local is None else None
    return dict(
        d=d, bounded=bounded, lower=lo, upper=hi, pts=pts, res=res, x0=x0, qs=qs, max_evaluations=me,
        local=local, split=split, scalar=(d == 1 and rng.random() < 0.1),
    )


def _in_bounds(p, lo, hi, bounded):
    if not bounded:
        return True
    return all((l is None or l <= v) and (h is None or v <= h) for v, l, h in zip(p, lo, hi))


def _model_req(case):
    def enc(r):
        return r if isinstance(r, str) else rat(r)

    return (
        "maximise",
        dict(
            pts=[[rat(v) for v in p] for p in case["pts"]],
            res=[enc(r) for r in case["res"]],
            lower=[None if v is None else rat(v) for v in case["lower"]],
            upper=[None if v is None else rat(v) for v in case["upper"]],
            bounded=case["bounded"], x0=case["x0"], qs=case["qs"], max_evaluations=case["max_evaluations"],
        ),
    )


def _fshow(v):
    if isinstance(v, str):
        return v
    v = float(v)
    if math.isnan(v):
        return "nan"
    if math.isinf(v):
        return "-inf" if v < 0 else "+inf"
    return rat(v)


def _run_real_scripted(case):
    """runs the real maximise with scripted optimisers; returns the canonical observation"""
    import numpy

    from cogent3.maths import optimisers as O

    pts = case["pts"]
    index = {tuple(p): i for i, p in enumerate(pts)}
    calls, shown = [], []

    def f(x):
        x = numpy.atleast_1d(numpy.asarray(x, float))
        i = index[tuple(float(v) for v in x)]
        calls.append(i)
        r = case["res"][i]
        if r == "oob":
            raise O.ParameterOutOfBoundsError("scripted")
        if r == "arith":
            raise getattr(builtins, ARITH[i % 4])("scripted")
        if r == "fatal":
            raise RuntimeError("scripted")
        if r == "nan":
            return float("nan")
        if r == "-inf":
            return -numpy.inf
        if r == "+inf":
            return numpy.inf
        return r

    qs = case["qs"]
    if case["local"] is None:
        parts = {"G": qs[: case["split"]], "L": qs[case["split"] :]}
    elif case["local"]:
        parts = {"G": None, "L": qs}
    else:
        parts = {"G": qs, "L": None}
    used = []

    def mk(tag):
        class Scripted:
            def __init__(self, *a, **kw):
                pass

            def maximise(self, fn, x, **kw):
                used.append(tag)
                buf = numpy.array(x, float)  # ONE buffer mutated in place, as real optimisers do
                for q in parts[tag]:
                    buf[:] = pts[q]
                    shown.append(_fshow(fn(buf)))
                return buf

        return Scripted

    og, ol = O.GlobalOptimiser, O.LocalOptimiser
    O.GlobalOptimiser, O.LocalOptimiser = mk("G"), mk("L")
    obs = {}
    try:
        lo = hi = None
        if case["bounded"]:
            lo = numpy.array([-numpy.inf if v is None else v for v in case["lower"]])
            hi = numpy.array([numpy.inf if v is None else v for v in case["upper"]])
        xinit = pts[case["x0"]][0] if case["scalar"] else list(pts[case["x0"]])
        with warnings.catch_warnings():
            warnings.simplefilter("ignore")
            try:
                x, evals = O.maximise(
                    f, xinit, bounds=(lo, hi) if case["bounded"] else None, local=case["local"],
                    max_evaluations=case["max_evaluations"], return_eval_count=True, show_progress=False,
                )
                x = numpy.atleast_1d(x)
                obs = dict(kind="done", x=index.get(tuple(float(v) for v in x), -1), evals=int(evals), exc=None)
                if case["scalar"] and numpy.asarray(x).shape != (1,):
                    obs["x"] = -2
            except ValueError:
                obs = dict(kind="ValueError")
            except O.MaximumEvaluationsReached as e:
                obs = dict(kind="exc", exc="MaximumEvaluationsReached", n=int(e.args[0]))
            except RuntimeError:
                obs = dict(kind="exc", exc="fatal")
    finally:
        O.GlobalOptimiser, O.LocalOptimiser = og, ol
    obs["calls"] = calls
    obs["shown"] = shown
    return obs


def _model_obs(reply):
    """canonical observation predicted by the model"""
    fin = reply["final"]
    k = fin["kind"]
    calls = reply["calls"]
    shown = reply["shown"]
    if k == "ValueError":
        return dict(kind="ValueError", calls=calls, shown=shown)
    if k == "raised":
        e = fin["exc"]
        o = dict(kind="exc", exc=e["exc"], calls=calls, shown=shown)
        if "n" in e:
            o["n"] = e["n"]
        return o
    if k == "done":
        if fin["exc"] is None:
            return dict(kind="done", x=fin["x"], evals=fin["evals"], exc=None, calls=calls, shown=shown)
        e = fin["exc"]
        o = dict(kind="exc", exc=e["exc"], calls=calls, shown=shown)
        if "n" in e:
            o["n"] = e["n"]
        return o
    return dict(kind=k, calls=calls, shown=shown)


def _corr_scripted(ctx, out):
    rng = ctx.subrng("scripted")
    cases = [_gen_scripted(rng) for _ in range(ctx.budget(6000, 40000))]
    # a few hand-made corner cases: tie (first maximum wins), best in the middle, limit exactly reached
    base = dict(d=1, bounded=True, lower=[0.0], upper=[4.0], scalar=False, split=None, local=True)
    cases += [
        dict(base, pts=[[1.0], [2.0], [3.0]], res=[1.0, 5.0, 5.0], x0=0, qs=[1, 2, 0], max_evaluations=None),
        dict(base, pts=[[1.0], [2.0], [3.0]], res=[1.0, 5.0, 2.0], x0=0, qs=[1, 2, 2], max_evaluations=3),
        dict(base, pts=[[0.0], [4.0], [5.0]], res=[1.0, 2.0, 9.0], x0=0, qs=[1, 2], max_evaluations=None),
        dict(base, pts=[[1.0], [2.0]], res=[1.0, "+inf"], x0=0, qs=[1, 0], max_evaluations=None),
        dict(base, pts=[[1.0], [2.0]], res=[1.0, 3.0], x0=0, qs=[1], max_evaluations=0),
        dict(base, pts=[[1.0], [2.0]], res=[3.0, 1.0], x0=0, qs=[1, 1, 1], max_evaluations=2, local=None, split=1),
    ]
    replies = ctx.driver.batch([_model_req(c) for c in cases])
    for case, rep in zip(cases, replies):
        out["evaluations"] += 1
        if "error" in rep:
            add_failure(out, "corr", "driver error (maximise)", case, None, rep, confirmed=False)
            continue
        want = _model_obs(rep)
        got = _run_real_scripted(case)
        if want != got:
            add_failure(out, "corr", "maximise wrapper: model differs from real maximise", case, want, got, confirmed=False)
            continue
        kind = got["kind"] if got["kind"] != "exc" else "exc:" + got["exc"]
        bump(out, "scripted_outcome", kind)
        bump(out, "scripted_max_evaluations", "None" if case["max_evaluations"] is None else min(case["max_evaluations"], 10))
        bump(out, "scripted_mode", {True: "local", False: "global", None: "global+local"}[case["local"]])
        for r in set(map(str, case["res"])):
            if r in ("oob", "arith", "fatal", "nan", "-inf", "+inf"):
                bump(out, "scripted_objective_has", r)
        n_oob = sum(1 for q in case["qs"] if not _in_bounds(case["pts"][q], case["lower"], case["upper"], case["bounded"]))
        bump(out, "scripted_oob_queries", min(n_oob, 5))
        if len(got["calls"]) >= 3:
            out["nontrivial"].add(("scripted", str(case)))
        if len(out["samples"]) < 3 and len(got["calls"]) >= 4 and kind != "done":
            out["samples"].append(dict(case=case, observed=got))


# --------------------------------------------------------------------------
# (B) the real optimisers: recorded traces replayed through the model
# --------------------------------------------------------------------------
def _corr_real_optimisers(ctx, out):
    import numpy

    from cogent3.maths import optimisers as O

    rng = ctx.subrng("realopt")
    for it in range(ctx.budget(150, 800)):
        d = rng.choice([1, 2, 3])
        centre = [rng.uniform(0.5, 3.5) for _ in range(d)]
        w = [rng.uniform(0.3, 3.0) for _ in range(d)]
        cross = rng.uniform(-0.3, 0.3)
        hole = rng.random() < 0.3  # a region where the objective raises ArithmeticError
        lo = numpy.array([0.0] * d)
        hi = numpy.array([4.0] * d)
        rec_pts, rec_idx, calls, vals = [], {}, [], {}

        def f(x, centre=centre, w=w, cross=cross, hole=hole, d=d):
            key = tuple(float(v) for v in x)
            if key not in rec_idx:
                rec_idx[key] = len(rec_pts)
                rec_pts.append(list(key))
            i = rec_idx[key]
            calls.append(i)
            if hole and 1.9 < key[0] < 2.1:
                vals[i] = "arith"
                raise ArithmeticError("hole")
            v = -sum(wi * (xi - ci) ** 2 for wi, xi, ci in zip(w, key, centre))
            if d > 1:
                v += cross * key[0] * key[1]
            v = float(v)
            vals[i] = v
            return v

        x0 = [rng.uniform(0.05, 3.95) for _ in range(d)]
        if hole and 1.85 < x0[0] < 2.15:
            x0[0] = 1.0
        local = rng.choice([True, True, None, False])
        me = rng.choice([None, 1, 2, 3, 5, 8, 13, 21, 40, 80, 200])
        tol = rng.choice([1e-6, 1e-3, 1e-1])
        kw = {} if local else dict(seed=rng.randrange(10**6))
        exc = None
        with warnings.catch_warnings():
            warnings.simplefilter("ignore")
            try:
                x, evals = O.maximise(f, x0, bounds=(lo, hi), local=local, max_evaluations=me, tolerance=tol,
                                      return_eval_count=True, show_progress=False, **kw)
            except O.MaximumEvaluationsReached as e:
                exc = int(e.args[0])
        out["evaluations"] += 1
        case = dict(x0=x0, local=local, max_evaluations=me, tolerance=tol, d=d, n_calls=len(calls))
        # model-level claims on the recorded trace
        n_counted = exc if exc is not None else int(evals)
        body, tail = calls[:n_counted], calls[n_counted:]
        fin = [(vals[i], -k) for k, i in enumerate(body) if isinstance(vals[i], float)]
        if not fin:
            add_failure(out, "corr", "real optimiser trace: no counted evaluation", case, None, dict(calls=calls, exc=exc), confirmed=False)
            continue
        best_v, negk = max(fin)
        first_arg = body[-negk]
        problems = []
        if tail != [first_arg]:
            problems.append("the calls after the counted evaluations are not exactly [first argmax of the evaluated points]")
        if exc is None and (tuple(float(v) for v in numpy.atleast_1d(x)) != tuple(rec_pts[first_arg]) or evals != len(body)):
            problems.append("returned x / evals differ from best point / number of calls")
        if me is not None and len(body) > me:
            problems.append("more calls than max_evaluations")
        if any(not all(0.0 <= v <= 4.0 for v in rec_pts[i]) for i in calls):
            problems.append("objective called out of bounds")
        if vals[first_arg] < vals[body[0]]:
            problems.append("worse than start")
        # and the recorded trace through the Lean model
        qs = body[1:] + ([body[0]] if exc is not None else [])
        rep = ctx.driver.batch([("maximise", dict(
            pts=[[rat(v) for v in p] for p in rec_pts], res=[vals[i] if isinstance(vals[i], str) else rat(vals[i]) for i in range(len(rec_pts))],
            lower=[rat(0.0)] * d, upper=[rat(4.0)] * d, bounded=True, x0=body[0], qs=qs, max_evaluations=me))])[0]
        want = _model_obs(rep)
        if want.get("calls") != calls:
            problems.append("model call sequence differs")
        if exc is None and (want["kind"] != "done" or want.get("evals") != evals or want.get("x") != first_arg):
            problems.append(f"model final {want['kind']} differs from real return")
        if exc is not None and (want["kind"] != "exc" or want.get("n") != exc):
            problems.append("model exception differs")
        if problems:
            add_failure(out, "corr", "real optimiser trace: " + "; ".join(problems), case, want, dict(calls=calls[-6:], exc=exc), confirmed=False)
            continue
        bump(out, "realopt_mode", {True: "local", False: "global", None: "global+local"}[local])
        bump(out, "realopt_max_evaluations", str(me))
        bump(out, "realopt_outcome", "MaximumEvaluationsReached" if exc is not None else "returned")
        if first_arg != body[-1]:
            bump(out, "realopt_best_is_not_last_query")
            out["nontrivial"].add(("realopt", it))
        if len(out["samples"]) < 5 and exc is not None and first_arg != body[-1]:
            out["samples"].append(dict(case=case, best=rec_pts[first_arg], best_value=vals[first_arg], evals=exc))


# --------------------------------------------------------------------------
# (C) Calculator.optimise clamp
# --------------------------------------------------------------------------
def _corr_clamp(ctx, out):
    import numpy

    from cogent3.recalculation import calculation as C

    rng = ctx.subrng("clamp")
    cases = []
    for _ in range(ctx.budget(400, 5000)):
        d = rng.randint(0, 4)
        lo = [rng.choice([0.0, 1e-6, -1.0, None]) for _ in range(d)]
        hi = [rng.choice([50.0, 10.0, 1.0, None]) for _ in range(d)]
        x = []
        for l, h in zip(lo, hi):
            r = rng.random()
            base = rng.uniform(0.0 if l is None else l, 1.0 if h is None else h)
            if r < 0.25 and l is not None:  # just below the lower bound: inside / outside allclose
                x.append(l - rng.choice([0.0, 1e-12, 4e-9, 1e-7, 1e-3]) * rng.choice([1, 1, -1]))
            elif r < 0.5 and h is not None:
                x.append(h + rng.choice([0.0, 1e-12, 1e-9, 4e-9, 1e-6, 1e-4, 1e-2]) * rng.choice([1, 1, -1]))
            else:
                x.append(base)
        cases.append((x, lo, hi))
    seen = {}

    class Fake:
        optimised = False

        def __init__(self, x, lo, hi):
            self.x, self.lo, self.hi = x, lo, hi

        def get_value_array(self):
            return list(self.x)

        def get_bounds_vectors(self):
            return (numpy.array([-numpy.inf if v is None else v for v in self.lo], float),
                    numpy.array([numpy.inf if v is None else v for v in self.hi], float))

    orig = C.maximise
    C.maximise = lambda f, x, bounds, **kw: seen.update(x=[float(v) for v in x], b=bounds)
    try:
        real = []
        for x, lo, hi in cases:
            seen.clear()
            C.Calculator.optimise(Fake(x, lo, hi))
            real.append(list(seen["x"]))
    finally:
        C.maximise = orig
    reqs = [("clamp", dict(x=[rat(v) for v in x], lower=[None if v is None else rat(v) for v in lo],
                           upper=[None if v is None else rat(v) for v in hi], rtol=rat(Fraction(1, 100000)), atol=rat(Fraction(1, 10**8))))
            for x, lo, hi in cases]
    for (x, lo, hi), got, rep in zip(cases, real, ctx.driver.batch(reqs)):
        out["evaluations"] += 1
        want = [float(unrat(v)) for v in rep["x"]]
        if want != got:
            add_failure(out, "corr", "Calculator.optimise clamp: model differs", dict(x=x, lower=lo, upper=hi), want, got, confirmed=False)
            continue
        # `clampX` = what the TRANSLATED Calculator.optimise hands to maximise (proved in Proofs/OptGen.lean), evaluated by the
        # driver over the numpy-mask list environment of Model/OptGenClamp.lean (selL / putL / allcloseL): this ties the
        # `MaskLaws` reading of `x[m]`, `x[m] = v`, `a > b`, `allclose` (Props/C16Clamp.lean) to the real numpy behaviour
        gen = None if rep.get("gen_x") is None else [float(unrat(v)) for v in rep["gen_x"]]
        if gen != got:
            add_failure(out, "corr", "Calculator.optimise clamp: translated clamp (clampX on the numpy-mask list environment) "
                        "differs from the real start vector", dict(x=x, lower=lo, upper=hi), gen, got, confirmed=False)
            continue
        bump(out, "clamp_generated_agrees", True)
        # (audit) the model's `inBounds` (conclusion of start_clamp_in_bounds) against bounded_function's own test
        lo_a = numpy.array([-numpy.inf if v is None else v for v in lo], float)
        hi_a = numpy.array([numpy.inf if v is None else v for v in hi], float)
        g = numpy.array(got, float)
        real_in = bool(numpy.all(numpy.logical_and(lo_a <= g, g <= hi_a)))
        if real_in != rep["in_bounds"]:
            add_failure(out, "corr", "inBounds: model differs from bounded_function's test", dict(x=x, lower=lo, upper=hi), rep["in_bounds"], real_in, confirmed=False)
            continue
        bump(out, "clamp", "changed" if got != x else "unchanged")
        bump(out, "clamp_in_bounds_after", rep["in_bounds"])
        if got != x:
            out["nontrivial"].add(("clamp", tuple(x), str(lo), str(hi)))


# --------------------------------------------------------------------------
# (D) parameter mapping / projection
# --------------------------------------------------------------------------
REF = "ref_cell"


def _gen_family(rng):
    """(rich, simple) coordinate dicts name -> set of cells; mostly nested, sometimes arbitrary"""
    dim = rng.choice([3, 4])
    cells = [(i, j) for i in range(dim) for j in range(dim) if i != j]
    style = rng.random()

    def with_ref(d):
        covered = set().union(*d.values()) if d else set()
        d = dict(d)
        d[REF] = set(cells) - covered
        return d

    if style < 0.65:
        # simple: disjoint (sometimes overlapping) blocks; rich: refinement of the simple blocks + of the ref cell
        pool = cells[:]
        rng.shuffle(pool)
        ks = rng.randint(0, 3)
        simple = {}
        for k in range(ks):
            n = rng.randint(1, max(1, len(pool) // 2))
            simple[f"s{k}"] = set(pool[:n])
            pool = pool[n:] if rng.random() < 0.85 else pool[n // 2 :]
            if not pool:
                break
        simple = with_ref(simple)
        rich = {}
        r = 0
        for name, cs in simple.items():
            cs = sorted(cs)
            rng.shuffle(cs)
            if name == REF and rng.random() < 0.3:
                continue
            while cs:
                n = rng.randint(1, len(cs))
                if name == REF and n == len(cs) and rng.random() < 0.8 and len(cs) > 1:
                    n = len(cs) - 1  # leave something for the rich reference cell
                piece, cs = cs[:n], cs[n:]
                if name == REF and not cs:
                    break
                rich[f"r{r}"] = set(piece)
                r += 1
                if rng.random() < 0.25:
                    break
        rich = with_ref(rich)
        return rich, simple
    # arbitrary families (ties, non-nested, assertion failures)
    def arb(prefix, k):
        d = {}
        for i in range(k):
            d[f"{prefix}{i}"] = set(rng.sample(cells, rng.randint(0 if rng.random() < 0.1 else 1, min(5, len(cells)))))
        return with_ref(d) if rng.random() < 0.8 else d

    return arb("r", rng.randint(0, 4)), arb("s", rng.randint(0, 3))


def _coords_req(d):
    """dict name->set -> list in dict order, cells in the set's own iteration order"""
    return [[k, [[int(i), int(j)] for (i, j) in list(v)]] for k, v in d.items()]


def _real_mapping(rich, simple):
    from cogent3.evolve.likelihood_function import _get_param_mapping

    try:
        m = _get_param_mapping({k: set(v) for k, v in rich.items()}, {k: set(v) for k, v in simple.items()})
    except AssertionError:
        return {"err": "AssertionError"}
    except ValueError:
        return {"err": "ValueError"}
    return {sp: sorted(m.get(sp, ())) for sp in simple}


class _FakeModel:
    def __init__(self, coords):
        self._c = coords

    def get_param_matrix_coords(self, include_ref_cell=False):
        return {k: set(v) for k, v in self._c.items() if include_ref_cell or k != REF}


def _real_project(rich, simple, rules, same, pi):
    from cogent3.evolve.likelihood_function import _ParamProjection

    try:
        pp = _ParamProjection(_FakeModel(simple), _FakeModel(rich), pi, same=same)
        # the set iteration order of the rich coords the projection sees
        order = {k: list(v) for k, v in pp._rich_coords.items()}
        new = pp.update_param_rules([dict(r) for r in rules])
    except AssertionError:
        return {"err": "AssertionError"}, None
    except ValueError:
        return {"err": "ValueError"}, None
    except (IndexError, KeyError):
        return {"err": "IndexError"}, None
    return [(r["par_name"], r["init"] if r["par_name"] not in ("mprobs", "length") else r.get("init", r.get("value"))) for r in new], order


def _named_coords():
    from cogent3 import get_model

    res = {}
    for name in NUC_MODELS:
        res[name] = get_model(name).get_param_matrix_coords(include_ref_cell=True)
    return res


NUC_MODELS = ["JC69", "F81", "K80", "HKY85", "TN93", "GTR", "ssGN", "GN"]
STATIONARY = {"JC69", "F81", "K80", "HKY85", "TN93", "GTR"}
# mathematically nested pairs of named nucleotide models (null, alt).  Stationary -> ssGN is nested only for
# strand-symmetric motif probabilities (JC69/K80 have equal ones); every stationary model is nested in GN.
NESTED_NUC = [
    ("JC69", "F81"), ("JC69", "K80"), ("JC69", "HKY85"), ("JC69", "TN93"), ("JC69", "GTR"),
    ("F81", "HKY85"), ("F81", "TN93"), ("F81", "GTR"), ("K80", "TN93"), ("K80", "GTR"),
    ("HKY85", "TN93"), ("HKY85", "GTR"), ("TN93", "GTR"),
    ("JC69", "GN"), ("F81", "GN"), ("K80", "GN"), ("HKY85", "GN"), ("TN93", "GN"), ("GTR", "GN"),
    ("JC69", "ssGN"), ("K80", "ssGN"), ("ssGN", "GN"),
]


def _corr_mapping(ctx, out):
    rng = ctx.subrng("mapping")
    fams = [_gen_family(rng) for _ in range(ctx.budget(1500, 20000))]
    named = _named_coords()
    named_pairs = [(a, b) for a in NUC_MODELS for b in NUC_MODELS if a != b]
    for a, b in named_pairs:
        fams.append((named[b], named[a]))  # rich = b, simple = a
    n_named = len(named_pairs)
    reqs = [("mapping", dict(rich=_coords_req(r), simple=_coords_req(s), ref=REF)) for r, s in fams]
    reps = ctx.driver.batch(reqs)
    proj_reqs, proj_real, proj_meta = [], [], []
    for idx, ((rich, simple), rep) in enumerate(zip(fams, reps)):
        out["evaluations"] += 1
        is_named = idx >= len(fams) - n_named
        inp = dict(rich={k: sorted(v) for k, v in rich.items()}, simple={k: sorted(v) for k, v in simple.items()})
        real = _real_mapping(rich, simple)
        want = rep if "err" in rep else {sp: sorted(v) for sp, v in rep["map"]}
        if "error" in rep or real != want:
            add_failure(out, "corr", "_get_param_mapping: model differs", inp, want, real, confirmed=False)
            continue
        kind = real.get("err", "ok") if isinstance(real, dict) and "err" in real else "ok"
        bump(out, "mapping_outcome", kind)
        if kind == "ok":
            bump(out, "mapping_nested_predicate", rep["nested"])
            if any(len(v) > 0 for v in real.values()):
                out["nontrivial"].add(("mapping", str(inp)))
        if is_named:
            a, b = named_pairs[idx - (len(fams) - n_named)]
            if (a, b) in NESTED_NUC and a in STATIONARY and b in STATIONARY and not rep.get("nested"):
                add_failure(out, "corr", "Nested predicate false on a mathematically nested named pair", dict(null=a, alt=b), True, rep, confirmed=False)
            bump(out, "named_pair_nested", f"{a}<{b}:{rep.get('nested', rep.get('err'))}")
        # projection of rules
        if kind != "ok" and rng.random() < 0.7:
            continue
        same = rng.random() < 0.6
        dim = 4
        pi = [rng.choice([0.1, 0.2, 0.25, 0.3, 0.4]) for _ in range(dim)]
        rules = []
        for sp in simple:
            if sp == REF:
                continue
            if rng.random() < 0.9:
                v = rng.choice([0.5, 1.0, 2.0, 3.25, 7.0])
                if rng.random() < 0.2:
                    rules.append(dict(par_name=sp, value=v, is_constant=True))
                elif rng.random() < 0.2:  # per-edge rules of the same parameter
                    rules.append(dict(par_name=sp, init=v, edges=["a"]))
                    rules.append(dict(par_name=sp, init=rng.choice([0.5, 4.0]), edges=["b"]))
                else:
                    rules.append(dict(par_name=sp, init=v))
        if rng.random() < 0.5:
            rules.insert(0, dict(par_name="length", init=0.125, edges=["a"]))
        realp, order = _real_project(rich, simple, rules, same, pi)
        rich_req = _coords_req(rich) if order is None else [[k, [[int(i), int(j)] for i, j in order[k]]] for k in rich]
        proj_reqs.append(("project", dict(
            rich=rich_req, simple=_coords_req(simple), ref=REF, **{"pass": ["mprobs", "length"]},
            rules=[[r["par_name"], rat(r.get("init", r.get("value")))] for r in rules], same=same, pi=[rat(p) for p in pi])))
        proj_real.append(realp)
        proj_meta.append((inp, same, rules, kind))
    for (cmd, rq), realp, (inp, same, rules, kind), rep in zip(proj_reqs, proj_real, proj_meta, ctx.driver.batch(proj_reqs)):
        out["evaluations"] += 1
        case = dict(inp, same=same, rules=rules)
        if "err" in rep or isinstance(realp, dict):
            if not (isinstance(realp, dict) and rep.get("err") == realp.get("err")):
                add_failure(out, "corr", "_ParamProjection: error behaviour differs", case, rep, realp, confirmed=False)
            else:
                bump(out, "projection_outcome", rep["err"])
            continue
        want = sorted((n, unrat(v)) for n, v in rep["rules"])
        got = sorted((n, v) for n, v in realp)
        ok = len(want) == len(got) and all(a[0] == b[0] and abs(float(a[1]) - b[1]) <= 1e-12 * max(1, abs(b[1])) for a, b in zip(want, got))
        if not ok:
            add_failure(out, "corr", "_ParamProjection.update_param_rules: model differs", case, [(n, float(v)) for n, v in want], got, confirmed=False)
            continue
        bump(out, "projection_outcome", "same" if same else "not_same")
        if same:
            bump(out, "projection_rates_agree", rep["rates_agree"])
        if len(got) > 1:
            out["nontrivial"].add(("project", str(case)))


# --------------------------------------------------------------------------
# (E) update_scoped_rules
# --------------------------------------------------------------------------
def _gen_rules(rng):
    """(rich, null) rule lists as python dicts; mostly well-formed nestings, sometimes arbitrary"""
    edges = rng.choice([["a", "b", "c"], ["a", "b", "c", "dd"], ["Human", "Chimp", "e.0", "x"]])
    pars = rng.choice([["p"], ["p", "q"], ["p", "q", "a"]])  # "a" may collide with an edge name

    def mk(par, scope, v, form=None):
        r = dict(par_name=par)
        r["init" if rng.random() < 0.75 else "value"] = v
        if scope is None:
            if rng.random() < 0.4:
                r["edges"] = None
        elif len(scope) == 1 and (form == "edge" or (form is None and rng.random() < 0.6)):
            r["edge"] = scope[0]
        else:
            r["edges"] = list(scope)
        return r

    val = lambda: rng.choice([0.25, 0.5, 1.0, 2.0, 3.5, 7.0])

    def partition(es):
        es = es[:]
        rng.shuffle(es)
        blocks = []
        while es:
            n = rng.randint(1, len(es))
            blocks.append(sorted(es[:n]))
            es = es[n:]
        return blocks

    rich, null = [], []
    if rng.random() < 0.7:
        for par in pars:
            style = rng.random()
            if style < 0.3:
                nblocks = [None]
            else:
                nblocks = partition(edges)
                if rng.random() < 0.3:
                    nblocks = nblocks[:-1] or nblocks  # some edges not covered by the null
            if rng.random() < 0.85:
                for b in nblocks:
                    null.append(mk(par, b, val()))
            # rich: refinement of the null blocks (or free, or the same)
            rstyle = rng.random()
            if rstyle < 0.25:
                rich.append(mk(par, None, 1.0))
            elif rstyle < 0.5:
                for b in nblocks:
                    rich.append(mk(par, b, 1.0))
            else:
                for b in nblocks:
                    for bb in partition(b if b is not None else edges):
                        rich.append(mk(par, bb, 1.0))
        rng.shuffle(rich)
        rng.shuffle(null)
    else:
        for lst, n in ((rich, rng.randint(0, 5)), (null, rng.randint(0, 5))):
            for _ in range(n):
                k = rng.random()
                scope = None if k < 0.25 else ([] if k < 0.3 else rng.sample(edges, rng.randint(1, len(edges))))
                lst.append(mk(rng.choice(pars), scope, val()))
    return rich, null


def _rule_req(r):
    if "edge" in r and r.get("edges") is None and "edges" not in r:
        edges, single = [r["edge"]], True
    else:
        edges, single = r.get("edges"), False
    return dict(par=r["par_name"], edges=edges, single=single, val=rat(r.get("init", r.get("value"))))


def _rule_canon(r):
    if r.get("edge") is not None:
        scope = [r["edge"]]
    else:
        scope = r.get("edges")
    return (r["par_name"], None if scope is None else sorted(scope), float(r.get("init", r.get("value"))))


def _corr_scoped(ctx, out):
    from copy import deepcopy

    from cogent3.evolve.likelihood_function import update_scoped_rules

    rng = ctx.subrng("scoped")
    cases = [_gen_rules(rng) for _ in range(ctx.budget(2500, 30000))]
    reps = ctx.driver.batch([("scoped", dict(rich=[_rule_req(r) for r in rich], null=[_rule_req(r) for r in null])) for rich, null in cases])
    for (rich, null), rep in zip(cases, reps):
        out["evaluations"] += 1
        try:
            got = sorted((_rule_canon(r) for r in update_scoped_rules(deepcopy(rich), deepcopy(null))), key=repr)
            got = [list(g) for g in got]
        except ValueError:
            got = {"err": "ValueError"}
        except Exception as e:  # anything else is outside the model
            got = {"err": type(e).__name__}
        if "rules" in rep:
            want = sorted(((r["par"], None if r["edges"] is None else sorted(r["edges"]), float(unrat(r["val"]))) for r in rep["rules"]), key=repr)
            want = [list(w) for w in want]
        else:
            want = {"err": rep.get("err", rep.get("error"))}
        if want != got:
            add_failure(out, "corr", "update_scoped_rules: model differs", dict(rich=rich, null=null), want, got, confirmed=False)
            continue
        bump(out, "scoped_outcome", got["err"] if isinstance(got, dict) else "ok")
        # (audit) how often the hypotheses of the scoped-rules theorems hold on the generated lists, and the
        # theorem's conclusion evaluated by the driver whenever the executable hypothesis `wfrB` holds
        bump(out, "scoped_generated_hypothesis", "WF.quirk(all null rules)+wfrB" if rep.get("wfr") and rep.get("quirk_all")
             else "wfrB only" if rep.get("wfr") else "neither")
        if rep.get("wfr") and rep.get("conclusion") is False:
            add_failure(out, "corr", "update_scoped_rules: wfrB holds but the proved conclusion is false in the driver",
                        dict(rich=rich, null=null), True, rep, confirmed=False)
            continue
        if not isinstance(got, dict):
            changed = sum(1 for g in got if g[2] != 1.0)
            bump(out, "scoped_rules_out", min(len(got), 8))
            if changed:
                out["nontrivial"].add(("scoped", str(rich), str(null)))
            if len(out["samples"]) < 12 and len(got) >= 4 and changed >= 3 and rng.random() < 0.05:
                out["samples"].append(dict(rich=rich, null=null, result=got))


# --------------------------------------------------------------------------
# (F) update_scoped_rules on the rule lists the REAL initialise_from_nested passes to it  (audit addition)
# --------------------------------------------------------------------------
def _scope_of(r):
    """(edges, single) exactly as `rule.get("edges", rule.get("edge"))` reads a rule"""
    sc = r.get("edges", r.get("edge"))
    if isinstance(sc, str):
        return [sc], True
    if sc is None:
        return None, False
    return list(sc), False


def _corr_scoped_real(ctx, out):
    """Stream (E) ties `Model/ScopedRules.lean` on GENERATED rule lists only.  Here the arguments and the result of
    `update_scoped_rules` are captured inside the real `LikelihoodFunction.initialise_from_nested` (real
    `get_param_rules()` output after the real `_ParamProjection.update_param_rules`), the model is run on exactly
    those lists, and the driver evaluates the executable hypothesis `wfrB` of `scoped_rules_preserve_values_checked`
    and the original `WF.quirk` clause on them: this is what shows that the theorem's hypothesis is reachable."""
    from copy import deepcopy

    import cogent3.evolve.likelihood_function as L

    rng = ctx.subrng("scoped-real")
    configs = []
    n_rounds = ctx.budget(2, 12)
    for _ in range(n_rounds):
        tree_s, taxa = rng.choice(TREES[1:])
        for kind, label, nm, nr, am, ar in _scoping_cases(rng, tree_s, taxa):
            configs.append((label, nm, nr, am, ar, tree_s, taxa))
        pairs = [p for p in NESTED_NUC if _rate_params(p[0])]
        rng.shuffle(pairs)
        for a, b in pairs[: ctx.budget(8, 16)]:
            variant = rng.choice(["free", "const", "bounded", "edge", "clade", "mixed"])
            tree_s, taxa = rng.choice(TREES[1:])
            nr, ar = _null_variant(rng, variant, a, b, taxa)
            configs.append((f"{_pair_class(a, b)}:{variant}", a, nr, b, ar, tree_s, taxa))
    captured = []
    orig = L.update_scoped_rules

    def spy(rich, null):
        rec = dict(rich=deepcopy(rich), null=deepcopy(null))
        captured.append(rec)
        try:
            res = orig(rich, null)
        except Exception as e:
            rec["err"] = type(e).__name__
            raise
        rec["out"] = deepcopy(res)
        return res

    metas = []
    L.update_scoped_rules = spy
    try:
        for label, nm, nr, am, ar, tree_s, taxa in configs:
            aln = _alignment(taxa, 0, 150)
            import random

            n0 = len(captured)
            try:
                with warnings.catch_warnings():
                    warnings.simplefilter("ignore")
                    null = _mk_lf(nm, tree_s, aln, nr)
                    _random_start(null, random.Random(rng.randrange(10**6)), nm)
                    alt = _mk_lf(am, tree_s, aln, ar)
                    alt.initialise_from_nested(null)
            except Exception as e:
                bump(out, "scoped_real_init", "raised " + type(e).__name__)
            else:
                bump(out, "scoped_real_init", "ok")
            if len(captured) == n0:
                bump(out, "scoped_real_not_reached", label.split(":")[0])
                continue
            metas.append((len(captured) - 1, label, nm, am))
    finally:
        L.update_scoped_rules = orig

    ids = {}

    def vid(v):
        key = repr(sorted((k, float(x)) for k, x in v.items())) if isinstance(v, dict) else repr(float(v))
        return ids.setdefault(key, len(ids))

    def req_rule(r):
        edges, single = _scope_of(r)
        return dict(par=r["par_name"], edges=edges, single=single, val=rat(vid(r.get("init", r.get("value")))))

    def canon_out(r):
        # what update_rule_value wrote: "init" if the rich rule had one, else "value"
        sc = [r["edge"]] if r.get("edge") is not None else r.get("edges")
        return [r["par_name"], None if sc is None else sorted(sc), vid(r["init"] if "init" in r else r.get("value"))]

    reqs = [("scoped", dict(rich=[req_rule(r) for r in captured[i]["rich"]], null=[req_rule(r) for r in captured[i]["null"]]))
            for i, *_ in metas]
    reps = ctx.driver.batch(reqs) if reqs else []
    for (i, label, nm, am), rep in zip(metas, reps):
        out["evaluations"] += 1
        rec = captured[i]
        inp = dict(label=label, null=nm, alt=am, rich_rules=[(r["par_name"],) + tuple(_scope_of(r)) for r in rec["rich"]],
                   null_rules=[(r["par_name"],) + tuple(_scope_of(r)) for r in rec["null"]])
        if "error" in rep:
            add_failure(out, "corr", "driver error (scoped, real rule lists)", inp, None, rep, confirmed=False)
            continue
        if "err" in rec:
            got = {"err": rec["err"]}
        else:
            got = sorted((canon_out(r) for r in rec["out"]), key=repr)
        if "rules" in rep:
            want = sorted(([r["par"], None if r["edges"] is None else sorted(r["edges"]), int(unrat(r["val"]))] for r in rep["rules"]), key=repr)
        else:
            want = {"err": rep.get("err")}
        if want != got:
            add_failure(out, "corr", "update_scoped_rules on REAL rule lists: model differs", inp, want, got, confirmed=False)
            continue
        hyp = ("WF(all null rules)" if rep["quirk_all"] and rep["wfr"] else "WFr only (a key-matched null rule is written \"edge\": name)"
               if rep["wfr"] else "neither")
        bump(out, "scoped_real_hypothesis", hyp)
        bump(out, "scoped_real_class", label.split(":")[0] if ":" in label else "scoping-case")
        bump(out, "scoped_real_outcome", got["err"] if isinstance(got, dict) else "ok")
        if rep["wfr"] and rep.get("conclusion") is False:
            add_failure(out, "corr", "REAL rule lists: wfrB holds but the proved conclusion is false in the driver", inp, True, rep, confirmed=False)
            continue
        if rep["wfr"] and not isinstance(got, dict):
            # non-trivial: the theorem applies and some rule really took a nested value through a non-1-to-1 branch
            null_keys = {frozenset([r["par_name"]] + (_scope_of(r)[0] or [])) for r in rec["null"]}
            if any(frozenset([r["par_name"]] + (_scope_of(r)[0] or [])) not in null_keys for r in rec["rich"]):
                out["nontrivial"].add(("scoped-real", label, nm, am, str(inp["rich_rules"])))
                bump(out, "scoped_real_theorem_applies_beyond_1to1")


# --------------------------------------------------------------------------
# (G) update_param_rules WITH SCOPES and the whole rule pipeline of initialise_from_nested, on real rule lists
# --------------------------------------------------------------------------
def _corr_scoped_proj(ctx, out):
    """Inside the real `initialise_from_nested` capture (i) the `_ParamProjection` (coordinate dicts in their own set
    iteration order, `same`, motif probs), the nested rule list handed to `update_param_rules` and its result, and
    (ii) the arguments / result of `update_scoped_rules`.  The scoped projection model
    (`Model/OptimiserScopedProj.lean`) is run on exactly those lists: projected rules must agree (scope, spelling,
    is_constant, init, value of every emitted rule), for same=True also the FINAL rule list of the pipeline; the
    driver evaluates the executable hypotheses of `projection_exact_scoped` / `projection_scoped_one_rule_per_edge` /
    `initialise_rules_exact` (`nestedSame`, `onePerEdgeB`, distinct rich names, `wfrB`) and the edge-by-edge
    conclusion on them."""
    import random
    from copy import deepcopy

    import cogent3.evolve.likelihood_function as L
    from cogent3 import make_tree

    rng = ctx.subrng("scoped-proj")
    configs = []
    for _ in range(ctx.budget(2, 12)):
        tree_s, taxa = rng.choice(TREES[1:])
        for kind, label, nm, nr, am, ar in _scoping_cases(rng, tree_s, taxa):
            configs.append((label, nm, nr, am, ar, tree_s, taxa))
        pairs = [p for p in NESTED_NUC if _rate_params(p[0])]
        rng.shuffle(pairs)
        for a, b in pairs[: ctx.budget(10, 18)]:
            # time-heterogeneous nulls (per edge / per clade / mixed with constants) are the point here
            variant = rng.choice(["edge", "clade", "mixed", "edge", "clade", "const", "bounded", "free"])
            tree_s, taxa = rng.choice(TREES[1:])
            nr, ar = _null_variant(rng, variant, a, b, taxa)
            configs.append((f"{_pair_class(a, b)}:{variant}", a, nr, b, ar, tree_s, taxa))
    proj_recs, scoped_recs = [], []
    orig_upr = L._ParamProjection.update_param_rules
    orig_usr = L.update_scoped_rules

    def spy_upr(self, rules):
        rec = dict(rich={k: list(v) for k, v in self._rich_coords.items()},
                   simple={k: list(v) for k, v in self._simple_coords.items()},
                   same=bool(self._same), pi=[float(self._motif_probs[j]) for j in range(len(self._motif_probs))],
                   rules=deepcopy(rules))
        proj_recs.append(rec)
        try:
            res = orig_upr(self, rules)
        except Exception as e:
            rec["err"] = type(e).__name__
            raise
        rec["out"] = deepcopy(res)
        return res

    def spy_usr(rich, null):
        rec = dict(rich=deepcopy(rich), null=deepcopy(null))
        scoped_recs.append(rec)
        try:
            res = orig_usr(rich, null)
        except Exception as e:
            rec["err"] = type(e).__name__
            raise
        rec["out"] = deepcopy(res)
        return res

    metas = []
    L._ParamProjection.update_param_rules = spy_upr
    L.update_scoped_rules = spy_usr
    try:
        for label, nm, nr, am, ar, tree_s, taxa in configs:
            aln = _alignment(taxa, 0, 150)
            n0, m0 = len(proj_recs), len(scoped_recs)
            try:
                with warnings.catch_warnings():
                    warnings.simplefilter("ignore")
                    null = _mk_lf(nm, tree_s, aln, nr)
                    _random_start(null, random.Random(rng.randrange(10**6)), nm)
                    alt = _mk_lf(am, tree_s, aln, ar)
                    alt.initialise_from_nested(null)
            except Exception as e:
                bump(out, "scoped_proj_init", "raised " + type(e).__name__)
            else:
                bump(out, "scoped_proj_init", "ok")
            if len(proj_recs) == n0:
                continue
            edges = [n for n in make_tree(tree_s).get_node_names() if n != "root"]
            metas.append((n0, m0 if len(scoped_recs) > m0 else None, label, nm, am, edges))
    finally:
        L._ParamProjection.update_param_rules = orig_upr
        L.update_scoped_rules = orig_usr

    ids = {}

    def num(v):
        """scalar -> float; motif-prob dict -> a small integer id (it only travels through)"""
        if isinstance(v, dict):
            key = repr(sorted((k, float(x)) for k, x in v.items()))
            return float(ids.setdefault(key, 1000 + len(ids)))
        return float(v)

    def req_prule(r):
        edges, single = _scope_of(r)
        return dict(par=r["par_name"], edges=edges, single=single, is_constant=bool(r.get("is_constant", False)),
                    init=rat(num(r["init"])) if "init" in r and r["init"] is not None else None,
                    value=rat(num(r["value"])) if "value" in r and r["value"] is not None else None)

    def canon_prule(r):
        edges, single = _scope_of(r)
        return [r["par_name"], None if edges is None else sorted(edges), single, bool(r.get("is_constant", False)),
                num(r["init"]) if r.get("init") is not None else None, num(r["value"]) if r.get("value") is not None else None]

    def canon_model_prule(r):
        f = lambda x: None if x is None else float(unrat(x))
        return [r["par"], None if r["edges"] is None else sorted(r["edges"]), r["single"], r["is_constant"], f(r["init"]), f(r["value"])]

    def close(a, b):
        if a is None or b is None:
            return a is b
        return abs(a - b) <= 1e-12 * max(1.0, abs(b))

    def same_rules(want, got):
        key = lambda x: repr(x[:4])
        want, got = sorted(want, key=lambda x: (key(x), x[4] or 0)), sorted(got, key=lambda x: (key(x), x[4] or 0))
        return len(want) == len(got) and all(w[:4] == g[:4] and close(w[4], g[4]) and close(w[5], g[5]) for w, g in zip(want, got))

    reqs = []
    for pi_, si_, label, nm, am, edges in metas:
        rec = proj_recs[pi_]
        rq = dict(rich=[[k, [[int(i), int(j)] for i, j in v]] for k, v in rec["rich"].items()],
                  simple=[[k, [[int(i), int(j)] for i, j in v]] for k, v in rec["simple"].items()],
                  ref=REF, **{"pass": ["mprobs", "length"]}, rules=[req_prule(r) for r in rec["rules"]],
                  same=rec["same"], pi=[rat(p) for p in rec["pi"]], edge_names=edges)
        if rec["same"] and si_ is not None:
            sr = scoped_recs[si_]
            rq["my"] = []
            for r in sr["rich"]:
                e_, s_ = _scope_of(r)
                v = r.get("init", r.get("value"))
                rq["my"].append(dict(par=r["par_name"], edges=e_, single=s_, val=None if v is None else rat(num(v))))
        reqs.append(("project_scoped", rq))
    reps = ctx.driver.batch(reqs) if reqs else []
    for (pi_, si_, label, nm, am, edges), rep in zip(metas, reps):
        out["evaluations"] += 1
        rec = proj_recs[pi_]
        inp = dict(label=label, null=nm, alt=am, same=rec["same"],
                   nested_rules=[(r["par_name"],) + tuple(_scope_of(r)) + (bool(r.get("is_constant", False)),) for r in rec["rules"]])
        if "error" in rep:
            add_failure(out, "corr", "driver error (project_scoped)", inp, None, rep, confirmed=False)
            continue
        if "err" in rep or "err" in rec:
            if rep.get("err") != rec.get("err"):
                add_failure(out, "corr", "update_param_rules (scoped) error behaviour differs", inp, rep.get("err"), rec.get("err"), confirmed=False)
            else:
                bump(out, "scoped_proj_outcome", "raised " + rep["err"])
            continue
        want = [canon_model_prule(r) for r in rep["rules"]]
        got = [canon_prule(r) for r in rec["out"]]
        if not same_rules(want, got):
            add_failure(out, "corr", "update_param_rules WITH SCOPES on real rule lists: model differs", inp,
                        sorted(want, key=repr)[:12], sorted(got, key=repr)[:12], confirmed=False)
            continue
        cls = "same" if rec["same"] else "not_same"
        bump(out, "scoped_proj_outcome", "projection agrees (" + cls + ")")
        bump(out, "scoped_proj_class", label.split(":")[-1] if ":" in label else "scoping-case")
        scopes = {repr(_scope_of(r)[0]) for r in rec["rules"] if r["par_name"] not in ("mprobs", "length")}
        n_scoped = sum(1 for r in rec["rules"] if r["par_name"] not in ("mprobs", "length") and _scope_of(r)[0] is not None)
        bump(out, "scoped_proj_nested_rate_rules_with_scope", min(n_scoped, 6))
        bump(out, "scoped_proj_hyp_onePerEdgeB", rep["one_per_edge"])
        bump(out, "scoped_proj_hyp_rich_names_distinct", rep["rich_names_distinct"])
        if rec["same"]:
            bump(out, "scoped_proj_hyp_nestedSame", rep["nested"])
            all_hyp = rep["nested"] and rep["one_per_edge"] and rep["rich_names_distinct"]
            bump(out, "scoped_proj_theorem_hypotheses_hold", bool(all_hyp))
            if rep["nested"] and not rep["edge_rates_agree"]:
                add_failure(out, "corr", "REAL rule lists: nestedSame holds but the edge-by-edge conclusion of projection_exact_scoped is false in the driver",
                            inp, True, rep, confirmed=False)
                continue
            if all_hyp and n_scoped:
                out["nontrivial"].add(("scoped-proj", label, nm, am, str(inp["nested_rules"])))
            if "final" in rep or "final_err" in rep:
                sr = scoped_recs[si_]
                if "err" in sr:
                    realf = {"err": sr["err"]}
                else:
                    realf = sorted(([r["par_name"], None if (sc := ([r["edge"]] if r.get("edge") is not None else r.get("edges"))) is None else sorted(sc),
                                     num(r["init"] if "init" in r else r.get("value"))] for r in sr["out"]), key=repr)
                if "final" in rep:
                    modf = sorted(([r["par"], None if r["edges"] is None else sorted(r["edges"]), None if r["val"] is None else float(unrat(r["val"]))]
                                   for r in rep["final"]), key=repr)
                else:
                    modf = {"err": rep["final_err"]}
                if modf != realf:
                    add_failure(out, "corr", "initialise_from_nested rule pipeline (update_scoped_rules ∘ update_param_rules): model differs", inp,
                                modf if isinstance(modf, dict) else modf[:12], realf if isinstance(realf, dict) else realf[:12], confirmed=False)
                    continue
                bump(out, "scoped_proj_pipeline", "final rule list agrees")
                bump(out, "scoped_proj_hyp_wfrB_on_projected", rep["wfr"])
                bump(out, "initialise_rules_exact_hypotheses_hold", bool(rep["wfr"]))
            if len(out["samples"]) < 16 and n_scoped >= 2 and all_hyp and rng.random() < 0.3:
                out["samples"].append(dict(stream="G", case=inp, projected=sorted(got, key=repr)[:6]))


def correspondence(ctx):
    out = new_outcome(
        "(A) scripted optimisers through the real maximise: seeded random objective tables (raises, NaN, ±inf, ties), "
        "query lists with out-of-bounds points, max_evaluations None/0..n+2, local/global/both; non-trivial = >= 3 calls "
        "of the objective. (B) real Powell/SA traces; non-trivial = best point is not the last query. (C) start clamp; "
        "non-trivial = vector changed. (D) generated + named coordinate families; non-trivial = some rich parameter mapped. "
        "(E) update_scoped_rules on generated rule lists (nested partitions of the edges, free / per-edge / clade scopes, singular \"edge\" form, name collisions, malformed); non-trivial = some rule value changed. "
        "(F) update_scoped_rules on the rule lists captured inside the real initialise_from_nested (scoping cases + nested named pairs with "
        "free/const/bounded/edge/clade/mixed nulls, random null values): model vs real result, and the executable hypothesis wfrB of "
        "scoped_rules_preserve_values_checked evaluated on them; non-trivial = wfrB holds and some rich rule is not key-matched. "
        "(G) update_param_rules WITH SCOPES + the whole rule pipeline on the projection objects / rule lists captured inside the real "
        "initialise_from_nested (time-heterogeneous nulls: per edge / per clade / mixed constants); hypotheses nestedSame, onePerEdgeB, "
        "distinct rich names, wfrB evaluated on them; non-trivial = all hypotheses hold and some nested rate rule is edge-scoped. "
        "(H) optimise_never_lowers_lnL: REAL Calculator.optimise (real maximise, scripted optimisers incl. exact reversals, out-of-bounds "
        "points, raising cells, evaluation limits, an earlier call history) on real toy calculators (OptPar/EvaluatedCell graphs, recycling "
        "cells) vs drv_c16 maximise on the from-scratch value table composed with drv_c07 replaying its call sequence: final vector, whole "
        "buffer, exception, number of calls; non-trivial = >= 3 objective calls"
    )
    _corr_scripted(ctx, out)
    _corr_real_optimisers(ctx, out)
    _corr_clamp(ctx, out)
    _corr_mapping(ctx, out)
    _corr_scoped(ctx, out)
    _corr_scoped_real(ctx, out)
    _corr_scoped_proj(ctx, out)
    # (H) the C16 x C07 link: real Calculator.optimise on real toy calculators vs the composed models
    from . import c16_link

    c16_link.corr_link(ctx, out)
    return out


# --------------------------------------------------------------------------
# spec-level differential on real data
# --------------------------------------------------------------------------
_DATA = {}


def _alignment(taxa, start, length, codon=False):
    from cogent3 import load_aligned_seqs

    if "aln" not in _DATA:
        _DATA["aln"] = load_aligned_seqs(str(REPO / "tests" / "data" / "primate_brca1.fasta"), moltype="dna")
    key = (tuple(taxa), start, length, codon)
    if key not in _DATA:
        sub = _DATA["aln"].take_seqs(list(taxa))[start : start + length]
        sub = sub.no_degenerates(motif_length=3 if codon else 1)
        _DATA[key] = sub
    return _DATA[key]


TREES = [
    ("(Human,Chimpanzee,Rhesus)", ["Human", "Chimpanzee", "Rhesus"]),
    ("((Human,Chimpanzee),Rhesus,Galago)", ["Human", "Chimpanzee", "Rhesus", "Galago"]),
    ("((Human,Chimpanzee),Gorilla,(Rhesus,Galago))", ["Human", "Chimpanzee", "Gorilla", "Rhesus", "Galago"]),
    ("(Orangutan,(Gorilla,(Human,Chimpanzee)),HowlerMon)", ["Orangutan", "Gorilla", "Human", "Chimpanzee", "HowlerMon"]),
]


def _get_sm(model, model_kw=None):
    """named model, or "GS" = cogent3.evolve.ns_substitution_model.GeneralStationary (stationary, NOT time-reversible)"""
    if model == "GS":
        from cogent3 import DNA
        from cogent3.evolve.ns_substitution_model import GeneralStationary

        return GeneralStationary(DNA.alphabet, **(model_kw or {}))
    from cogent3 import get_model

    return get_model(model, **(model_kw or {}))


# rate heterogeneity / bins: the likelihood function then owns optimisable leaf definitions that are NOT user-visible
# parameter names (`rate_partition`, `kappa_factor_partition` of the "free" distribution) next to visible ones (bprobs,
# rate_shape of the gamma distribution)
BIN_CONFIGS = [
    dict(model_kw=dict(ordered_param="rate", distribution="free"), bins=2),
    dict(model_kw=dict(ordered_param="rate", distribution="free"), bins=3),
    dict(model_kw=dict(ordered_param="rate", distribution="gamma"), bins=4),
    dict(model_kw=dict(ordered_param="kappa", distribution="free"), bins=2, needs="kappa"),
]


def _mk_lf(model, tree_s, aln, rules=(), model_kw=None, bins=None):
    from cogent3 import make_tree

    extra = dict(bins=bins) if bins else {}
    lf = _get_sm(model, model_kw).make_likelihood_function(make_tree(tree_s), **extra)
    lf.set_alignment(aln)
    for r in rules:
        lf.set_param_rule(**r)
    return lf


def _opt(lf, local, me, tol=1e-6, seed=0, limit_action="ignore", **extra):
    kw = {} if local else dict(seed=seed)
    kw.update({k: v for k, v in extra.items() if v is not None})
    with warnings.catch_warnings():
        warnings.simplefilter("ignore")
        return lf.optimise(local=local, max_evaluations=me, tolerance=tol, limit_action=limit_action, show_progress=False, **kw)


def _mode(local):
    return {True: "local", False: "global", None: "global+local"}[local]


def _bounds_problem(lf):
    """first free parameter whose value lies outside its declared bounds"""
    for r in lf.get_param_rules():
        if r.get("is_constant") or "init" not in r:
            continue
        v = r["init"]
        lo, hi = r.get("lower"), r.get("upper")
        if isinstance(v, dict):
            continue
        if (lo is not None and v < lo) or (hi is not None and v > hi):
            return dict(par_name=r["par_name"], edges=r.get("edges"), value=float(v), lower=lo, upper=hi)
    return None


def _run_init_case(case):
    """fit null, initialise alt from it; returns (problem-or-None, info)"""
    aln = _alignment(case["taxa"], case["start"], case["length"], case.get("codon", False))
    null = _mk_lf(case["null"], case["tree"], aln, case.get("null_rules", ()))
    alt = _mk_lf(case["alt"], case["tree"], aln, case.get("alt_rules", ()), case.get("alt_kw"))
    _opt(null, True, case["max_evaluations"])
    info = dict(null_lnL=float(null.lnL), nfp=(null.nfp, alt.nfp))
    if alt.nfp <= null.nfp:
        # initialise_from_nested's documented precondition (more free parameters) fails: with cogent3's default of
        # fixed empirical motif probabilities e.g. F81 has no more free parameters than JC69 -> not a nested pair
        info["skipped"] = "alt has no more free parameters than null"
        return None, info
    try:
        with warnings.catch_warnings():
            warnings.simplefilter("ignore")
            alt.initialise_from_nested(null)
    except Exception as e:  # a genuinely nested pair must initialise
        return dict(kind="raise", exc=type(e).__name__, msg=str(e)[:120]), info
    d = float(alt.lnL) - float(null.lnL)
    info["delta"] = d
    if not abs(d) <= _tol(null.lnL):
        pressed = _at_bound(alt)
        # (audit) "some parameter sits on a bound" alone used to excuse ANY lnL difference (a projection that is wrong by
        # a large factor is clipped too and was silently skipped).  The excuse is now accepted only if the SAME projected
        # rules, applied to a fresh alternative whose box is widened to contain them, do reproduce the nested lnL.
        if pressed and _widened_box_reproduces(case, null, aln):
            # the null optimum, mapped into the alt parameterisation, lies outside the alt's declared box and was
            # clipped onto the bound: the *bounded* models are not nested (outside the quantifier)
            info["skipped"] = "null image outside the alt's bounds (clipped)"
            info["clipped"] = pressed
            return None, info
        return dict(kind="lnL", delta=d), info
    return None, info


def _widened_box_reproduces(case, null, aln):
    return _widened_box_reproduces_f(
        lambda: _mk_lf(case["alt"], case["tree"], aln, case.get("alt_rules", ()), case.get("alt_kw")), null)


def _widened_box_reproduces_f(mk_alt, null):
    """re-derive the projected rules (the value update_scoped_rules returns inside initialise_from_nested), widen
    lower/upper of every scalar rule so that its value is strictly inside, apply them to a fresh alternative and
    compare lnL with the nested model's"""
    from copy import deepcopy

    import cogent3.evolve.likelihood_function as L

    got = []
    orig = L.update_scoped_rules

    def spy(rich, nul):
        res = orig(rich, nul)
        got.append(deepcopy(res))
        return res

    L.update_scoped_rules = spy
    try:
        with warnings.catch_warnings():
            warnings.simplefilter("ignore")
            mk_alt().initialise_from_nested(null)
    except Exception:
        return False
    finally:
        L.update_scoped_rules = orig
    if not got:
        return False
    rules = got[-1]
    for r in rules:
        v = r.get("init")
        if v is None or isinstance(v, dict) or r.get("is_constant"):
            continue
        v = float(v)
        if r.get("lower") is not None and v <= r["lower"]:
            r["lower"] = v / 2 if v > 0 else v - 1.0
        if r.get("upper") is not None and v >= r["upper"]:
            r["upper"] = v * 2 if v > 0 else v + 1.0
    try:
        with warnings.catch_warnings():
            warnings.simplefilter("ignore")
            alt2 = mk_alt()
            alt2.apply_param_rules(rules)
            return abs(float(alt2.lnL) - float(null.lnL)) <= _tol(null.lnL)
    except Exception:
        return False


def _at_bound(lf):
    """free rate parameters sitting exactly on a declared bound"""
    res = []
    for r in lf.get_param_rules():
        v = r.get("init")
        if v is None or isinstance(v, dict) or r.get("is_constant") or r["par_name"] in ("mprobs", "length"):
            continue
        if v == r.get("lower") or v == r.get("upper"):
            res.append((r["par_name"], float(v)))
    return res


_RATE_PARAMS = {}


def _rate_params(model):
    if model not in _RATE_PARAMS:
        sm = _get_sm(model)
        _RATE_PARAMS[model] = [p for p in sm.get_param_matrix_coords() if p not in ("ref_cell",)]
    return _RATE_PARAMS[model]


NULL_VARIANTS = ["free", "const", "const", "bounded", "edge", "clade", "mixed"]


def _null_variant(rng, variant, null, alt, taxa):
    """(null_rules, alt_rules) putting the nested model's rate terms into the given configuration class; when
    the nested model scopes a term by edge every rate term of the alternative gets the same scope, so the
    alternative stays richer"""
    ps = _rate_params(null)
    qs = _rate_params(alt)
    if not ps or variant == "free":
        return [], []
    val = lambda: round(math.exp(rng.uniform(-1.2, 1.4)), 3)
    two = sorted(rng.sample(taxa, 2))
    if variant == "const":
        k = rng.randint(1, min(2, len(ps)))
        return [dict(par_name=p, is_constant=True, value=val()) for p in rng.sample(ps, k)], []
    if variant == "bounded":
        rules = []
        for p in ps:
            v = val()
            rules.append(dict(par_name=p, init=v, lower=round(v * 0.8, 4), upper=round(v * 1.25, 4)))
        return rules, []
    if variant == "edge":
        p = rng.choice(ps)
        return [dict(par_name=p, is_independent=True, upper=20.0)], [dict(par_name=q, is_independent=True) for q in qs]
    if variant == "clade":
        p = rng.choice(ps)
        return ([dict(par_name=p, edges=two, is_independent=False, upper=20.0)],
                [dict(par_name=q, edges=two, is_independent=False) for q in qs])
    # mixed: a constant term (possibly edge-scoped) and, if there is a second term, a clade-scoped free one
    p1 = rng.choice(ps)
    rules = [dict(par_name=p1, is_constant=True, value=val())]
    alt_rules = []
    if rng.random() < 0.5:
        rules = [dict(par_name=p1, edges=two, is_constant=True, value=val())]
        alt_rules = [dict(par_name=q, edges=two, is_independent=False) for q in qs]
    rest = [p for p in ps if p != p1]
    if rest:
        rules.append(dict(par_name=rng.choice(rest), edges=two, is_independent=False, upper=20.0))
        alt_rules = [dict(par_name=q, edges=two, is_independent=False) for q in qs]
    return rules, alt_rules


def _pair_class(a, b):
    sa, sb = a in STATIONARY, b in STATIONARY
    if a in NUC_MODELS and b in NUC_MODELS:
        return "same" if sa == sb else "notsame"
    return "codon"


def _scoping_cases(rng, tree_s, taxa):
    """parameter-scoping nestings: (label, null model, null rules, alt model, alt rules)"""
    tips = taxa
    two = sorted(rng.sample(tips, 2))
    return [
        ("same-model", "shared->per-edge kappa", "HKY85", [], "HKY85", [dict(par_name="kappa", is_independent=True)]),
        ("same-model", "shared->clade kappa", "HKY85", [], "HKY85", [dict(par_name="kappa", edges=two, is_independent=False)]),
        ("same-model", "clade->per-edge kappa", "HKY85", [dict(par_name="kappa", edges=two, is_independent=False)], "HKY85", [dict(par_name="kappa", is_independent=True)]),
        ("mapped", "HKY85->GTR mapped per-edge", "HKY85", [], "GTR", [dict(par_name="A/G", is_independent=True)]),
        # the edge-scoped rich parameter lies in the null model's reference cell: no null rule carries its name
        ("unmapped", "HKY85->GTR unmapped per-edge", "HKY85", [], "GTR", [dict(par_name="A/C", is_independent=True)]),
        ("mapped", "HKY85 clade->GTR mapped per-edge", "HKY85", [dict(par_name="kappa", edges=two, is_independent=False)], "GTR", [dict(par_name="C/T", is_independent=True)]),
        ("unmapped", "F81->TN93 unmapped clade", "F81", [], "TN93", [dict(par_name="kappa_y", edges=two, is_independent=False)]),
        ("same-model", "shared->per-edge length", "F81", [dict(par_name="length", is_independent=False)], "F81", [dict(par_name="length", is_independent=True)]),
        ("same-model", "constant->free kappa", "HKY85", [dict(par_name="kappa", is_constant=True, value=2.5)], "HKY85", []),
        ("same-model", "TN93 shared->per-edge kappa_r", "TN93", [], "TN93", [dict(par_name="kappa_r", is_independent=True)]),
        ("mapped", "GTR->GN per-edge", "GTR", [], "GN", [dict(par_name="A>G", is_independent=True)]),
    ]


def _gs_cases(budget):
    """deterministic nested pairs around GeneralStationary (stationary but not reversible), ssGN and GN in both roles,
    non-uniform motif probabilities (from the data), the alternative richer by model or by edge scoping"""
    tree_s, taxa = TREES[1]
    gsp = _rate_params("GS")
    per_edge = [dict(par_name=p, is_independent=True) for p in gsp]
    clade = [dict(par_name=p, edges=["Human", "Chimpanzee"], is_independent=False) for p in gsp]
    specs = [
        ("GS", [], "GS", per_edge, "gs-same", "alt-per-edge", 20),
        ("GS", [], "GS", clade, "gs-same", "alt-clade", 20),
        ("GS", [dict(par_name=gsp[0], edges=["Human", "Chimpanzee"], is_independent=False)], "GS", per_edge, "gs-same", "null-clade-alt-per-edge", 10),
        ("GTR", [], "GS", [], "gs-same", "free", 20),
        ("HKY85", [], "GS", [], "gs-same", "free", 20),
        ("HKY85", [dict(par_name="kappa", is_constant=True, value=2.5)], "GS", [], "gs-same", "const", 20),
        ("F81", [], "GS", [], "gs-same", "free", 20),
        ("GS", [], "GN", [], "gs-notsame", "free", 20),
        ("ssGN", [], "GN", [], "notsame-nonstationary", "free", 20),
        ("ssGN", [], "GN", [dict(par_name="A>G", is_independent=True)], "notsame-nonstationary", "alt-per-edge", 10),
    ]
    cases = []
    for k, (nm, nr, am, ar, cls, cfg, me) in enumerate(specs):
        starts = [300] if budget < 8 else [300, 900, 1500]
        for st in starts:
            cases.append(dict(check="init", null=nm, alt=am, null_rules=nr, alt_rules=ar, tree=tree_s, taxa=taxa, start=st, length=300,
                              max_evaluations=me, cls=cls, null_cfg=cfg))
    return cases


def _zero_cases(rng, budget):
    """nested fits in which a parameter sits at EXACTLY 0.0 (the only falsy value a rule can carry): one or two branch
    lengths held constant at 0 (a polytomy null when the edge is internal; the alternative frees them) or started at 0 and
    never moved (max_evaluations=0, cross-model pair so that the alternative is richer)"""
    from cogent3 import make_tree

    cases = []
    for i in range(4 if budget < 8 else 12):
        tree_s, taxa = rng.choice(TREES[1:])
        names = [n for n in make_tree(tree_s).get_node_names(includeself=False)]
        edges = sorted(rng.sample(names, rng.randint(1, 2)))
        if i % 2 == 0:
            a, b = rng.choice([("HKY85", "HKY85"), ("F81", "F81"), ("GTR", "GTR")] + [p for p in NESTED_NUC if _pair_class(*p) == "same"])
            nr = [dict(par_name="length", edge=e, is_constant=True, value=0.0) for e in edges]
            me, cfg = rng.choice([5, 40]), "zero-const"
        else:
            a, b = rng.choice([p for p in NESTED_NUC if _pair_class(*p) == "same"])
            nr = [dict(par_name="length", edge=e, init=0.0) for e in edges]
            me, cfg = 0, "zero-init"
        cases.append(dict(check="init", null=a, alt=b, null_rules=nr, alt_rules=[], tree=tree_s, taxa=taxa,
                          start=rng.randrange(0, 2000, 3), length=rng.choice([150, 300]), max_evaluations=me,
                          cls="zero-length", null_cfg=cfg, zero_edges=edges))
    return cases


def _spec_init(ctx, out, rng, budget):
    pairs = list(NESTED_NUC)
    rng.shuffle(pairs)
    n_pairs = len(pairs) if budget >= 8 else max(10, min(len(pairs), 10 * budget))
    # every not-same pair is always included (rarest path)
    chosen = [p for p in pairs if _pair_class(*p) == "notsame"] + [p for p in pairs if _pair_class(*p) == "same"][:n_pairs]
    cases = []
    for a, b in chosen:
        for _ in range(2 if budget < 8 else 3):
            tree_s, taxa = rng.choice(TREES)
            cases.append(dict(check="init", null=a, alt=b, tree=tree_s, taxa=taxa, start=rng.randrange(0, 2000, 3),
                              length=rng.choice([150, 300, 450]), max_evaluations=rng.choice([0, 3, 20, 100, 400]),
                              cls=_pair_class(a, b)))
    # the nested model's rate terms constant / bounded / edge-scoped / mixed, over every nested pair whose null has rate terms
    with_terms = [p for p in NESTED_NUC if _rate_params(p[0])]
    for a, b in with_terms:
        variants = [v for v in NULL_VARIANTS if v != "free"]
        rng.shuffle(variants)
        # not-same pairs (the re-projected values) get every configuration class on every run
        for variant in (variants if _pair_class(a, b) == "notsame" or budget >= 8 else variants[:2]):
            tree_s, taxa = rng.choice(TREES[1:])
            nr, ar = _null_variant(rng, variant, a, b, taxa)
            cases.append(dict(check="init", null=a, alt=b, null_rules=nr, alt_rules=ar, tree=tree_s, taxa=taxa,
                              start=rng.randrange(0, 2000, 3), length=rng.choice([150, 300]),
                              max_evaluations=rng.choice([0, 10, 60]), cls=_pair_class(a, b), null_cfg=variant))
    for _ in range(max(2, budget // 2)):
        tree_s, taxa = rng.choice(TREES[1:])
        for kind, label, nm, nr, am, ar in _scoping_cases(rng, tree_s, taxa):
            cases.append(dict(check="init", null=nm, alt=am, null_rules=nr, alt_rules=ar, tree=tree_s, taxa=taxa,
                              start=rng.randrange(0, 2000, 3), length=rng.choice([150, 300]),
                              max_evaluations=rng.choice([5, 40, 150]), cls="scoped-" + kind, label=label))
    for a, b in [("JC69", "F81"), ("HKY85", "HKY85"), ("K80", "TN93")]:
        # motif probabilities freed in the alternative (the null keeps them fixed)
        tree_s, taxa = rng.choice(TREES)
        cases.append(dict(check="init", null=a, alt=b, alt_kw=dict(optimise_motif_probs=True), tree=tree_s, taxa=taxa,
                          start=rng.randrange(0, 2000, 3), length=300, max_evaluations=rng.choice([5, 60]), cls="mprobs-freed"))
    codon_all = [
        dict(null="MG94HKY", alt="MG94GTR"), dict(null="CNFHKY", alt="CNFGTR"), dict(null="MG94HKY", alt="GNC"),
        dict(null="GY94", alt="Y98"),
        # time heterogeneity on a clade / constant omega in the nested model
        dict(null="MG94HKY", alt="MG94HKY", alt_rules=[dict(par_name="omega", edges=["Human", "Chimpanzee"], is_independent=False)], cls="codon-scoped"),
        dict(null="CNFGTR", alt="CNFGTR", null_rules=[dict(par_name="omega", is_constant=True, value=0.4)], cls="codon-const", null_cfg="const"),
        dict(null="MG94HKY", alt="MG94GTR", null_rules=[dict(par_name="kappa", is_constant=True, value=2.2)], cls="codon-const", null_cfg="const"),
    ]
    if budget >= 8:
        codon_cases = codon_all
    else:  # low volume in quick: the basic pair plus one other
        codon_cases = [codon_all[0], rng.choice([codon_all[1]] + codon_all[4:])]
    for cc in codon_cases:
        cases.append(dict(dict(check="init", tree=TREES[0][0], taxa=TREES[0][1], start=rng.randrange(0, 1500, 3),
                               length=150, max_evaluations=rng.choice([5, 25]), codon=True, cls="codon"), **cc))
    cases += _gs_cases(budget)
    cases += _zero_cases(rng, budget)
    for case in cases:
        out["evaluations"] += 1
        prob, info = _run_init_case(case)
        bump(out, "init_pair", f"{case['null']}->{case['alt']}")
        bump(out, "init_class", case["cls"])
        bump(out, "init_null_config", case.get("null_cfg", "free"))
        if "label" in case:
            bump(out, "init_scoping", case["label"])
        bump(out, "init_null_max_evaluations", case["max_evaluations"])
        if prob is None and "skipped" in info:
            bump(out, "init_outcome", "outside quantifier: " + info["skipped"])
        elif prob is None:
            bump(out, "init_outcome", "reproduced")
            if info["nfp"][1] > info["nfp"][0]:
                out["nontrivial"].add(("init", case["null"], case["alt"], case["cls"], case["tree"], case["start"], case["length"], case["max_evaluations"]))
            if len(out["samples"]) < 3 and case["cls"] != "same":
                out["samples"].append(dict(case=case, null_lnL=info["null_lnL"], delta=info.get("delta")))
        elif prob["kind"] == "raise":
            bump(out, "init_outcome", "raised:" + prob["exc"])
            add_failure(out, "spec", f"initialise_from_nested raised {prob['exc']} on a nested pair", case, "alt.lnL == null.lnL", prob,
                        sig=f"init-raise:{prob['exc']}:{case['cls']}" + (f":{case['null_cfg']}" if case.get("null_cfg") else ""))
        else:
            bump(out, "init_outcome", "lnL differs")
            add_failure(out, "spec", "initialise_from_nested does not reproduce the nested lnL", case,
                        info["null_lnL"], info["null_lnL"] + prob["delta"], sig=f"init-lnL:{case['cls']}:{case.get('null_cfg', 'free')}:{case['null']}->{case['alt']}")


def _random_start(lf, rng, model):
    """random (in-bounds) starting values"""
    rules = []
    for r in lf.get_param_rules():
        n = r["par_name"]
        if r.get("is_constant") or n == "mprobs" or isinstance(r.get("init"), dict) or "bin" in r or "bins" in r:
            continue
        v = rng.uniform(0.02, 1.5) if n == "length" else math.exp(rng.uniform(-2.0, 2.5))
        rr = dict(par_name=n, init=v)
        if "edges" in r:
            rr["edges"] = r["edges"]
        elif "edge" in r:
            rr["edge"] = r["edge"]
        rules.append(rr)
    for rr in rules:
        lf.set_param_rule(**rr)
    return rules


def _press_bounds(lf, rng):
    """declare bounds close to (or exactly at) the current value of every free scalar parameter"""
    for r in lf.get_param_rules():
        v = r.get("init")
        if v is None or isinstance(v, dict) or r.get("is_constant") or r["par_name"] == "mprobs":
            continue
        kind = rng.choice(["tight", "at-lower", "at-upper", "leave"])
        if kind == "leave":
            continue
        v = float(v)
        lo, hi = v * 0.9, v * 1.1
        if kind == "at-lower":
            lo = v
        elif kind == "at-upper":
            hi = v
        rr = dict(par_name=r["par_name"], init=v, lower=lo, upper=hi)
        if "edges" in r:
            rr["edges"] = r["edges"]
        elif "edge" in r:
            rr["edge"] = r["edge"]
        lf.set_param_rule(**rr)


def _run_opt_case(case):
    aln = _alignment(case["taxa"], case["start"], case["length"], case.get("codon", False))
    lf = _mk_lf(case["model"], case["tree"], aln, case.get("rules", ()), case.get("model_kw"), case.get("bins"))
    import random

    starts = _random_start(lf, random.Random(case["start_seed"]), case["model"]) if case.get("start_seed") is not None else None
    ob = case.get("on_bound")
    if ob and ob.get("via_nested"):
        # the parameter arrives ON its upper bound through initialise_from_nested from a null holding it constant there
        null = _mk_lf(case["model"], case["tree"], aln, [dict(par_name=ob["par"], is_constant=True, value=ob["at"])])
        with warnings.catch_warnings():
            warnings.simplefilter("ignore")
            lf.initialise_from_nested(null)
    if case.get("pressed"):
        _press_bounds(lf, random.Random(case["pressed"]))
    before = float(lf.lnL)
    exc = None
    calc = None
    try:
        calc = _opt(lf, case["local"], case["max_evaluations"], case["tolerance"], case["seed"], case.get("limit_action", "ignore"),
                    global_tolerance=case.get("global_tolerance"), max_restarts=case.get("max_restarts"),
                    return_calculator=case.get("return_calculator"))
    except ArithmeticError as e:  # limit_action="raise"
        exc = "ArithmeticError"
        if case.get("limit_action") != "raise" or "FORCED EXIT" not in str(e):
            return dict(kind="raise", exc=type(e).__name__, msg=str(e)[:120]), dict(before=before)
    except Exception as e:
        return dict(kind="raise", exc=type(e).__name__, msg=str(e)[:120]), dict(before=before)
    after = float(lf.lnL)
    info = dict(before=before, after=after, exc=exc)
    if ob:
        # a parameter that started ON one declared bound must not be written back at the OTHER bound
        r = [r for r in lf.get_param_rules() if r["par_name"] == ob["par"]][0]
        v, lo, hi = float(r["init"]), r.get("lower"), r.get("upper")
        info["on_bound_value"] = v
        other = lo if ob["side"] == "upper" else hi
        if other is not None and v == other and v != ob["at"]:
            return dict(kind="flip", par=ob["par"], started_at=ob["at"], side=ob["side"], ended_at=v, lnL_before=before, lnL_after=after), info
    if not (after >= before - _tol(before)):
        return dict(kind="worse", delta=after - before), info
    if case.get("return_calculator") and calc is not None:
        # the calculator handed back must be left at the reported optimum too
        cval = float(calc(calc.get_value_array()))
        info["calc"] = cval
        if not abs(cval - after) <= _tol(after):
            return dict(kind="calc", calc=cval, lf=after), info
    b = _bounds_problem(lf)
    if b is not None:
        return dict(kind="bounds", **b), info
    return None, info


def _on_bound_cases(budget):
    """deterministic: a log-scaled rate parameter starts ON a declared bound (exp(log(U)) may exceed U by one ulp, which
    is the round-off branch of update_from_calculator).  The calculator only rewrites the value when the optimiser
    has moved away and come back (measured: <= 4 evaluations leave the start value untouched, 12 / 60 Powell evaluations
    end back on the bound), so the evaluation limits are chosen around that"""
    tree_s, taxa = TREES[1]
    base = dict(check="optimise", tree=tree_s, taxa=taxa, start=300, length=300, local=True, tolerance=1e-6, seed=0,
                start_seed=None, limit_action="ignore")
    cases = []
    for U in (3.0, 10.0, 30.0, 100.0):
        for me in ((4, 12, 60) if budget < 8 else (1, 2, 4, 8, 12, 20, 30, 60, 150)):
            cases.append(dict(base, model="HKY85", rules=[dict(par_name="kappa", init=U, upper=U)], max_evaluations=me,
                              on_bound=dict(par="kappa", side="upper", at=U)))
        cases.append(dict(base, model="HKY85", rules=[dict(par_name="kappa", upper=U)], max_evaluations=12,
                          on_bound=dict(par="kappa", side="upper", at=U, via_nested=True)))
    for U in (10.0, 30.0):
        cases.append(dict(base, model="TN93", rules=[dict(par_name="kappa_r", init=U, upper=U)], max_evaluations=15,
                          on_bound=dict(par="kappa_r", side="upper", at=U)))
        cases.append(dict(base, model="GTR", rules=[dict(par_name="A/G", init=U, upper=U)], max_evaluations=25,
                          on_bound=dict(par="A/G", side="upper", at=U)))
    for Lw in (0.3, 2.0, 7.0, 0.1):
        cases.append(dict(base, model="HKY85", rules=[dict(par_name="kappa", init=Lw, lower=Lw, upper=200.0)], max_evaluations=12,
                          on_bound=dict(par="kappa", side="lower", at=Lw)))
    return cases


def _spec_optimise(ctx, out, rng, budget):
    models = ["JC69", "F81", "K80", "HKY85", "TN93", "GTR", "ssGN", "GN"]
    cases = []
    for _ in range(120 * budget):
        tree_s, taxa = rng.choice(TREES)
        model = rng.choice(models)
        local = rng.choice([True, True, None, False])
        if budget >= 8:
            me = rng.choice([None, 1, 2, 5, 10, 30, 100, 300, 1000])
        else:
            me = rng.choice([1, 2, 5, 10, 30, 100, 300])
        rules = []
        if model == "HKY85" and rng.random() < 0.4:
            rules = [dict(par_name="kappa", is_independent=True)]
        if model == "GTR" and rng.random() < 0.3:
            rules = [dict(par_name="A/G", is_independent=True)]
        if local is not True and rng.random() < 0.5:
            # evaluation limit hit during the annealing phase (small) or after it, in the local phase (large)
            me = rng.choice([3, 8, 20, 60, 150, 400, 1200, 3000])
        cases.append(dict(check="optimise", model=model, tree=tree_s, taxa=taxa, start=rng.randrange(0, 2000, 3),
                          length=rng.choice([150, 300, 450]), local=local, max_evaluations=me, rules=rules,
                          tolerance=rng.choice([1e-6, 1e-6, 1e-3, 1e-1]), seed=rng.randrange(10**6),
                          start_seed=rng.randrange(10**6) if rng.random() < 0.7 else None,
                          limit_action=rng.choice(["ignore", "ignore", "warn", "raise"]),
                          global_tolerance=None if local is True else rng.choice([None, 0.1, 1.0, 10.0]),
                          max_restarts=rng.choice([None, None, 0, 2]),
                          return_calculator=True if rng.random() < 0.2 else None,
                          pressed=rng.randrange(1, 10**6) if rng.random() < 0.25 else None))
    # rate heterogeneity / bins (hidden optimisable leaf definitions): what the likelihood function reports afterwards
    # must be what the calculator was left at, so most of these ask for the calculator back
    for _ in range(16 * budget):
        tree_s, taxa = rng.choice(TREES[:3])
        cfg = rng.choice(BIN_CONFIGS)
        model = rng.choice(["HKY85", "K80"] if cfg.get("needs") == "kappa" else ["JC69", "F81", "HKY85", "TN93", "GTR"])
        local = rng.choice([True, True, None])
        cases.append(dict(check="optimise", model=model, model_kw=cfg["model_kw"], bins=cfg["bins"], tree=tree_s, taxa=taxa,
                          start=rng.randrange(0, 2000, 3), length=rng.choice([150, 300]), local=local,
                          max_evaluations=rng.choice([3, 10, 30, 80] if local else [20, 60, 200]), rules=[],
                          tolerance=rng.choice([1e-6, 1e-3]), seed=rng.randrange(10**6),
                          start_seed=rng.randrange(10**6) if rng.random() < 0.5 else None,
                          limit_action=rng.choice(["ignore", "warn", "raise"]),
                          global_tolerance=None if local else 1.0, max_restarts=None,
                          return_calculator=True if rng.random() < 0.7 else None, pressed=None))
    cases += _on_bound_cases(budget)
    if budget >= 8:
        cases.append(dict(check="optimise", model="MG94HKY", tree=TREES[0][0], taxa=TREES[0][1], start=300, length=150, codon=True,
                          local=True, max_evaluations=40, rules=[], tolerance=1e-6, seed=1, start_seed=None))
    for case in cases:
        out["evaluations"] += 1
        prob, info = _run_opt_case(case)
        mode = _mode(case["local"])
        bump(out, "opt_mode", mode)
        bump(out, "opt_model", case["model"])
        bump(out, "opt_bins", f"{case['model_kw'].get('ordered_param')}/{case['model_kw'].get('distribution')}/{case['bins']}" if case.get("bins") else "none")
        bump(out, "opt_max_evaluations", str(case["max_evaluations"]))
        bump(out, "opt_limit_action", case.get("limit_action", "ignore"))
        if case.get("on_bound"):
            ob_ = case["on_bound"]
            bump(out, "opt_on_bound", f"{ob_['side']}={ob_['at']}" + (" via nested" if ob_.get("via_nested") else ""))
            if prob is None and info.get("on_bound_value") == ob_["at"]:
                bump(out, "opt_on_bound_outcome", "still on the bound")
            elif prob is None:
                bump(out, "opt_on_bound_outcome", "moved inside")
        bump(out, "opt_config", ("pressed-bounds " if case.get("pressed") else "") + ("global_tolerance " if case.get("global_tolerance") else "")
             + ("max_restarts " if case.get("max_restarts") is not None else "") + ("return_calculator" if case.get("return_calculator") else "") or "plain")
        if prob is None:
            gain = info["after"] - info["before"]
            bump(out, "opt_outcome", "improved" if gain > 1e-6 else "unchanged")
            if info.get("exc"):
                bump(out, "opt_outcome_exc", info["exc"])
            if gain > 1e-6:
                out["nontrivial"].add(("opt", str(case)))
            if len(out["samples"]) < 6 and gain > 1 and case["max_evaluations"] in (2, 5, 10):
                out["samples"].append(dict(case=case, lnL_before=info["before"], lnL_after=info["after"]))
        elif prob["kind"] == "flip":
            bump(out, "opt_outcome", "BOUND-FLIP")
            at = case["on_bound"]["at"]
            add_failure(out, "spec", "a parameter that started ON one declared bound was written back at the OTHER bound after optimise",
                        case, f"{case['on_bound']['par']} stays near {at}", prob,
                        sig=f"opt-bound-flip:{case['on_bound']['side']}-{'U<=10' if at <= 10 else 'U>10'}")
        elif prob["kind"] == "worse" and case.get("on_bound"):
            bump(out, "opt_outcome", "WORSE")
            add_failure(out, "spec", "optimise returned a lower log-likelihood than it started from (parameter started on a declared bound)", case,
                        f">= {info['before']}", info["after"], sig=f"opt-worse:on-{case['on_bound']['side']}-bound")
        elif prob["kind"] == "worse":
            bump(out, "opt_outcome", "WORSE")
            add_failure(out, "spec", "optimise returned a lower log-likelihood than it started from", case,
                        f">= {info['before']}", info["after"], sig=f"opt-worse:{mode}:{'limit-small' if (case['max_evaluations'] or 10**9) <= 60 else 'limit-large'}")
        elif prob["kind"] == "calc":
            bump(out, "opt_outcome", "CALCULATOR-NOT-AT-OPTIMUM")
            add_failure(out, "spec", "the calculator returned by optimise(return_calculator=True) is not left at the reported optimum", case,
                        info["after"], prob, sig=f"opt-calc-state:{mode}")
        elif prob["kind"] == "bounds":
            bump(out, "opt_outcome", "OUT-OF-BOUNDS")
            add_failure(out, "spec", "optimised parameter outside its declared bounds", case, "lower <= value <= upper", prob,
                        sig=f"opt-bounds:{mode}:{prob['par_name']}")
        else:
            bump(out, "opt_outcome", "raised:" + prob["exc"])
            add_failure(out, "spec", f"optimise raised {prob['exc']}", case, "no exception", prob, sig=f"opt-raise:{prob['exc']}:{mode}")


def _run_hyp_case(case):
    from cogent3.app import evo

    aln = _alignment(case["taxa"], case["start"], case["length"], case.get("codon", False))
    oa = dict(max_evaluations=case["max_evaluations"], limit_action="ignore", tolerance=case.get("tolerance", 1e-6))
    if not case["local"]:
        oa["seed"] = case["seed"]
    if case["local"] is not True:
        oa["local"] = case["local"]
    kw = dict(tree=case["tree"], opt_args=oa, show_progress=False, optimise_motif_probs=case.get("opt_mprobs", False))
    with warnings.catch_warnings():
        warnings.simplefilter("ignore")
        null = evo.model(case["null"], **kw)
        alt = evo.model(case["alt"], **kw)
        r = evo.hypothesis(null, alt)(aln)
    if not r:
        return dict(kind="notcompleted", msg=str(r)[:160]), {}
    lr = float(r.LR)
    info = dict(LR=lr, null=float(r.null.lnL), alt=float(r.alt.lnL))
    if not lr >= -2 * _tol(r.null.lnL):
        clipped = _image_outside_bounds(case, r.null.lf, aln)
        if clipped:
            info["outside_bounds"] = clipped
            return None, info
        return dict(kind="negative", LR=lr), info
    return None, info


def _image_outside_bounds(case, null_lf, aln, lower=1e-6, upper=50):
    """the app bounds every parameter of both models by [1e-6, 50]; the null optimum, mapped into the alt
    parameterisation (on a fresh, app-unbounded alt), may lie outside the alt's box: then the *bounded* models are not
    nested and the pair is outside the property's quantifier.  Returns the offending parameters."""
    alt = _mk_lf(case["alt"], case["tree"], aln)
    with warnings.catch_warnings():
        warnings.simplefilter("ignore")
        try:
            alt.initialise_from_nested(null_lf)
        except Exception:
            return None
    if abs(float(alt.lnL) - float(null_lf.lnL)) > _tol(null_lf.lnL):
        return None
    bad = []
    for r in alt.get_param_rules():
        v = r.get("init")
        if v is None or isinstance(v, dict) or r["par_name"] == "mprobs":
            continue
        if v < lower or v > upper:
            bad.append((r["par_name"], float(v)))
    return bad or None


def _spec_hypothesis(ctx, out, rng, budget):
    pairs = [p for p in NESTED_NUC if p != ("JC69", "F81")]  # equal nfp with fixed empirical motif probs: not nested
    cases = []
    for _ in range(25 * budget):
        a, b = rng.choice(pairs)
        tree_s, taxa = rng.choice(TREES)
        cases.append(dict(check="hypothesis", null=a, alt=b, tree=tree_s, taxa=taxa, start=rng.randrange(0, 2000, 3),
                          length=rng.choice([150, 300]), max_evaluations=rng.choice([2, 5, 20, 80, 300]), local=True,
                          seed=rng.randrange(10**6), cls=_pair_class(a, b)))
    if budget >= 8:
        cases.append(dict(check="hypothesis", null="MG94HKY", alt="MG94GTR", tree=TREES[0][0], taxa=TREES[0][1], start=600, length=150,
                          max_evaluations=30, local=True, seed=0, codon=True, cls="codon"))
    for case in cases:
        out["evaluations"] += 1
        prob, info = _run_hyp_case(case)
        bump(out, "hyp_pair", f"{case['null']}->{case['alt']}")
        bump(out, "hyp_max_evaluations", case["max_evaluations"])
        if prob is None and "outside_bounds" in info:
            bump(out, "hyp_outcome", "not nested under the app's [1e-6,50] bounds (null image outside alt box)")
        elif prob is None:
            bump(out, "hyp_outcome", "LR>0" if info["LR"] > 1e-6 else "LR=0")
            if info["LR"] > 1e-6:
                out["nontrivial"].add(("hyp", str(case)))
            if len(out["samples"]) < 8 and info["LR"] > 1e-6 and case["max_evaluations"] <= 5:
                out["samples"].append(dict(case=case, **info))
        elif prob["kind"] == "negative":
            bump(out, "hyp_outcome", "NEGATIVE")
            add_failure(out, "spec", "hypothesis LR is negative for a nested pair", case, ">= 0", info, sig=f"hyp-negative:{case['cls']}:{case['null']}->{case['alt']}")
        else:
            bump(out, "hyp_outcome", "NotCompleted")
            add_failure(out, "spec", "hypothesis app did not complete on a nested pair", case, "hypothesis_result", prob, sig=f"hyp-notcompleted:{case['cls']}")


# ---- the hypothesis / model_collection apps ------------------------------------------------------------------
APP_CHAINS = [
    # same substitution model, the alternate differs only by time heterogeneity
    [dict(model="HKY85"), dict(model="HKY85", time_het="max")],
    [dict(model="HKY85"), dict(model="HKY85", time_het="clade")],
    [dict(model="GTR"), dict(model="GTR", time_het="max")],
    [dict(model="TN93"), dict(model="TN93", time_het="clade")],
    [dict(model="K80"), dict(model="K80", time_het="max")],
    [dict(model="HKY85"), dict(model="HKY85", time_het="clade"), dict(model="HKY85", time_het="max")],
    # cross-model
    [dict(model="HKY85"), dict(model="GTR")],
    [dict(model="F81"), dict(model="HKY85"), dict(model="GTR")],
    [dict(model="JC69"), dict(model="K80"), dict(model="TN93")],
    [dict(model="HKY85"), dict(model="GTR"), dict(model="GN")],
    [dict(model="GTR"), dict(model="GN")],
    [dict(model="HKY85"), dict(model="GN")],
    [dict(model="F81"), dict(model="GN")],
    [dict(model="K80"), dict(model="ssGN"), dict(model="GN")],
    # cross-model with time heterogeneity in the alternate
    [dict(model="HKY85"), dict(model="GTR", time_het="max")],
    [dict(model="F81"), dict(model="HKY85", time_het="clade")],
]


def _th_arg(spec, clade):
    th = spec.get("time_het")
    if th == "clade":
        return [dict(edges=list(clade), is_independent=False)]
    return th


def _link_class(prev, spec):
    cfg = "time_het-" + spec["time_het"] if spec.get("time_het") else "plain"
    kind = "same-model" if prev["model"] == spec["model"] else "cross-model:" + _pair_class(prev["model"], spec["model"])
    return f"{kind}:{cfg}"


def _fresh_like(spec, case, aln):
    """an alternate built outside the app (no [lower, upper] box): the same model and time heterogeneity"""
    lf = _mk_lf(spec["model"], case["tree"], aln)
    th = _th_arg(spec, case["clade"])
    if th == "max":
        lf.set_time_heterogeneity(is_independent=True)
    elif th:
        lf.set_time_heterogeneity(edge_sets=th)
    return lf


def _link_outside_box(prev_lf, spec, case, aln):
    """True when the nested optimum, mapped into the alternate's parameterisation, falls outside the box the app
    declares for the alternate (then the bounded models are not nested)"""
    upper = case.get("upper") or 50
    try:
        alt = _fresh_like(spec, case, aln)
        with warnings.catch_warnings():
            warnings.simplefilter("ignore")
            alt.initialise_from_nested(prev_lf)
    except Exception:
        return None
    pressed = _at_bound(alt)  # clipped already by the fresh function's own default box [1e-6, 1e6]
    if pressed:
        # (audit) accepted only if the projected rules reproduce the nested lnL once the box contains them
        return pressed if _widened_box_reproduces_f(lambda: _fresh_like(spec, case, aln), prev_lf) else None
    if abs(float(alt.lnL) - float(prev_lf.lnL)) > _tol(prev_lf.lnL):
        return None
    bad = []
    for r in alt.get_param_rules():
        v = r.get("init")
        if v is None or isinstance(v, dict) or r["par_name"] == "mprobs":
            continue
        if v <= 1e-6 or v >= upper:
            bad.append((r["par_name"], float(v)))
    return bad or None


def _run_app_case(case):
    from cogent3.app import evo

    aln = _alignment(case["taxa"], case["start"], case["length"])
    chain = case["chain"]
    mods = []
    for i, spec in enumerate(chain):
        oa = dict(max_evaluations=spec["me"], limit_action="ignore")
        kw = dict(tree=case["tree"], opt_args=oa, show_progress=False, name=f"m{i}")
        th = _th_arg(spec, case["clade"])
        if th:
            kw["time_het"] = th
        if case.get("upper"):
            kw["upper"] = case["upper"]
        mods.append(evo.model(spec["model"], **kw))
    extra = {}
    with warnings.catch_warnings():
        warnings.simplefilter("ignore")
        if case.get("init_alt") == "prefit":
            pre = mods[0](aln)

            def init_alt(lf, identifier, pre=pre):
                lf.initialise_from_nested(pre.lf)
                return lf

            extra["init_alt"] = init_alt
        elif not case.get("sequential", True):
            extra["sequential"] = False
        app = (evo.hypothesis if case["app"] == "hypothesis" else evo.model_collection)(mods[0], *mods[1:], **extra)
        r = app(aln)
    if not r:
        return dict(kind="notcompleted", msg=str(r)[:160]), {}
    lnls = [float(r[f"m{i}"].lnL) for i in range(len(chain))]
    info = dict(lnL=lnls)
    if case["app"] == "hypothesis":
        info["LR"] = float(r.LR)
    for i in range(1, len(chain)):
        ref_i = 0 if case.get("init_alt") == "prefit" else i - 1
        link = _link_class(chain[ref_i], chain[i])
        if not case.get("sequential", True) and not case.get("init_alt"):
            # alternates are fitted from default values on request: only "never below its own start" is claimed
            start = float(_fresh_like(chain[i], case, aln).lnL)
            if not lnls[i] >= start - _tol(start):
                return dict(kind="below-default-start", index=i, link=link, start=start, lnL=lnls[i]), info
            continue
        lo = lnls[ref_i]
        bad = None
        if not lnls[i] >= lo - _tol(lo):
            bad = "worse"
        elif chain[i]["me"] == 0 and abs(lnls[i] - lo) > _tol(lo):
            bad = "init-lost"  # with no evaluations allowed the alternate must sit exactly at the nested optimum
        if bad:
            out_box = _link_outside_box(r[f"m{ref_i}"].lf, chain[i], case, aln)
            if out_box:
                info.setdefault("outside_box", []).append((i, out_box[:3]))
                continue
            return dict(kind=bad, index=i, link=link, nested_lnL=lo, lnL=lnls[i], LR=info.get("LR")), info
    if case["app"] == "hypothesis" and not info.get("outside_box") and case.get("sequential", True):
        if not info["LR"] >= -2 * _tol(lnls[0]):
            return dict(kind="worse", index=1, link=_link_class(chain[0], chain[1]), nested_lnL=lnls[0], lnL=lnls[1], LR=info["LR"]), info
    return None, info


def _spec_apps(ctx, out, rng, budget):
    cases = []
    chains = list(APP_CHAINS)
    n = 60 * budget
    for k in range(n):
        chain = [dict(c) for c in (chains[k % len(chains)] if k < 2 * len(chains) else rng.choice(chains))]
        tree_s, taxa = rng.choice(TREES[1:])
        for i, spec in enumerate(chain):
            spec["me"] = rng.choice([5, 25, 100]) if i == 0 else rng.choice([0, 0, 5, 25])
        app = "hypothesis" if len(chain) == 2 and rng.random() < 0.7 else "model_collection"
        mode = rng.random()
        case = dict(check="app", app=app, chain=chain, tree=tree_s, taxa=taxa, clade=["Human", "Chimpanzee"],
                    start=rng.randrange(0, 2000, 3), length=rng.choice([150, 300]),
                    upper=rng.choice([None, 1000.0, 1000.0]))
        if mode < 0.12:
            case["sequential"] = False
        elif mode < 0.27 and len(chain) == 2:
            case["init_alt"] = "prefit"
        cases.append(case)
    for case in cases:
        out["evaluations"] += 1
        try:
            prob, info = _run_app_case(case)
        except Exception as e:
            prob, info = dict(kind="raise", exc=type(e).__name__, msg=str(e)[:160]), {}
        chain = case["chain"]
        bump(out, "app", case["app"])
        bump(out, "app_chain", "->".join(c["model"] + ("+" + c["time_het"] if c.get("time_het") else "") for c in chain))
        bump(out, "app_alt_max_evaluations", "/".join(str(c["me"]) for c in chain[1:]))
        bump(out, "app_init", "sequential=False" if case.get("sequential") is False else case.get("init_alt") or "sequential")
        if prob is None:
            if info.get("outside_box"):
                bump(out, "app_outcome", "link not nested under the app's box (nested optimum outside the alternate's bounds)")
            else:
                bump(out, "app_outcome", "ok")
            if max(info["lnL"]) - info["lnL"][0] > 1e-6:
                out["nontrivial"].add(("app", str(case)))
            if len(out["samples"]) < 9 and any(c.get("time_het") for c in chain) and any(c["me"] == 0 for c in chain[1:]):
                out["samples"].append(dict(case=case, **info))
            continue
        bump(out, "app_outcome", prob["kind"].upper())
        cfg = "sequential=False" if case.get("sequential") is False else ("init_alt" if case.get("init_alt") else "sequential")
        if prob["kind"] in ("worse", "init-lost", "below-default-start"):
            what = {"worse": "alternate fitted by the app has a lower lnL than the model nested in it (negative LR)",
                    "init-lost": "alternate with max_evaluations=0 does not start at the nested model's lnL (initialisation lost)",
                    "below-default-start": "model fitted from defaults ends below its own start"}[prob["kind"]]
            add_failure(out, "spec", what, case, f">= {prob.get('nested_lnL', prob.get('start'))}", prob,
                        sig=f"app-{prob['kind']}:{case['app']}:{prob['link']}:{cfg}")
        elif prob["kind"] == "notcompleted":
            add_failure(out, "spec", "app did not complete on a nested chain", case, "result", prob, sig=f"app-notcompleted:{case['app']}:{cfg}")
        else:
            add_failure(out, "spec", f"app raised {prob['exc']}", case, "result", prob, sig=f"app-raise:{prob['exc']}:{case['app']}:{cfg}")


# ---- declared bounds survive later rules and optimisation ---------------------------------------------------
def _declared_cases(budget):
    """(label, model, param class, [declaring rules], intervening op, [intervening rules], table of declared bounds).
    The table is kept by the harness (keyed by (par_name, edge)), never read back from the likelihood function."""
    tree_s, taxa = TREES[1]
    cases = []

    def add(label, model, pcls, op, declare, intervene, table, start=300):
        cases.append(dict(check="declared", label=label, model=model, pclass=pcls, op=op, declare=declare, intervene=intervene,
                          table=[[k[0], k[1], lo, hi] for k, (lo, hi) in table.items()], tree=tree_s, taxa=taxa, start=start,
                          length=300, max_evaluations=400))

    for up in ((0.05,) if budget < 8 else (0.05, 0.02, 0.1)):
        # branch length of the long Galago edge (unconstrained optimum ~0.12): lower bound is exactly 0
        add("length upper, then init rule", "F81", "length", "init-rule",
            [dict(par_name="length", edge="Galago", init=up * 0.6, upper=up)],
            [dict(par_name="length", edge="Galago", init=up * 0.8)], {("length", "Galago"): (0.0, up)})
        add("length upper on two edges, then regrouped", "F81", "length", "regroup",
            [dict(par_name="length", edge="Galago", init=up * 0.6, upper=up), dict(par_name="length", edge="Rhesus", init=up * 0.6, upper=up)],
            [dict(par_name="length", edges=["Galago", "Rhesus"], is_independent=False)],
            {("length", "Galago"): (0.0, up), ("length", "Rhesus"): (0.0, up)})
        add("length upper on two edges, regrouped then made independent again", "HKY85", "length", "regroup-independent",
            [dict(par_name="length", edge="Galago", init=up * 0.6, upper=up), dict(par_name="length", edge="Rhesus", init=up * 0.6, upper=up)],
            [dict(par_name="length", edges=["Galago", "Rhesus"], is_independent=False), dict(par_name="length", edges=["Galago", "Rhesus"], is_independent=True)],
            {("length", "Galago"): (0.0, up), ("length", "Rhesus"): (0.0, up)})
        add("length upper, then the rule restated as a per-edge value on a clade", "F81", "length", "init-rule-edges",
            [dict(par_name="length", edges=["Galago", "Rhesus"], init=up * 0.5, upper=up, is_independent=True)],
            [dict(par_name="length", edge="Galago", init=up * 0.9), dict(par_name="length", edge="Rhesus", init=up * 0.7)],
            {("length", "Galago"): (0.0, up), ("length", "Rhesus"): (0.0, up)})
    # rate parameter (lower bound 1e-6): kappa optimum is far above 2
    add("kappa upper, then init rule", "HKY85", "rate", "init-rule",
        [dict(par_name="kappa", init=1.5, upper=2.0)], [dict(par_name="kappa", init=1.8)], {("kappa", None): (1e-6, 2.0)})
    add("per-edge kappa upper, then init rule on one edge", "HKY85", "rate", "init-rule",
        [dict(par_name="kappa", is_independent=True, upper=2.0, init=1.5)], [dict(par_name="kappa", edge="Galago", init=1.9)],
        {("kappa", e): (1e-6, 2.0) for e in ("Galago", "Human", "Chimpanzee", "Rhesus", "edge.0")})
    add("kappa upper with lower=0, then init rule", "HKY85", "rate-lower0", "init-rule",
        [dict(par_name="kappa", init=1.5, lower=0.0, upper=2.0)], [dict(par_name="kappa", init=1.8)], {("kappa", None): (0.0, 2.0)})
    return cases


def _exported_bounds(lf, par, edge):
    """(lower, upper, value) the likelihood function exports for (par, edge)"""
    for r in lf.get_param_rules():
        if r["par_name"] != par or r.get("is_constant"):
            continue
        sc = r.get("edges", r.get("edge"))
        sc = [sc] if isinstance(sc, str) else sc
        if edge is None or sc is None or edge in sc:
            return r.get("lower"), r.get("upper"), float(r["init"])
    return None


def _run_declared_case(case):
    aln = _alignment(case["taxa"], case["start"], case["length"])
    lf = _mk_lf(case["model"], case["tree"], aln, case["declare"])
    for r in case["intervene"]:
        lf.set_param_rule(**r)
    info = {}
    for par, edge, lo, hi in case["table"]:
        got = _exported_bounds(lf, par, edge)
        if got is None or got[1] != hi or got[0] != lo:
            return dict(kind="lost", par=par, edge=edge, declared=[lo, hi], exported=None if got is None else list(got[:2])), info
    before = float(lf.lnL)
    _opt(lf, True, case["max_evaluations"])
    after = float(lf.lnL)
    info.update(before=before, after=after)
    active = 0
    for par, edge, lo, hi in case["table"]:
        got = _exported_bounds(lf, par, edge)
        v = got[2]
        if v > hi * (1 + 1e-9) or v < lo - 1e-12:
            return dict(kind="outside", par=par, edge=edge, declared=[lo, hi], value=v, exported=list(got[:2])), info
        if abs(v - hi) <= 1e-6 * hi:
            active += 1
    info["active"] = active
    if not after >= before - _tol(before):
        return dict(kind="worse", delta=after - before), info
    return None, info


def _spec_declared(ctx, out, rng, budget):
    for case in _declared_cases(budget):
        out["evaluations"] += 1
        try:
            prob, info = _run_declared_case(case)
        except Exception as e:
            prob, info = dict(kind="raise", exc=type(e).__name__, msg=str(e)[:160]), {}
        bump(out, "declared_case", case["label"])
        if prob is None:
            bump(out, "declared_outcome", "kept; bound active at the optimum" if info.get("active") else "kept; optimum inside")
            if info.get("active"):
                out["nontrivial"].add(("declared", case["label"], str(case["table"])))
            continue
        bump(out, "declared_outcome", prob["kind"].upper())
        if prob["kind"] == "lost":
            add_failure(out, "spec", "a declared bound is no longer exported after a later rule that does not restate bounds", case,
                        prob["declared"], prob, sig=f"declared-bound-lost:{case['pclass']}:{case['op']}")
        elif prob["kind"] == "outside":
            add_failure(out, "spec", "optimised value outside the bounds declared by the test", case, prob["declared"], prob,
                        sig=f"opt-outside-declared:{case['pclass']}:{case['op']}")
        elif prob["kind"] == "worse":
            add_failure(out, "spec", "optimise returned a lower log-likelihood (declared-bounds case)", case, info.get("before"), info.get("after"),
                        sig=f"opt-worse:declared-bounds:{case['pclass']}")
        else:
            add_failure(out, "spec", f"declared-bounds case raised {prob['exc']}", case, "no exception", prob,
                        sig=f"declared-raise:{prob['exc']}:{case['pclass']}:{case['op']}")


def spec_check(ctx, budget):
    out = new_outcome(
        "real alignments (windows of tests/data/primate_brca1.fasta, 3-5 taxa): nested initialisation over the named nested "
        "nucleotide pairs (same / not-same stationarity), parameter-scoping nestings and codon pairs reproduces lnL within "
        "1e-9*max(1,|lnL|); lf.optimise in local / global / global+local mode under max_evaluations 1..1000, tolerances, random "
        "starts never lowers lnL (same tolerance: the value is recomputed by a fresh calculator) and leaves parameters within "
        "bounds; hypothesis app LR >= 0. non-trivial = optimisation improved lnL / alt has more free parameters / LR > 0"
    )
    rng = ctx.subrng(f"spec{budget}")
    # a stream that RAISES (e.g. every lf.optimise refusing its start vector) must not keep the later streams from
    # turning the same defect into a concrete failing input; the exception is re-raised if nothing else was found
    pending = None
    for stream in (_spec_init, _spec_optimise, _spec_hypothesis, _spec_apps, _spec_declared):
        try:
            stream(ctx, out, rng, budget)
        except Exception as e:  # noqa: BLE001
            bump(out, "stream_raised", f"{stream.__name__}:{type(e).__name__}")
            pending = pending or e
    from . import c16_script

    c16_script.spec_stream(ctx, out, ctx.subrng(f"script{budget}"), budget, _script_helpers(), TREES)
    if pending is not None and not [f for f in out["failures"] if f["kind"] == "spec"]:
        raise pending
    return out


def _script_helpers():
    return dict(alignment=_alignment, mk_lf=_mk_lf, random_start=_random_start, tol=_tol, bounds_problem=_bounds_problem,
                bin_configs=BIN_CONFIGS)


# --------------------------------------------------------------------------
# findings
# --------------------------------------------------------------------------
def match_finding(f, k):
    if f.get("sig") not in k.get("sigs", []):
        return False
    r = k.get("restrict") or {}
    inp = f.get("input") or {}
    if r.get("check") and inp.get("check") != r["check"]:
        return False
    if r.get("exc") and (f.get("got") or {}).get("exc") != r["exc"]:
        return False
    if r.get("cls") and inp.get("cls") != r["cls"]:
        return False
    if r.get("null_in") and inp.get("null") not in r["null_in"]:
        return False
    if r.get("alt") and inp.get("alt") != r["alt"]:
        return False
    # (audit) an IndexError raised somewhere else on the same pair (e.g. in update_scoped_rules) is a different defect
    if r.get("msg_has") and r["msg_has"] not in str((f.get("got") or {}).get("msg", "")):
        return False
    return True


_RUNNERS = {"init": None, "optimise": None, "hypothesis": None}


def _rerun(case):
    if case.get("check") == "init":
        return _run_init_case(case)
    if case.get("check") == "optimise":
        return _run_opt_case(case)
    if case.get("check") == "hypothesis":
        return _run_hyp_case(case)
    if case.get("check") == "app":
        return _run_app_case(case)
    if case.get("check") == "declared":
        return _run_declared_case(case)
    if case.get("check") == "script":
        from . import c16_script

        return c16_script.run_case(case, _script_helpers())
    return None, {}


def check_witness(ctx, w):
    """replay a known finding's witness on the real code; a failure dict if it still fails"""
    out = new_outcome()
    prob, info = _rerun(w)
    if prob is None:
        return None
    if w.get("check") == "init" and prob["kind"] == "raise":
        add_failure(out, "spec", f"initialise_from_nested raised {prob['exc']} on a nested pair", w, "alt.lnL == null.lnL", prob,
                    sig=f"init-raise:{prob['exc']}:{w['cls']}")
    elif w.get("check") == "init":
        add_failure(out, "spec", "initialise_from_nested does not reproduce the nested lnL", w, info.get("null_lnL"), prob,
                    sig=f"init-lnL:{w['cls']}:{w.get('null_cfg', 'free')}:{w['null']}->{w['alt']}")
    else:
        add_failure(out, "spec", "witness still fails", w, None, prob, sig=f"{w.get('check')}:{prob['kind']}")
    return out["failures"][0]


def replay(ctx, data):
    f = data.get("failing_input") or {}
    case = f.get("input")
    if not case or "check" not in case:
        return False
    prob, info = _rerun(case)
    print("replayed:", prob, info)
    return prob is not None
