"""C09 helpers: tree generators (plain nested tuples, no cogent3), conversion to / from real
PhyloNode trees, and an *independent* oracle (path lengths, bipartitions, brute-force tree
distances) that shares no code with cogent3.

Nested form:  [name, length, [children...]]   name "" = node whose name is not `name_loaded`
              length = Fraction or None
"""
from __future__ import annotations

import itertools
from fractions import Fraction

META = "[]'\"(),:;_"  # characters that make get_newick quote a name
NAME_ALPHA = "abcdefghijklmnopqrstuvwxyzABCXYZ0123456789"
ODD_CHARS = " _'\"(),:;[].-+*/#@!%&=<>?|~^$`{}\\"


# --------------------------------------------------------------------------
# generators
# --------------------------------------------------------------------------
def rand_name(rng, odd, used):
    """printable ASCII name (length >= 2), optionally with characters that need quoting"""
    while True:
        k = rng.randint(2, 7)
        if odd:
            chars = [rng.choice(NAME_ALPHA + ODD_CHARS * 2) for _ in range(k)]
            # no leading/trailing blank (the writer turns blanks into underscores and the reader
            # strips the label), and not already wrapped in single quotes
            s = "".join(chars).strip()
            if len(s) < 2 or (s.startswith("'") and s.endswith("'")):
                continue
            if "  " in s:
                continue
        else:
            s = "".join(rng.choice(NAME_ALPHA) for _ in range(k))
        if s in used or s.startswith("edge") or s.startswith("root"):
            continue
        try:
            float(s)
            continue
        except ValueError:
            pass
        used.add(s)
        return s


def rand_len(rng, mode):
    if mode == "none":
        return None
    if mode == "mixed" and rng.random() < 0.25:
        return None
    if mode == "zero" and rng.random() < 0.2:
        return Fraction(0)
    return Fraction(rng.randint(1, 640), 64)


def rand_tree(rng, ntips, rooted, multifurc, name_mode, len_mode, odd_names):
    """random topology by repeatedly joining groups; returns nested form.
    name_mode: 'all' internal nodes named, 'none' unnamed, 'mixed'."""
    used = set()
    nodes = [[rand_name(rng, odd_names and rng.random() < 0.5, used), rand_len(rng, len_mode), []] for _ in range(ntips)]
    root_deg = 2 if rooted else rng.choice([3, 3, 3, 4, 5])
    root_deg = min(root_deg, ntips)

    def internal_name():
        if name_mode == "all" or (name_mode == "mixed" and rng.random() < 0.5):
            return rand_name(rng, odd_names and rng.random() < 0.3, used)
        return ""

    while len(nodes) > root_deg:
        k = 2
        if multifurc and rng.random() < 0.3:
            k = rng.choice([3, 3, 4])
        k = min(k, len(nodes) - root_deg + 1)
        if k < 2:
            break
        rng.shuffle(nodes)
        grp, nodes = nodes[:k], nodes[k:]
        nodes.append([internal_name(), rand_len(rng, len_mode), grp])
    rng.shuffle(nodes)
    return ["", None, nodes]


def exhaustive_small_trees():
    """all rooted/unrooted shapes on 3..5 tips up to child order (one representative each),
    with fixed distinct dyadic lengths"""
    out = []

    def shapes(tips):
        # all ways to build a node over the tip list (set partitions into >=2 blocks, recursively)
        if len(tips) == 1:
            yield tips[0]
            return
        for part in partitions(tips):
            if len(part) < 2:
                continue
            for combo in itertools.product(*[list(shapes(b)) for b in part]):
                yield list(combo)

    def partitions(xs):
        if not xs:
            yield []
            return
        first, rest = xs[0], xs[1:]
        for p in partitions(rest):
            yield [[first]] + p
            for i in range(len(p)):
                yield p[:i] + [[first] + p[i]] + p[i + 1 :]

    for n in (3, 4, 5):
        tips = [chr(ord("a") + i) for i in range(n)]
        for sh in shapes(tips):
            cnt = [0]

            def build(x, top=False):
                cnt[0] += 1
                me = cnt[0]
                ln = None if top else Fraction(3 * me + 1, 8)
                if isinstance(x, str):
                    return [x, ln, []]
                kids = [build(c) for c in x]
                return ["" if top else f"n{me}", ln, kids]

            out.append(build(sh, True))
    return out


# --------------------------------------------------------------------------
# nested-form utilities (independent oracle)
# --------------------------------------------------------------------------
def n_tips(t):
    if not t[2]:
        return [t[0]]
    out = []
    for c in t[2]:
        out += n_tips(c)
    return out


def n_internal_paths(t, path=()):
    """paths (tuples of child indices) of every node; yields (path, node)"""
    yield path, t
    for i, c in enumerate(t[2]):
        yield from n_internal_paths(c, path + (i,))


def n_size(t):
    return 1 + sum(n_size(c) for c in t[2])


def n_edges(t):
    """[(frozenset(tips below), length)] for every non-root node"""
    out = []

    def go(x):
        if not x[2]:
            return frozenset([x[0]])
        s = frozenset()
        for c in x[2]:
            cs = go(c)
            out.append((cs, c[1]))
            s |= cs
        return s

    go(t)
    return out


def oracle_dists(t, default=Fraction(1)):
    """{(a,b): path length} by definition: sum over edges separating a and b (a != b)"""
    tips = n_tips(t)
    edges = n_edges(t)
    res = {}
    for a in tips:
        for b in tips:
            if a == b:
                continue
            tot = Fraction(0)
            for side, ln in edges:
                if (a in side) != (b in side):
                    tot += default if ln is None else ln
            res[(a, b)] = tot
    return res


def oracle_bips(t, keep=None):
    """set of non-trivial bipartitions of the (kept) tip set, each as frozenset({side, complement})"""
    tips = set(n_tips(t))
    if keep is not None:
        tips &= set(keep)
    res = set()
    for side, _ in n_edges(t):
        s = frozenset(side & tips)
        o = frozenset(tips - s)
        if len(s) >= 2 and len(o) >= 2:
            res.add(frozenset([s, o]))
    return res


def oracle_clusters(t):
    """rooted clades with >= 2 tips below a non-root node"""
    return {side for side, _ in n_edges(t) if len(side) >= 2}


def n_reroot(t, path):
    """independent re-rooting of a nested tree at the internal node at `path` (undirected-graph walk;
    an edge keeps its length, the old root vanishes if it is left with two neighbours)"""
    nodes = []  # id -> [name, children ids, parent id, length]
    def add(x, parent):
        i = len(nodes)
        nodes.append([x[0], [], parent, x[1]])
        for c in x[2]:
            nodes[i][1].append(add(c, i))
        return i
    add(t, None)
    # locate the target
    tgt = 0
    for k in path:
        tgt = nodes[tgt][1][k]
    adj = {i: [] for i in range(len(nodes))}
    for i, (nm, kids, par, ln) in enumerate(nodes):
        for c in kids:
            adj[i].append((c, nodes[c][3], nodes[c][0]))
            adj[c].append((i, nodes[c][3], nodes[c][0]))
    def build(i, came, ln, nm):
        kids = [build(j, i, l2, n2) for j, l2, n2 in adj[i] if j != came]
        if not kids:
            return [nodes[i][0], ln, []]
        if len(kids) == 1 and came is not None and i == 0:
            # the old root with a single remaining neighbour: merge the two edges
            k = kids[0]
            return [k[0], None if (ln is None or k[1] is None) else ln + k[1], k[2]]
        return [nm if came is not None else "", ln, kids]
    return build(tgt, None, None, "")


def canon(t):
    """order-insensitive canonical form"""
    kids = sorted((canon(c) for c in t[2]), key=lambda x: repr(x))
    return [t[0], t[1], kids]


def min_assignment(cost):
    """exact optimum of the square assignment problem by dynamic programming over column subsets
    (independent of scipy; n <= 14)"""
    n = len(cost)
    if n == 0:
        return 0
    INF = float("inf")
    best = {0: 0}
    for i in range(n):
        nxt = {}
        for mask, v in best.items():
            for j in range(n):
                if not mask & (1 << j):
                    m2 = mask | (1 << j)
                    c = v + cost[i][j]
                    if c < nxt.get(m2, INF):
                        nxt[m2] = c
        best = nxt
    return best[(1 << n) - 1]


def oracle_matching_cluster(t1, t2):
    c1 = [set(x) for x in oracle_clusters(t1)]
    c2 = [set(x) for x in oracle_clusters(t2)]
    while len(c1) < len(c2):
        c1.append(set())
    while len(c2) < len(c1):
        c2.append(set())
    return min_assignment([[len(a ^ b) for b in c2] for a in c1])



def oracle_lrm(t1, t2):
    """matching split distance; None when the two trees have different numbers of splits"""
    tips = set(n_tips(t1))

    def sp(t):
        # every cogent3 'subset' (cluster with >1 tips below a non-root node) is one split
        return [set(x) for x in oracle_clusters(t)]

    s1, s2 = sp(t1), sp(t2)
    if len(s1) != len(s2):
        return None

    def w(a, b):
        return min(len(a ^ b), len(a ^ (tips - b)))

    return min_assignment([[w(a, b) for b in s2] for a in s1])


def n_collapse(t, k, rng):
    """contract up to k internal (non-root, non-tip) nodes into their parents (creates polytomies);
    a contracted node's length is added to its children so path lengths stay the same"""
    import copy

    t = copy.deepcopy(t)
    for _ in range(k):
        cands = []

        def walk(x):
            for i, c in enumerate(x[2]):
                if c[2]:
                    cands.append((x, i))
                    walk(c)

        walk(t)
        if not cands:
            break
        par, i = rng.choice(cands)
        c = par[2][i]
        kids = []
        for g in c[2]:
            ln = None if (g[1] is None or c[1] is None) else g[1] + c[1]
            kids.append([g[0], ln, g[2]])
        par[2][i : i + 1] = kids
    return t


def n_add_unary(t, k, rng, used):
    """insert k single-child nodes on random edges, splitting the edge length"""
    import copy

    t = copy.deepcopy(t)
    for j in range(k):
        nodes = [(p, n) for p, n in n_internal_paths(t) if n[2]]
        p, par = rng.choice(nodes)
        i = rng.randrange(len(par[2]))
        c = par[2][i]
        if c[1] is None:
            continue
        a = Fraction(rng.randint(0, int(c[1] * 64)), 64)
        nm = f"u{j}x{rng.randint(0, 10**6)}"
        par[2][i] = [nm, c[1] - a if c[1] - a > 0 else Fraction(1, 64), [[c[0], a if a > 0 else Fraction(1, 64), c[2]]]]
    return t


def oracle_lca_tips(t, names):
    """tips of the smallest clade (possibly the whole tree) containing all the names"""
    names = set(names)

    def go(x):
        tips = set(n_tips(x))
        if not names <= tips:
            return None
        for c in x[2]:
            r = go(c)
            if r is not None:
                return r
        return tips

    return go(t)


def oracle_tip_heights(t):
    """{id-path: max root-ward distance from the node to a tip below it}"""
    res = {}

    def go(x, path):
        if not x[2]:
            res[path] = Fraction(0)
            return Fraction(0)
        h = max(go(c, path + (i,)) + (c[1] or 0) for i, c in enumerate(x[2]))
        res[path] = h
        return h

    go(t, ())
    return res


def pearson(xs, ys):
    n = len(xs)
    mx, my = sum(xs) / n, sum(ys) / n
    sxy = sum((x - mx) * (y - my) for x, y in zip(xs, ys))
    sxx = sum((x - mx) ** 2 for x in xs)
    syy = sum((y - my) ** 2 for y in ys)
    if sxx == 0 or syy == 0:
        return None
    return float(sxy) / (float(sxx) ** 0.5 * float(syy) ** 0.5)


def frac_json(t):
    """nested form -> JSON-able for the Lean driver"""
    ln = None if t[1] is None else f"{t[1].numerator}/{t[1].denominator}"
    return [t[0], ln, [frac_json(c) for c in t[2]]]


def unfrac_json(j):
    ln = None
    if j[1] is not None:
        a, _, b = j[1].partition("/")
        ln = Fraction(int(a), int(b or 1))
    return [j[0], ln, [unfrac_json(c) for c in j[2]]]


# --------------------------------------------------------------------------
# real trees
# --------------------------------------------------------------------------
def build_real(t):
    """nested form -> PhyloNode, through the same callback the newick parser uses
    (TreeBuilder.create_edge), so unnamed nodes get 'edge.N' / name_loaded=False"""
    from cogent3.core.tree import TreeBuilder

    b = TreeBuilder().create_edge

    def go(x, top):
        kids = [go(c, False) for c in x[2]]
        params = {} if x[1] is None else {"length": float(x[1])}
        return b(kids or None, x[0] or None, params)

    r = go(t, True)
    if not r.name_loaded:
        r.name = "root"
    return r


def real_nested(node):
    ln = node.length
    if ln is not None:
        ln = Fraction(ln)
    nm = node.name if (node.name_loaded and node.name is not None) else ""
    return [nm, ln, [real_nested(c) for c in node.children]]


def real_node_at(node, path):
    for i in path:
        node = node.children[i]
    return node


def snapshot(node):
    """deep structural snapshot used for the argument-unmodified check
    (names, name_loaded, params, child structure; cache attributes are ignored; a param whose value
    is None is the same as an absent one: PhyloNode.__init__ adds 'length': None to a params dict)"""
    return (
        node.name,
        node.name_loaded,
        tuple(sorted((k, repr(v)) for k, v in node.params.items() if v is not None)),
        id(node),
        None if node._parent is None else id(node._parent),
        tuple(snapshot(c) for c in node.children),
    )


def snapshot_diff(a, b, path=()):
    """human-readable first difference between two snapshots"""
    if a[:5] != b[:5]:
        return f"node {list(path)}: {a[:3]} -> {b[:3]}" + ("" if a[3:5] == b[3:5] else " (identity/parent changed)")
    if len(a[5]) != len(b[5]):
        return f"node {list(path)} ({a[0]}): {len(a[5])} children -> {len(b[5])} children"
    for i, (x, y) in enumerate(zip(a[5], b[5])):
        d = snapshot_diff(x, y, path + (i,))
        if d:
            return d
    return None
