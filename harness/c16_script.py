"""C16 stream (I): a scripted ADVERSARY optimiser on a REAL likelihood function.

`lf.optimise(...)` (ParameterController.optimise -> Calculator.optimise -> maximise -> wrapper stack) is run with
`optimisers.GlobalOptimiser/LocalOptimiser` replaced by optimisers that ask for the value at a seeded sequence of points
around the start vector (small moves, large moves that leave the bounds, returns to an earlier point) and then RETURN
THE LAST POINT THEY TRIED — which is almost never the best one.  Real optimisers end at (or next to) their best point,
so "the wrapper re-applies the best point" is only exercised when the last and the best point differ.

Oracle (independent of the Lean model): afterwards lf.lnL >= max(lnL before, every finite value the adversary was shown)
within 1e-9*max(1,|lnL|); every free parameter is within its declared bounds; MaximumEvaluationsReached never leaves
lf.optimise; an exception leaves only as the documented ArithmeticError("FORCED EXIT ...") with limit_action="raise" after
the evaluation limit really cut the adversary short — and then the likelihood function still holds the best point;
limit_action="ignore"/"warn" return.  40% of the cases use a rate-heterogeneity model with bins (free / gamma rate
distribution, binned kappa): those likelihood functions own optimisable leaf definitions that are not user-visible
parameter names, which the adversary moves like every other coordinate."""
from __future__ import annotations

import math
import random
import warnings

from .common import add_failure, bump

MODELS = ["F81", "HKY85", "TN93", "GTR"]


def gen_case(rng, trees, bin_configs=()):
    tree_s, taxa = trees[rng.choice([0, 0, 1])]
    nq = rng.choice([1, 2, 3, 4, 6, 9])
    local = rng.choice([True, False, None])
    r = rng.random()
    me = None if r < 0.25 else rng.randint(1, nq + 3)
    cfg = rng.choice(bin_configs) if bin_configs and rng.random() < 0.4 else None
    model = rng.choice(MODELS)
    if cfg and cfg.get("needs") == "kappa":
        model = "HKY85"
    return dict(
        check="script", model=model, model_kw=cfg["model_kw"] if cfg else None, bins=cfg["bins"] if cfg else None, tree=tree_s, taxa=taxa, start=rng.randrange(0, 2400, 3),
        length=rng.choice([90, 150, 300]), local=local, nq=nq, split=rng.randint(0, nq) if local is None else None,
        max_evaluations=me, limit_action=rng.choice(["ignore", "warn", "raise"]), script_seed=rng.randrange(10**6),
        start_seed=rng.randrange(10**6) if rng.random() < 0.5 else None,
    )


def run_case(case, helpers):
    """-> (problem or None, info)"""
    import numpy

    from cogent3.maths import optimisers as O

    aln = helpers["alignment"](case["taxa"], case["start"], case["length"], False)
    lf = helpers["mk_lf"](case["model"], case["tree"], aln, (), case.get("model_kw"), case.get("bins"))
    if case.get("start_seed") is not None:
        helpers["random_start"](lf, random.Random(case["start_seed"]), case["model"])
    before = float(lf.lnL)
    shown, state = [], dict(cut=False, calls=0)
    nq = case["nq"]
    if case["local"] is None:
        parts = {"G": case["split"], "L": nq - case["split"]}
    elif case["local"]:
        parts = {"G": 0, "L": nq}
    else:
        parts = {"G": nq, "L": 0}

    def mk(tag):
        class Adversary:
            def __init__(self, *a, **kw):
                pass

            def maximise(self, fn, x, **kw):
                r = random.Random(f"{case['script_seed']}:{tag}")
                x0 = numpy.array(x, float)
                buf = numpy.array(x, float)  # one buffer, mutated in place, as the real optimisers do
                visited = [x0.copy()]
                for i in range(parts[tag]):
                    u = r.random()
                    if u < 0.15 and len(visited) > 1:
                        buf[:] = r.choice(visited)  # back to an earlier point
                    else:
                        scale = 30.0 if u < 0.3 else (0.6 if u < 0.7 else 0.1)
                        base = r.choice(visited)
                        buf[:] = base
                        for j in r.sample(range(len(buf)), r.randint(1, len(buf))):
                            buf[j] = base[j] + r.gauss(0, scale)
                    visited.append(buf.copy())
                    try:
                        v = fn(buf)
                    except O.MaximumEvaluationsReached:
                        state["cut"] = True
                        raise
                    state["calls"] += 1
                    shown.append(float(v))
                # a final point that is (almost surely) not the best one
                return buf

        return Adversary

    og, ol = O.GlobalOptimiser, O.LocalOptimiser
    O.GlobalOptimiser, O.LocalOptimiser = mk("G"), mk("L")
    exc = None
    warned = []
    try:
        with warnings.catch_warnings(record=True) as wlist:
            warnings.simplefilter("always")
            try:
                lf.optimise(local=case["local"], max_evaluations=case["max_evaluations"], limit_action=case["limit_action"],
                            show_progress=False)
            except O.MaximumEvaluationsReached as e:
                exc = ("MaximumEvaluationsReached", str(e)[:80])
            except ArithmeticError as e:
                exc = ("ArithmeticError", str(e)[:80])
            except Exception as e:  # noqa: BLE001
                exc = (type(e).__name__, str(e)[:80])
            warned = [str(w.message)[:80] for w in wlist if "FORCED EXIT" in str(w.message)]
    finally:
        O.GlobalOptimiser, O.LocalOptimiser = og, ol
    after = float(lf.lnL)
    finite = [v for v in shown if math.isfinite(v)]
    best = max([before] + finite)
    info = dict(before=before, after=after, best_seen=best, shown=len(shown), finite=len(finite), cut=state["cut"],
                exc=exc, warned=bool(warned), improved=best > before + 1e-9)
    tol = helpers["tol"](best)
    if exc is not None:
        forced = exc[0] == "ArithmeticError" and "FORCED EXIT" in exc[1]
        if not (forced and case["limit_action"] == "raise" and state["cut"]):
            return dict(kind="raise", exc=exc[0], msg=exc[1], cut=state["cut"]), info
    elif state["cut"] and case["limit_action"] == "raise":
        return dict(kind="no-forced-exit", cut=True), info
    if warned and not (state["cut"] and case["limit_action"] == "warn"):
        return dict(kind="spurious-warning", msg=warned[0], cut=state["cut"]), info
    if not (after >= best - tol):
        return dict(kind="not-best", after=after, best_seen=best, before=before, delta=after - best), info
    b = helpers["bounds_problem"](lf)
    if b is not None:
        return dict(kind="bounds", **b), info
    return None, info


def spec_stream(ctx, out, rng, budget, helpers, trees):
    n = min(100 * budget, 1000)
    for _ in range(n):
        case = gen_case(rng, trees, helpers.get("bin_configs", ()))
        prob, info = run_case(case, helpers)
        out["evaluations"] += 1
        mode = {True: "local", False: "global", None: "global+local"}[case["local"]]
        bump(out, "script_mode", mode)
        bump(out, "script_bins", f"{case['model_kw'].get('ordered_param')}/{case['model_kw'].get('distribution')}/{case['bins']}" if case.get("bins") else "none")
        bump(out, "script_limit_action", case["limit_action"] + ("/cut" if info.get("cut") else "/full"))
        bump(out, "script_shown", str(min(info.get("shown", 0), 9)))
        if info.get("improved"):
            out["nontrivial"].add(("script", case["script_seed"]))
            bump(out, "script_last_vs_best", "best!=last" if info.get("after", 0) > info.get("before", 0) else "same")
        if len(out["samples"]) < 40 and info.get("improved"):
            out["samples"].append(dict(stream="script", case={k: case[k] for k in ("model", "local", "nq", "max_evaluations", "limit_action")},
                                       before=info["before"], after=info["after"], best_seen=info["best_seen"]))
        if prob is not None:
            what = {
                "not-best": "lf.optimise with an adversary optimiser ends below the best value it evaluated",
                "raise": "lf.optimise lets an exception out that limit_action does not allow",
                "no-forced-exit": "evaluation limit hit with limit_action='raise' but no ArithmeticError",
                "spurious-warning": "FORCED EXIT warning without a cut-off / with another limit_action",
                "bounds": "a free parameter ends outside its declared bounds after lf.optimise with an adversary optimiser",
            }[prob["kind"]]
            add_failure(out, "spec", what, case, "lnL >= max(before, values shown); parameters within bounds", prob,
                        confirmed=True, sig=f"script:{prob['kind']}:{mode}:{case['limit_action']}:{'cut' if info.get('cut') else 'full'}")
            return
