"""C18 — Aligners preserve their inputs and are optimal for their own model.

Tie (shadow): the harness captures the *actual* pair-HMM the library builds inside
`classic_align_pairwise` (the `(state_directions, T)` pair of `PairHMM._transition_matrix` and the log
emission arrays of `PairEmissionProbs._getEmissionProbs`) by observing the outermost
`PairEmissionProbs.dp` call, converts every float64 to an exact rational and sends it with the sequences to
the Lean driver.  The driver returns (a) the exact optimum of the Lean Viterbi model (proved to be the
maximum over *all* state paths, `Props/C18.lean`) and (b) the exact spec-level score of the alignment the
implementation *returned*.  Requirements: reported score = score of the returned path = optimum
(relative tolerance 1e-9, ties between different paths allowed), rows degap to the inputs, rows have equal
length, and the linear-space (Hirschberg) and full DP code paths agree on the same input
(`cogent3.align.pairwise.HIRSCHBERG_LIMIT` toggled from here).

App level: `pairwise_to_multiple` / `align_to_ref` / `progressive_align` on the real code against the
row-level spec; the gap-dict model `Model/GapMerge.lean` is compared with the real private helpers.
"""
from __future__ import annotations

import contextlib
import itertools
import math
from fractions import Fraction

import json

from .common import LEAN, SRC, VERIF, add_failure, bump, new_outcome, rat, unrat

PROP = "C18"
PROPS_FILES = ["CogentModel/Props/C18.lean", "CogentModel/Props/C18G.lean"]
LEAN_TARGETS = ["CogentModel.Props.C18", "CogentModel.Props.C18G"]
DRIVER = "drv_c18"
GEN_FILE_GAPS = LEAN / "CogentModel" / "Gen" / "C18Gaps.lean"
GEN_FILE_POG = LEAN / "CogentModel" / "Gen" / "C18Pog.lean"
TRUSTED = [
    "translator/c18_gaps2lean.py (ast only): _GapOffset.__init__/__getitem__, _gap_difference, _merged_gaps, "
    "_subset_gaps_to_align_coords, _combined_refseq_gaps, _gaps_for_injection of app/align.py -> Gen/C18Gaps.lean on every run; "
    "Props/C18G.lean proves every generated definition equal to the hand model Model/GapMerge.lean for all arguments (dicts as "
    "association lists with unique keys; rules R1-R6 of the translator's docstring are the trusted reading of dict iteration, "
    "update, the _ordered cache and set order)",
    "translator/c18_pog2lean.py (ast only): align/indel_positions.py pog_traceback + POGBuilder.__init__/add_skipped/add_aligned/"
    "get_pog sliced to the attribute aligned_positions -> Gen/C18Pog.lean on every run; Props/C18G.lean proves it equal to "
    "Model/Progressive.lean::pogTraceback for all widths and all position lists (asserts are not modelled; statements that only "
    "maintain remap/last/result/states are sliced away after a check that they cannot leave the method)",
    "hand-written model lean/CogentModel/Model/PairHMM.lean of the numba Viterbi kernel + traceback (tied by the "
    "exact-rational shadow: optimum/path score recomputed from the real hmm's own float64 T and emission arrays)",
    "hand-written model lean/CogentModel/Model/GapMerge.lean of app/align.py gap-dict helpers (tied by exact "
    "comparison with the real _GapOffset/_merged_gaps/_combined_refseq_gaps/_gaps_for_injection/pairwise_to_multiple)",
    "Spec/PairHMM.lean (path, score) and the row spec at the bottom of Model/GapMerge.lean",
    "hand-written model lean/CogentModel/Model/Progressive.lean of the progressive column merge (pog_traceback completion, "
    "_calcAligneds re-gapping in the pinned and the repaired variant), tied by exact comparison with the real code on every "
    "observed step of progressive_align and on random guide trees / DP outcomes",
]
ASSUMPTIONS = [
    "float64 rounding inside the DP is not modelled: scores are compared under relative tolerance 1e-9",
    "exp/log that turn the classic score matrix and gap costs into the HMM happen in Python; the model starts at the "
    "log-space arrays the kernel receives",
    "progressive alignment: the POG kernel's scores are not modelled; its OUTPUT at every node (aligned positions) is taken as "
    "given and the column-merge step (pog_traceback, map_traceback, _calcAligneds/merge_maps, rendering) is modelled and tied",
    "empty sequences make the aligners raise; recorded in the distribution, not a property violation",
    "user-model oracle (harness user_hmm): the HMM the caller's score matrix and gap costs denote is rebuilt independently "
    "(row-normalised exp(-cost), match emission log|alphabet| + Sd[s1 motif, s2 motif]); only the BEGIN distribution mirrors "
    "cogent3's own definition (row 0 of T^1024); compared under relative tolerance 1e-7",
]

TOL = 1e-9
DNA = "ACGT"


# --------------------------------------------------------------------------
# translator step
# --------------------------------------------------------------------------
def generate(ctx):
    import sys

    sys.path.insert(0, str(VERIF))
    from translator import c18_gaps2lean

    try:
        lean, info, problems = c18_gaps2lean.translate(SRC / "app" / "align.py")
    except (c18_gaps2lean.TranslationError, SyntaxError, OSError) as e:
        return [f"c18_gaps2lean: {e}"]
    ctx.notes.append(f"c18_gaps2lean: {json.dumps(info.get('seen', {}))[:600]}")
    if lean is not None and c18_gaps2lean.write_if_changed(GEN_FILE_GAPS, lean):
        ctx.notes.append("Gen/C18Gaps.lean was rewritten (source of the gap helpers differs from the last generated text)")
    out = [f"c18_gaps2lean: {p}" for p in problems]
    # column completion of progressive alignment: pog_traceback + the POGBuilder methods it drives
    from translator import c18_pog2lean

    try:
        lean, info, problems = c18_pog2lean.translate(SRC / "align" / "indel_positions.py")
    except (c18_pog2lean.TranslationError, SyntaxError, OSError) as e:
        return out + [f"c18_pog2lean: {e}"]
    ctx.notes.append(f"c18_pog2lean: {json.dumps(info.get('seen', {}))[:400]}")
    if lean is not None and c18_pog2lean.write_if_changed(GEN_FILE_POG, lean):
        ctx.notes.append("Gen/C18Pog.lean was rewritten (source of pog_traceback / POGBuilder differs from the last generated text)")
    return out + [f"c18_pog2lean: {p}" for p in problems]

PROT = "ACDEFGHIKLMNPQRSTVWY"


def _tol(x):
    return TOL * max(1.0, abs(float(x)))


# --------------------------------------------------------------------------
# running the real pairwise aligner and capturing its hmm
# --------------------------------------------------------------------------
@contextlib.contextmanager
def _capture(limit):
    """observe the outermost PairEmissionProbs.dp call; set HIRSCHBERG_LIMIT"""
    from cogent3.align import pairwise

    cap = {"depth": 0, "calls": 0, "outer": None}
    orig = pairwise.PairEmissionProbs.dp
    old_limit = pairwise.HIRSCHBERG_LIMIT

    def dp(self, TM, dp_options, cells=None, backward=False):
        cap["calls"] += 1
        outer = cap["depth"] == 0
        cap["depth"] += 1
        try:
            res = orig(self, TM, dp_options, cells=cells, backward=backward)
        finally:
            cap["depth"] -= 1
        if outer and cap["outer"] is None:
            cap["outer"] = (self, TM, dp_options, res)
        return res

    pairwise.PairEmissionProbs.dp = dp
    pairwise.HIRSCHBERG_LIMIT = limit
    try:
        yield cap
    finally:
        pairwise.PairEmissionProbs.dp = orig
        pairwise.HIRSCHBERG_LIMIT = old_limit


def _mk(seq, name, moltype):
    from cogent3 import make_seq

    return make_seq(seq, name=name, moltype=moltype)


def _sdict(moltype, mat):
    """score dict over the moltype alphabet from a nested list"""
    letters = DNA_ORDER(moltype)
    return {(a, b): mat[i][j] for i, a in enumerate(letters) for j, b in enumerate(letters)}


_ALPHA = {}


def DNA_ORDER(moltype):
    if moltype not in _ALPHA:
        from cogent3 import get_moltype

        _ALPHA[moltype] = list(get_moltype(moltype).alphabet)
    return _ALPHA[moltype]


def run_pairwise(s1, s2, moltype, mat, d, e, local, limit):
    """returns dict(rows, score, hmm) or dict(exc=...)"""
    import numpy
    from cogent3.align import align

    S = _sdict(moltype, mat)
    try:
        a, b = _mk(s1, "a", moltype), _mk(s2, "b", moltype)
        with _capture(limit) as cap, numpy.errstate(all="ignore"):
            aln, score = align.classic_align_pairwise(a, b, S, d, e, local, return_score=True)
    except Exception as ex:  # noqa: BLE001
        return dict(exc=type(ex).__name__)
    rows = aln.to_dict()
    res = dict(rows=[rows["a"], rows["b"]], score=float(score), calls=cap["calls"])
    ep, TM, opts, out = cap["outer"]
    with numpy.errstate(all="ignore"):
        T = numpy.log(TM[1])
        M, (X, Y) = ep._getEmissionProbs(opts.use_logs, opts.use_cost_function)
    sd = [tuple(int(v) for v in r) for r in TM[0]]
    res["hmm"] = dict(sd=sd, T=T, M=M[:, 1:-1, 1:-1], X=X[:, 1:-1], Y=Y[:, 1:-1],
                      xi=[int(v) - 1 for v in ep.pair.x_index[1:-1]], yi=[int(v) - 1 for v in ep.pair.y_index[1:-1]],
                      flags=opts.as_tuple)
    try:
        res["tb"] = [(int(s), int(p[0]), int(p[1])) for s, p, _ in out[1].tlist]
    except Exception:  # noqa: BLE001
        res["tb"] = None
    # where the local alignment sits in the inputs
    offs = []
    for nm, full in (("a", s1.upper()), ("b", s2.upper())):
        sub = rows[nm].replace("-", "")
        o = None
        try:
            pc = aln.named_seqs[nm].data.parent_coordinates()
            if full[pc[1]: pc[1] + len(sub)] == sub:
                o = int(pc[1])
        except Exception:  # noqa: BLE001
            pass
        if o is None:
            o = full.find(sub)
        offs.append(o)
    res["offs"] = offs
    return res


def _num(x):
    x = float(x)
    if math.isnan(x):
        raise ValueError("nan in a cell the kernel reads")
    if math.isinf(x):
        if x > 0:
            raise ValueError("+inf score")
        return None
    return rat(x)


def hmm_request(h, local, path, i0, j0):
    sd = sorted(h["sd"])  # by state id
    ids = [s[0] for s in sd]
    assert ids == list(range(1, len(sd) + 1)), ids
    assert all(dx or dy for _, _, dx, dy in sd), "silent state"
    return dict(
        dirs=[[bool(dx), bool(dy)] for _, _, dx, dy in sd],
        bins=[b for _, b, _, _ in sd],
        T=[[_num(v) for v in row] for row in h["T"]],
        xi=h["xi"], yi=h["yi"],
        M=[[[_num(v) for v in r] for r in m] for m in h["M"]],
        xg=[[_num(v) for v in r] for r in h["X"]],
        yg=[[_num(v) for v in r] for r in h["Y"]],
        local=bool(local), path=path, i0=i0, j0=j0,
    )


def rows_to_path(h, r1, r2):
    """state ids of the returned alignment; None if a direction has no unique state or a column is all-gap"""
    by_dir = {}
    for s, _, dx, dy in h["sd"]:
        by_dir.setdefault((bool(dx), bool(dy)), []).append(s)
    path = []
    for c1, c2 in zip(r1, r2):
        k = (c1 != "-", c2 != "-")
        if k == (False, False) or len(by_dir.get(k, [])) != 1:
            return None
        path.append(by_dir[k][0])
    return path


def float_path_score(h, local, path, i0, j0):
    """independent float recomputation in Python (not via Lean): informational cross-check"""
    sd = {s: (b, dx, dy) for s, b, dx, dy in h["sd"]}
    T = h["T"]
    i, j, prev, tot = i0, j0, 0, 0.0
    for s in path:
        b, dx, dy = sd[s]
        i += dx
        j += dy
        tot += float(T[prev][s])
        if dx and dy:
            tot += float(h["M"][b][h["xi"][i - 1]][h["yi"][j - 1]])
        elif dx:
            tot += float(h["X"][b][h["xi"][i - 1]])
        else:
            tot += float(h["Y"][b][h["yi"][j - 1]])
        prev = s
    if not local:
        tot += float(T[prev][len(T) - 1])
    return tot


# --------------------------------------------------------------------------
# generators
# --------------------------------------------------------------------------
def _rand_seq(rng, letters, n):
    return "".join(rng.choice(letters) for _ in range(n))


def _mutate(rng, s, letters):
    out = []
    for c in s:
        r = rng.random()
        if r < 0.12:
            continue
        if r < 0.24:
            out.append(rng.choice(letters))
            continue
        out.append(c)
        if rng.random() < 0.1:
            out.append(_rand_seq(rng, letters, rng.randint(1, 3)))
    return "".join(out) or rng.choice(letters)


def gen_pair(rng, letters, maxlen):
    kind = rng.choice(["random", "random", "related", "related", "identical", "repeat", "len1", "unrelated", "nested"])
    n = rng.randint(1, maxlen)
    if kind == "random":
        return kind, _rand_seq(rng, letters, n), _rand_seq(rng, letters, rng.randint(1, maxlen))
    if kind == "related":
        a = _rand_seq(rng, letters, n)
        return kind, a, _mutate(rng, a, letters)[:maxlen]
    if kind == "identical":
        a = _rand_seq(rng, letters, n)
        return kind, a, a
    if kind == "repeat":
        u = _rand_seq(rng, letters, rng.randint(1, 2))
        return kind, (u * maxlen)[: rng.randint(1, maxlen)], (u * maxlen)[: rng.randint(1, maxlen)]
    if kind == "len1":
        a, b = rng.choice(letters), _rand_seq(rng, letters, rng.randint(1, maxlen))
        return (kind, a, b) if rng.random() < 0.5 else (kind, b, a)
    if kind == "unrelated":
        h = max(1, len(letters) // 2)
        return kind, _rand_seq(rng, letters[:h], n), _rand_seq(rng, letters[h:] or letters, rng.randint(1, maxlen))
    a = _rand_seq(rng, letters, n)
    i = rng.randint(0, len(a) - 1)
    j = rng.randint(i + 1, len(a))
    pre, post = _rand_seq(rng, letters, rng.randint(0, 4)), _rand_seq(rng, letters, rng.randint(0, 4))
    return kind, a, (pre + a[i:j] + post)[:maxlen]


def gen_matrix(rng, moltype, symmetric=False):
    from cogent3.align import align

    letters = DNA_ORDER(moltype)
    n = len(letters)
    kind = rng.choice(["structured", "structured", "generic", "rand_sym_int", "rand_asym_float", "flat"])
    if symmetric and kind in ("rand_asym_float", "flat"):
        kind = "rand_sym_int"
    if kind == "structured" and moltype == "dna":
        m, ts, tv = rng.choice([(10, -1, -8), (5, -4, -4), (2, -1, -1), (1, -1, -1), (10, -9, -9), (3, 1, -2), (1, 0, 0)])
        S = align.make_dna_scoring_dict(m, ts, tv)
        return f"dna({m},{ts},{tv})", [[S[a, b] for b in letters] for a in letters]
    if kind in ("structured", "generic"):
        m = rng.choice([1, 2, 3, 5, 10])
        return f"generic({m})", [[m if a == b else -1 for b in letters] for a in letters]
    if kind == "rand_sym_int":
        mat = [[0] * n for _ in range(n)]
        for i in range(n):
            for j in range(i, n):
                mat[i][j] = mat[j][i] = rng.randint(4, 10) if i == j else rng.randint(-8, 3)
        return kind, mat
    if kind == "rand_asym_float":
        return kind, [[round(rng.uniform(-6, 8), 3) for _ in range(n)] for _ in range(n)]
    return "flat", [[rng.choice([0, 1])] * n for _ in range(n)]


EDGE_PENALTIES = [(0, 2), (20, 0), (0, 0), (0, 1), (5, 0), (1e-6, 1e-6), (0.001, 0.5), (300, 2), (20, 100), (250, 0)]


def gen_gap(rng, edge=0.0):
    """(gap open d, gap extend e); with probability `edge` a boundary pair: 0 (insertion, extension, both), tiny, huge"""
    if rng.random() < edge:
        return rng.choice(EDGE_PENALTIES)
    if rng.random() < 0.7:
        return rng.choice([1, 2, 5, 10, 20]), rng.choice([0.5, 1, 2, 5])
    return round(rng.uniform(0.1, 25), 2), round(rng.uniform(0.0, 6), 2)


# --------------------------------------------------------------------------
# one pairwise case against the spec (Lean optimum + exact path score)
# --------------------------------------------------------------------------
def user_hmm(moltype, mat, d, e, s1, s2):
    """the pair HMM the *user's* parameters denote, built here independently of cogent3 (documented construction:
    classic gap costs d/e -> row-normalised exp(-cost) over X, Y, M with no X<->Y, BEGIN = stationary distribution,
    END = 1; match emission of (s1 motif a, s2 motif b) = log(len(alphabet)) + Sd[a, b]; gap emissions 0).
    None when a sequence has characters outside the alphabet (ambiguity codes)."""
    import numpy

    letters = DNA_ORDER(moltype)
    n = len(letters)
    if any(c not in letters for c in s1 + s2):
        return None
    with numpy.errstate(all="ignore"):
        C = numpy.array([[e, numpy.inf, 0.0], [numpy.inf, e, 0.0], [d, d, 0.0]], float)
        T3 = numpy.exp(-C)
        T3 = T3 / T3.sum(axis=1)[:, None]
        # BEGIN distribution: cogent3 *defines* it as row 0 of T^(2^10) (maths/markov.py), an approximation of the
        # stationary distribution that can be ~1e-6 off in log space; it is part of the aligner's own model, so mirrored
        pw = T3
        for _ in range(10):
            pw = numpy.dot(pw, pw)
        pi = pw[0]
        T = numpy.zeros((5, 5))
        T[1:4, 1:4] = T3
        T[0, 1:4] = pi
        T[:, 4] = 1.0
        logT = numpy.log(T)
    M = numpy.array([[[math.log(n) + float(mat[a][b]) for b in range(n)] for a in range(n)]])
    Z = numpy.zeros((1, n))
    return dict(sd=[(1, 0, 1, 0), (2, 0, 0, 1), (3, 0, 1, 1)], T=logT, M=M, X=Z, Y=Z,
                xi=[letters.index(c) for c in s1], yi=[letters.index(c) for c in s2])


def is_asymmetric(mat):
    return any(mat[i][j] != mat[j][i] for i in range(len(mat)) for j in range(i))


LIMITS = {"full": 10**8, "hirschberg": 0, "mixed": 150}


def _prepare_case(case):
    """runs the real code for one configuration under every HIRSCHBERG_LIMIT setting (local alignment too);
    returns (real results, driver requests)"""
    s1, s2, moltype, mat, d, e, local = case["s1"], case["s2"], case["moltype"], case["mat"], case["d"], case["e"], case["local"]
    runs = {algo: run_pairwise(s1, s2, moltype, mat, d, e, local, lim) for algo, lim in LIMITS.items()}
    reqs = {}
    S1, S2 = s1.upper(), s2.upper()
    uh = user_hmm(moltype, mat, d, e, S1, S2) if S1 and S2 else None
    for algo, r in runs.items():
        if "exc" in r:
            continue
        h = r["hmm"]
        path = rows_to_path(h, *r["rows"])
        r["path"] = path
        i0, j0 = (r["offs"] if local else (0, 0))
        if path is not None and i0 >= 0 and j0 >= 0:
            try:
                reqs[algo] = ("viterbi", hmm_request(h, local, path, i0, j0))
            except (ValueError, AssertionError) as ex:
                r["bad_hmm"] = str(ex)
            if algo == "hirschberg" and not local and algo in reqs:
                reqs["hmodel"] = ("hirschberg", dict(reqs[algo][1], limit=LIMITS["hirschberg"]))
            if algo == "mixed" and not local and algo in reqs:
                reqs["mmodel"] = ("hirschberg", dict(reqs[algo][1], limit=LIMITS["mixed"]))
            if uh is not None and algo == "full":
                upath = rows_to_path(uh, *r["rows"])
                if upath is not None:
                    reqs["user"] = ("viterbi", hmm_request(uh, local, upath, i0, j0))
    return runs, reqs


def check_pair_cases(ctx, out, cases, kind_for_model="corr"):
    """cases: list of dicts(s1,s2,moltype,mat,d,e,local,tag). Real code vs spec; Lean model vs real."""
    prepared = [_prepare_case(c) for c in cases]
    flat = []
    for idx, (runs, reqs) in enumerate(prepared):
        for algo, rq in reqs.items():
            flat.append((idx, algo, rq))
    replies = ctx.driver.batch([rq for _, _, rq in flat]) if flat else []
    rep = {}
    for (idx, algo, _), r in zip(flat, replies):
        rep[(idx, algo)] = r
    # tie of the model's path -> gapped rows function (rowsOfPath = as_bin_pos_tuples + seq_traceback; the function the
    # rows_* / *_alignment_sound theorems speak about): the implementation's own traceback steps must give the implementation's rows
    rflat = []
    for idx, case in enumerate(cases):
        for algo, r in prepared[idx][0].items():
            if "exc" in r or r.get("tb") is None or "bad_hmm" in r:
                continue
            sd = sorted(r["hmm"]["sd"])
            rflat.append((idx, algo, ("rows", dict(dirs=[[bool(dx), bool(dy)] for _, _, dx, dy in sd], s1=case["s1"].upper(),
                                                   s2=case["s2"].upper(), path=[list(t) for t in r["tb"]]))))
    for (idx, algo, (_, rq)), got in zip(rflat, ctx.driver.batch([rq for _, _, rq in rflat]) if rflat else []):
        real_rows = prepared[idx][0][algo]["rows"]
        out["evaluations"] += 1
        if got != real_rows:
            bump(out, "rows_model_vs_impl", "differs")
            add_failure(out, "corr", "rowsOfPath(model) on the implementation's traceback differs from the implementation's rows",
                        dict(s1=rq["s1"], s2=rq["s2"], path=rq["path"], algo=algo, local=cases[idx]["local"]), real_rows, got, confirmed=False)
        else:
            bump(out, "rows_model_vs_impl", "same")
    for idx, case in enumerate(cases):
        runs, reqs = prepared[idx]
        local = case["local"]
        mode = "local" if local else "global"
        inp = {k: case[k] for k in ("s1", "s2", "moltype", "matname", "mat", "d", "e", "local")}
        inp["asymmetric"] = is_asymmetric(case["mat"])
        bump(out, "pair_mode", mode)
        bump(out, "pair_kind", case.get("tag", "?"))
        bump(out, "matrix", case["matname"].split("(")[0])
        bump(out, "len1", min(len(case["s1"]) // 5 * 5, 60))
        bump(out, "len2", min(len(case["s2"]) // 5 * 5, 60))
        for algo, r in runs.items():
            out["evaluations"] += 1
            ainp = dict(inp, algo=algo)
            if "exc" in r:
                bump(out, "pair_exception", r["exc"])
                if case["s1"] and case["s2"]:
                    add_failure(out, "spec", f"pairwise aligner raised {r['exc']} on non-empty inputs", ainp, "alignment", r["exc"],
                                sig=f"pw:raised:{mode}:{algo}:{r['exc']}")
                continue
            r1, r2 = r["rows"]
            if len(r1) != len(r2):
                add_failure(out, "spec", "rows of unequal length", ainp, "equal", [r1, r2], sig=f"pw:unequal-length:{mode}:{algo}")
                continue
            d1, d2 = r1.replace("-", ""), r2.replace("-", "")
            if local:
                ok = d1 in case["s1"].upper() and d2 in case["s2"].upper() and r["offs"][0] >= 0 and r["offs"][1] >= 0
            else:
                ok = d1 == case["s1"].upper() and d2 == case["s2"].upper()
            if not ok:
                add_failure(out, "spec", "degapped rows are not the inputs" + (" (a contiguous part)" if local else ""), ainp,
                            [case["s1"], case["s2"]], [r1, r2], sig=f"pw:degap:{mode}:{algo}")
                continue
            if r.get("path") is None:
                add_failure(out, "spec", "alignment has an all-gap column", ainp, "no all-gap column", [r1, r2], sig=f"pw:all-gap-column:{mode}:{algo}")
                continue
            if "bad_hmm" in r:
                add_failure(out, "corr", "captured hmm outside the model's domain: " + r["bad_hmm"], ainp, "finite/-inf scores", r["bad_hmm"], confirmed=False)
                continue
            lean = rep.get((idx, algo))
            if lean is None or "error" in lean:
                add_failure(out, "corr", "driver error", ainp, "reply", lean, confirmed=False)
                continue
            opt = None if lean["score"] is None else unrat(lean["score"])
            ps = None if lean["path_score"] is None else unrat(lean["path_score"])
            score = r["score"]
            n1, n2 = len(d1), len(d2)
            if lean["consumed"] != [r["offs"][0] + n1, r["offs"][1] + n2] and local or (not local and lean["consumed"] != [n1, n2]):
                add_failure(out, "corr", "spec path does not consume the rows", ainp, [n1, n2], lean["consumed"], confirmed=False)
                continue
            # (1) reported score = independently recomputed score of the returned path
            if ps is None or abs(float(ps) - score) > _tol(score):
                if opt is not None and abs(float(opt) - score) <= _tol(score) and (ps is None or float(opt - ps) > _tol(score)):
                    # the score is the optimum but the alignment handed back is a worse path
                    sig = f"pw:returned-path-below-reported-optimal-score:{mode}:{algo}"
                    what = "reported score is the optimum but the returned alignment is a lower-scoring (or impossible, -inf) path"
                else:
                    sig = f"pw:score-ne-path:{mode}:{algo}"
                    what = "reported score differs from the recomputed score of the returned alignment"
                add_failure(out, "spec", what, ainp,
                            dict(path_score=None if ps is None else float(ps), optimum=None if opt is None else float(opt), optimal_path=lean.get("path")),
                            dict(reported=score, rows=[r1, r2]), sig=sig)
                continue
            fps = float_path_score(r["hmm"], local, r["path"], *(r["offs"] if local else (0, 0)))
            if abs(fps - float(ps)) > _tol(score):
                add_failure(out, "corr", "Lean spec path score differs from the Python float recomputation", ainp, fps, float(ps), confirmed=False)
            # (2) no other path scores higher: the Lean optimum is the proved maximum over all paths
            if opt is None:
                add_failure(out, "corr", "model optimum is -inf but the implementation returned a path", ainp, score, None, confirmed=False)
                continue
            if float(opt - ps) > _tol(score):
                better = lean.get("path")
                add_failure(out, "spec", "a higher scoring path exists than the returned alignment", ainp,
                            dict(optimum=float(opt), better_path=better), dict(returned_score=float(ps), rows=[r1, r2]),
                            sig=f"pw:suboptimal:{mode}:{algo}")
                continue
            if ps > opt:
                add_failure(out, kind_for_model, "returned path scores above the model optimum (model not optimal?)", ainp, float(opt), float(ps), confirmed=False)
                continue
            if lean.get("model_path_score") != lean["score"]:
                add_failure(out, kind_for_model, "model traceback path does not have the model's DP score", ainp, lean["score"], lean.get("model_path_score"), confirmed=False)
            # (3) model vs implementation: value, and path unless tied
            if abs(float(opt) - score) > _tol(score):
                add_failure(out, kind_for_model, "model optimum differs from the reported score", ainp, float(opt), score, confirmed=False)
                continue
            mp = [tuple(t) for t in (lean.get("path") or [])]
            if r.get("tb") is not None:
                bump(out, "model_path_vs_impl", "same" if mp == r["tb"] else ("tie" if ps == opt else "differs-within-tol"))
            nontrivial = n1 >= 2 and n2 >= 2 and ("-" in r1 or "-" in r2 or d1 != d2)
            if nontrivial:
                out["nontrivial"].add((case["s1"], case["s2"], case["matname"], case["d"], case["e"], mode, algo))
            bump(out, "has_gaps", ("-" in r1) or ("-" in r2))
            if algo != "full":
                bump(out, f"{algo}_dp_calls", min(r["calls"], 50) // 10 * 10)
            if len(out["samples"]) < 6 and nontrivial and "-" in r1 + r2 and len(r1) > 6:
                out["samples"].append(dict(s1=case["s1"], s2=case["s2"], matrix=case["matname"], d=case["d"], e=case["e"], mode=mode,
                                           algo=algo, rows=[r1, r2], reported=score, exact_optimum=float(opt), exact_path_score=float(ps)))
        # (4) same input under every HIRSCHBERG_LIMIT setting (global: linear-space vs full DP; local: must be unaffected)
        a = runs["full"]
        for algo in ("hirschberg", "mixed"):
            b = runs[algo]
            if ("exc" in a) != ("exc" in b):
                add_failure(out, "spec", f"HIRSCHBERG_LIMIT={LIMITS[algo]} changes whether the {mode} aligner raises", dict(inp, algo=algo),
                            a.get("exc", "alignment"), b.get("exc", "alignment"), sig=f"pw:limit-exc-differs:{mode}:{algo}")
                continue
            if "exc" in a:
                continue
            if not local:
                bump(out, f"{algo}_used", b["calls"] > 1)
            if abs(a["score"] - b["score"]) > _tol(a["score"]):
                add_failure(out, "spec", f"HIRSCHBERG_LIMIT={LIMITS[algo]} and full DP report different scores ({mode})", dict(inp, algo=algo),
                            dict(full=a["score"], rows=a["rows"]), {algo: b["score"], "rows": b["rows"]}, sig=f"pw:limit-score-differs:{mode}:{algo}")
            elif local and a["rows"] != b["rows"]:
                add_failure(out, "spec", f"HIRSCHBERG_LIMIT={LIMITS[algo]} changes the local alignment", dict(inp, algo=algo), a["rows"], b["rows"],
                            sig=f"pw:limit-rows-differ:local:{algo}")
            else:
                bump(out, f"{algo}_same_rows", a["rows"] == b["rows"])
        # (4b) the Lean model of the divide-and-conquer itself (Model/Hirschberg.lean, split row n // 2) on the same hmm
        for key, algo in (("hmodel", "hirschberg"), ("mmodel", "mixed")):
            hm = rep.get((idx, key))
            b = runs.get(algo, {})
            if hm is None or "exc" in b:
                continue
            out["evaluations"] += 1
            if "error" in hm or hm.get("score") is None:
                add_failure(out, "corr", "Hirschberg model: driver error / -inf", dict(inp, algo=algo), b.get("score"), hm, confirmed=False)
                continue
            if hm["score"] != hm["full_score"] or hm["path_score"] != hm["score"] or hm["consumed"] != [len(case["s1"]), len(case["s2"])]:
                add_failure(out, "corr", "Hirschberg model disagrees with the full-DP model (theorem hirschberg_eq_full broken?)", dict(inp, algo=algo),
                            hm["full_score"], hm, confirmed=False)
                continue
            if abs(float(unrat(hm["score"])) - b["score"]) > _tol(b["score"]):
                add_failure(out, "corr", f"Hirschberg model score differs from the implementation (HIRSCHBERG_LIMIT={LIMITS[algo]})", dict(inp, algo=algo),
                            float(unrat(hm["score"])), b["score"], confirmed=False)
                continue
            mp = [tuple(t) for t in (hm.get("path") or [])]
            lean_b = rep.get((idx, algo)) or {}
            same = b.get("tb") is not None and mp == b["tb"]
            bump(out, f"hirschberg_model_path_vs_impl:{algo}", "same" if same else ("tie" if lean_b.get("path_score") == hm["score"] else "differs-within-tol"))
            if b.get("calls", 1) > 1:
                out["nontrivial"].add(("hirsch-model", case["s1"], case["s2"], case["matname"], case["d"], case["e"], algo))
        # (5) the same alignment judged under the USER's matrix and gap costs (independent construction of the model)
        ul = rep.get((idx, "user"))
        if ul is not None and "exc" not in a and "error" not in ul:
            cls = "asymmetric" if inp["asymmetric"] else "symmetric"
            uopt = None if ul["score"] is None else unrat(ul["score"])
            ups = None if ul["path_score"] is None else unrat(ul["path_score"])
            bump(out, "user_model_checked", cls)
            if ups is None or abs(float(ups) - a["score"]) > 1e-7 * max(1.0, abs(a["score"])):
                add_failure(out, "spec", "reported score is not the score of the returned alignment under the user's score matrix and gap costs",
                            dict(inp, algo="full"), dict(user_model_path_score=None if ups is None else float(ups)), dict(reported=a["score"], rows=a["rows"]),
                            sig=f"pw-user:score-ne-user-model:{mode}:{cls}")
            elif uopt is not None and float(uopt - ups) > 1e-7 * max(1.0, abs(a["score"])):
                add_failure(out, "spec", "a higher scoring path exists under the user's score matrix and gap costs", dict(inp, algo="full"),
                            dict(user_model_optimum=float(uopt), better_path=ul.get("path")), dict(returned_score=float(ups), rows=a["rows"]),
                            sig=f"pw-user:suboptimal-under-user-model:{mode}:{cls}")
        # (6) return_score / return_alignment variants give the same answer
        if case.get("variants") and "exc" not in a:
            v = run_variants(case)
            bump(out, "return_variants", "checked")
            if v.get("rows") != a["rows"] or v.get("score_only") is None or abs(v["score_only"] - a["score"]) > _tol(a["score"]):
                add_failure(out, "spec", "return_score=False / return_alignment=False variants disagree with return_score=True", inp,
                            dict(rows=a["rows"], score=a["score"]), v, sig=f"pw:return-variant-differs:{mode}")


def run_variants(case):
    import numpy
    from cogent3.align import align

    S = _sdict(case["moltype"], case["mat"])
    res = {}
    try:
        with numpy.errstate(all="ignore"):
            a, b = _mk(case["s1"], "a", case["moltype"]), _mk(case["s2"], "b", case["moltype"])
            aln = align.classic_align_pairwise(a, b, S, case["d"], case["e"], case["local"])
            d = aln.to_dict()
            res["rows"] = [d["a"], d["b"]]
            sc = align.classic_align_pairwise(a, b, S, case["d"], case["e"], case["local"], return_alignment=False)
            res["score_only"] = float(sc)
            f = align.local_pairwise if case["local"] else align.global_pairwise
            d2 = f(a, b, S, case["d"], case["e"]).to_dict()
            if [d2["a"], d2["b"]] != res["rows"]:
                res["rows"] = ["wrapper differs", d2]
    except Exception as ex:  # noqa: BLE001
        res["exc"] = type(ex).__name__
    return res


def gen_pair_cases(rng, n, maxlen):
    cases = []
    for _ in range(n):
        moltype = "dna" if rng.random() < 0.7 else "protein"
        letters = DNA if moltype == "dna" else PROT
        if rng.random() < 0.25:
            letters = letters[: rng.randint(1, 3)]
        tag, s1, s2 = gen_pair(rng, letters, maxlen)
        r = rng.random()
        if r < 0.06:
            tag, s1, s2 = tag + "+lower", s1.lower(), s2
        elif r < 0.14:
            amb = "NRY?" if moltype == "dna" else "X"
            s1 = "".join(rng.choice(amb) if rng.random() < 0.2 else c for c in s1)
            tag += "+ambig"
        matname, mat = gen_matrix(rng, moltype)
        d, e = gen_gap(rng, edge=0.12)
        cases.append(dict(s1=s1, s2=s2, moltype=moltype, matname=matname, mat=mat, d=d, e=e, local=rng.random() < 0.4, tag=tag,
                          variants=rng.random() < 0.2))
    return cases


def small_exhaustive_cases():
    """every DNA pair over {A,C} with lengths 1..3, one structured model, local and global"""
    cases = []
    mat = [[2 if a == b else -1 for b in DNA] for a in DNA]
    seqs = ["".join(t) for n in (1, 2, 3) for t in itertools.product("AC", repeat=n)]
    for s1 in seqs:
        for s2 in seqs:
            for local in (False, True):
                cases.append(dict(s1=s1, s2=s2, moltype="dna", matname="generic(2)", mat=mat, d=2, e=1, local=local, tag="exhaustive"))
    return cases


# --------------------------------------------------------------------------
# correspondence
# --------------------------------------------------------------------------
def correspondence(ctx):
    out = new_outcome(
        "pairwise: Lean Viterbi model on the real hmm's exact float64 arrays vs the reported score/path (exhaustive {A,C}^<=3 pairs + "
        "seeded random, global/local, full/Hirschberg), model DP vs brute force over the spec's path enumeration on tiny inputs; "
        "gap dicts: model vs real _GapOffset/_merged_gaps/_combined_refseq_gaps/_gaps_for_injection/pairwise_to_multiple; "
        "non-trivial = both lengths>=2 and the alignment is not the identity / gap dict case with >=1 gap in two dicts"
    )
    rng = ctx.subrng("corr")
    cases = small_exhaustive_cases() + gen_pair_cases(rng, ctx.budget(60, 600), 12)
    check_pair_cases(ctx, out, cases)
    # the model-vs-code ties get their own outcome so that a flood of spec failures above cannot crowd them out
    ties = new_outcome()
    _brute_force(ctx, ties, rng)
    _classic_tie(ctx, ties, rng)
    _gap_correspondence(ctx, ties, rng)
    repaired_p2m_checks(ctx, ties, rng, ctx.budget(300, 4000))
    # progressive alignment: the real column-merge code on random guide trees / DP outcomes vs Model/Progressive.lean
    from . import c18_prog

    prog = new_outcome()
    c18_prog.synthetic_checks(ctx, prog, ctx.subrng("corr-prog"), ctx.budget(120, 1500))
    c18_prog.malformed_positions_tie(ctx, prog, ctx.subrng("corr-prog-bad"), ctx.budget(150, 2000))
    c18_prog.repaired_checks(ctx, prog, ctx.subrng("corr-prog-fixed"), ctx.budget(60, 800))
    prog["dist"].pop("_prog_known_kept", None)
    for f in prog["failures"]:
        ties["failures"].append(f)
    ties["evaluations"] += prog["evaluations"]
    ties["nontrivial"] |= prog["nontrivial"]
    for k, v in prog["dist"].items():
        ties["dist"][k] = v
    from .common import merge_outcomes

    rule = out["rule"]
    res = merge_outcomes(ties, out)
    res["rule"] = rule
    res["failures"] = [f for f in res["failures"] if f["kind"] == "corr"][:100] + [f for f in res["failures"] if f["kind"] != "corr"][:150]
    res["samples"] = out["samples"]
    return res


def _classic_tie(ctx, out, rng):
    """Model/ClassicHMM.lean (score matrix + gap costs -> probability-space pair HMM, as classic_align_pairwise builds it)
    vs the log arrays captured from the real hmm: transition matrix incl. BEGIN/END, match and gap emissions"""
    import numpy

    cases = gen_pair_cases(rng, ctx.budget(6, 40), 8)
    reqs, keep = [], []
    for c in cases:
        s1, s2 = c["s1"].upper(), c["s2"].upper()
        letters = DNA_ORDER(c["moltype"])
        if any(ch not in letters for ch in s1 + s2):
            continue
        r = run_pairwise(s1, s2, c["moltype"], c["mat"], c["d"], c["e"], c["local"], 10**8)
        if "exc" in r:
            continue
        with numpy.errstate(all="ignore"):
            ed = float(numpy.exp(-1.0 * numpy.float64(c["d"])))
            ee = float(numpy.exp(-1.0 * numpy.float64(c["e"])))
            es = numpy.exp(numpy.array(c["mat"], float))
        if not (ed > 0 and ee > 0 and numpy.all(es > 0) and numpy.all(numpy.isfinite(es))):
            continue
        xa, yb = [letters.index(ch) for ch in s1], [letters.index(ch) for ch in s2]
        pairs = sorted({(a, b) for a in xa for b in yb})
        reqs.append(("classic", dict(ed=rat(ed), ee=rat(ee), es=[[rat(float(v)) for v in row] for row in es], pairs=[list(p) for p in pairs])))
        keep.append((c, r, xa, yb, pairs))
    for (c, r, xa, yb, pairs), m in zip(keep, ctx.driver.batch(reqs) if reqs else []):
        out["evaluations"] += 1
        inp = dict(moltype=c["moltype"], mat=c["mat"], d=c["d"], e=c["e"], s1=c["s1"], s2=c["s2"])
        if "error" in m:
            add_failure(out, "corr", "classic HMM model: driver error", inp, "reply", m, confirmed=False)
            continue
        h = r["hmm"]
        bad = None
        for i in range(5):
            for j in range(5):
                mv = float(unrat(m["T"][i][j]))
                rv = float(h["T"][i][j])
                if mv == 0.0 or math.isinf(rv):
                    if not (mv == 0.0 and math.isinf(rv) and rv < 0):
                        bad = ("T", i, j, mv, rv)
                elif abs(math.log(mv) - rv) > 1e-9 * max(1.0, abs(rv)):
                    bad = ("T", i, j, math.log(mv), rv)
        mm = {tuple(p): float(unrat(v)) for p, v in zip(pairs, m["match"])}
        for i, a in enumerate(xa):
            for j, b in enumerate(yb):
                rv = float(h["M"][0][h["xi"][i]][h["yi"][j]])
                if abs(math.log(mm[(a, b)]) - rv) > 1e-9 * max(1.0, abs(rv)):
                    bad = ("match", a, b, math.log(mm[(a, b)]), rv)
        if float(unrat(m["gap"])) != 1.0 or any(float(v) != 0.0 for v in list(h["X"][0]) + list(h["Y"][0])):
            bad = ("gap", m["gap"])
        if sorted(h["sd"]) != [(1, 0, 1, 0), (2, 0, 0, 1), (3, 0, 1, 1)]:
            bad = ("state_directions", h["sd"])
        if bad:
            add_failure(out, "corr", "classic HMM model differs from the hmm classic_align_pairwise built", inp, bad[-2:], bad, confirmed=False)
        else:
            bump(out, "classic_hmm_tie", c["moltype"])
            out["nontrivial"].add(("classic", str(c["mat"])[:200], c["d"], c["e"]))


def _brute_force(ctx, out, rng):
    """model DP value = max over the spec's explicit enumeration of all paths (tiny inputs)"""
    cases = gen_pair_cases(rng, ctx.budget(40, 300), 4)
    reqs, keep = [], []
    for c in cases:
        if len(c["s1"]) + len(c["s2"]) > 7:
            continue
        r = run_pairwise(c["s1"], c["s2"], c["moltype"], c["mat"], c["d"], c["e"], c["local"], 10**8)
        if "exc" in r:
            continue
        rq = hmm_request(r["hmm"], c["local"], [], 0, 0)
        reqs.append(("viterbi", rq))
        reqs.append(("allpaths", rq))
        keep.append(c)
    rep = ctx.driver.batch(reqs)
    for k, c in enumerate(keep):
        v, a = rep[2 * k], rep[2 * k + 1]
        out["evaluations"] += 1
        bump(out, "bruteforce_paths", min(a.get("count", 0), 10**6) // 50 * 50)
        if v.get("score") != a.get("max"):
            add_failure(out, "corr", "model DP value differs from the brute-force maximum over all paths", dict(s1=c["s1"], s2=c["s2"], local=c["local"], d=c["d"], e=c["e"]),
                        a.get("max"), v.get("score"), confirmed=False)


# --------------------------------------------------------------------------
# gap dict helpers: model vs real
# --------------------------------------------------------------------------
def _rand_gaps(rng, maxpos, allow_zero=False):
    k = rng.choice([0, 1, 1, 2, 3, 4])
    pos = rng.sample(range(0, maxpos + 1), min(k, maxpos + 1))
    return {p: rng.randint(0 if allow_zero else 1, 4) for p in pos}


def _items(d):
    return sorted([int(k), int(v)] for k, v in d.items())


def _gap_correspondence(ctx, out, rng):
    from cogent3.app import align as A

    reqs, real, what = [], [], []
    n = ctx.budget(1500, 20000)
    for t in range(n):
        which = ("gapoffset", "merged", "combined", "inject")[t % 4]
        malformed = rng.random() < 0.15
        if which == "gapoffset":
            g = _rand_gaps(rng, 12, allow_zero=malformed)
            inv = rng.random() < 0.5
            qs = list(range(-1, 26))
            go = A._GapOffset(dict(g), invert=inv)
            try:
                r = [int(go[q]) for q in qs]
            except Exception as ex:  # noqa: BLE001
                bump(out, "gap_real_exc", type(ex).__name__)
                continue
            reqs.append(("gapoffset", dict(gaps=_items(g), invert=inv, queries=qs)))
            real.append(r)
        elif which == "merged":
            a, b = _rand_gaps(rng, 8), _rand_gaps(rng, 8)
            reqs.append(("merged", dict(a=_items(a), b=_items(b))))
            real.append(_items(A._merged_gaps(dict(a), dict(b))))
        elif which == "combined":
            u = _rand_gaps(rng, 10)
            # a sequence's own gaps: a sub-dict of the union with lengths <= the union's (as _gap_union guarantees)
            s = {p: rng.randint(1, l) for p, l in u.items() if rng.random() < 0.6}
            if malformed:
                s = _rand_gaps(rng, 10)
            reqs.append(("combined", dict(seq=_items(s), union=_items(u))))
            real.append(_items(A._combined_refseq_gaps(dict(s), dict(u))))
            g = u
        else:
            seqlen = rng.randint(1, 10)
            o = _rand_gaps(rng, seqlen)
            tot = seqlen + sum(o.values())
            rg = _rand_gaps(rng, tot + (3 if malformed else 0))
            reqs.append(("inject", dict(other=_items(o), ref=_items(rg), seqlen=seqlen, fixed=injection_variant(ctx))))
            try:
                real.append(_items(A._gaps_for_injection(dict(o), dict(rg), seqlen)))
            except ValueError:
                real.append({"err": "ValueError"})
        what.append(which)
    for (cmd, rq), r, m in zip(reqs, real, ctx.driver.batch(reqs)):
        out["evaluations"] += 1
        bump(out, "gap_helper", cmd)
        if r != m:
            add_failure(out, "corr", f"gap helper {cmd}: model differs from app/align.py", rq, m, r, confirmed=False)
        elif sum(1 for v in rq.values() if isinstance(v, list) and v and isinstance(v[0], list)) >= (1 if cmd == "gapoffset" else 2):
            out["nontrivial"].add((cmd, str(rq)))


# --------------------------------------------------------------------------
# pairwise_to_multiple on the real code vs the row spec (+ model agreement)
# --------------------------------------------------------------------------
def gen_pairwise_rows(rng, ref, letters, plausible):
    """a random pairwise alignment (ref row, other row) without all-gap columns; `plausible` = no gap-in-ref column
    adjacent to a gap-in-other column (the classic aligner has no X<->Y transitions)"""
    while True:
        cols = []
        for c in ref:
            if rng.random() < 0.3:
                cols += ["Y"] * rng.randint(1, 3)
            cols.append("M" if rng.random() < 0.7 else "X")
        if rng.random() < 0.3:
            cols += ["Y"] * rng.randint(1, 3)
        if plausible and any({a, b} == {"X", "Y"} for a, b in zip(cols, cols[1:])):
            # repair: turn the X next to a Y into M
            for i in range(len(cols)):
                if cols[i] == "X" and ((i and cols[i - 1] == "Y") or (i + 1 < len(cols) and cols[i + 1] == "Y")):
                    cols[i] = "M"
        if any(c != "X" for c in cols):
            break
    it = iter(ref)
    r1 = "".join(next(it) if c in "MX" else "-" for c in cols)
    r2 = "".join(rng.choice(letters) if c in "MY" else "-" for c in cols)
    return r1, r2


def strip_common(a, b):
    keep = [(x, y) for x, y in zip(a, b) if not (x == "-" and y == "-")]
    return "".join(x for x, _ in keep), "".join(y for _, y in keep)


def row_gaps(row):
    """{seq position: gap length} of a gapped string"""
    g, p, run = {}, 0, 0
    for c in row:
        if c == "-":
            run += 1
        else:
            if run:
                g[p] = run
            run = 0
            p += 1
    if run:
        g[p] = run
    return g


def run_p2m(ref, pairs, moltype="dna"):
    """real pairwise_to_multiple; returns dict name->row or {'exc':..}"""
    from cogent3 import make_aligned_seqs
    from cogent3.app.align import pairwise_to_multiple

    ref_seq = _mk(ref, "ref", moltype)
    pw = []
    for k, (r1, r2) in enumerate(pairs):
        pw.append((f"s{k}", make_aligned_seqs({"ref": r1, f"s{k}": r2}, moltype=moltype, array_align=False)))
    try:
        res = pairwise_to_multiple(pw, ref_seq, ref_seq.moltype)
    except Exception as ex:  # noqa: BLE001
        return {"exc": type(ex).__name__ + ": " + str(ex)[:80]}
    return res.to_dict()


def classify_p2m(ref, pairs, k):
    """narrow class of a 'pairwise alignment not kept' failure for pair k, computed from the rows alone (not with the
    code under test): does a column that has to be injected into row k (a reference gap that is longer in another
    pair) fall strictly inside a gap run of row k?"""
    union = {}
    for r1, _ in pairs:
        for p, l in row_gaps(r1).items():
            union[p] = max(union.get(p, 0), l)
    r1, r2 = pairs[k]
    own = row_gaps(r1)
    col_of = [c for c, ch in enumerate(r1) if ch != "-"] + [len(r1)]
    inside = False
    for p, l in union.items():
        if l > own.get(p, 0):
            col = col_of[p]
            if 0 < col < len(r2) and r2[col] == "-" and r2[col - 1] == "-":
                inside = True
    return "injected-column-inside-other-gap" if inside else "other"


def check_p2m(out, ref, pairs, plausible, model=None, source="generated"):
    got = run_p2m(ref, pairs)
    cls = "plausible" if plausible else "general"
    inp = dict(ref=ref, pairs=[list(p) for p in pairs], layout=cls, source=source)
    out["evaluations"] += 1
    bump(out, "p2m_pairs", len(pairs))
    bump(out, "p2m_layout", cls)
    if "exc" in got:
        add_failure(out, "spec", "pairwise_to_multiple raised on well-formed pairwise alignments", inp, "alignment", got["exc"], sig=f"p2m:raised:{cls}")
        return got
    names = ["ref"] + [f"s{k}" for k in range(len(pairs))]
    rows = [got.get(n) for n in names]
    if any(r is None for r in rows) or len({len(r) for r in rows}) != 1:
        add_failure(out, "spec", "merged rows missing / of unequal length", inp, "equal-length rows for every sequence", got, sig=f"p2m:unequal-length:{cls}")
        return got
    want = [ref] + [p[1].replace("-", "") for p in pairs]
    if [r.replace("-", "") for r in rows] != want:
        add_failure(out, "spec", "merged rows do not degap to the inputs", inp, want, got, sig=f"p2m:degap:{cls}")
        return got
    bad = None
    for k, (r1, r2) in enumerate(pairs):
        if strip_common(rows[0], rows[k + 1]) != (r1, r2):
            bad = k
            break
    if bad is not None:
        c = classify_p2m(ref, pairs, bad)
        bump(out, "p2m_not_kept", c)
        add_failure(out, "spec", "merged alignment does not keep a sequence's pairwise alignment with the reference",
                    dict(inp, pair=bad), list(pairs[bad]), list(strip_common(rows[0], rows[bad + 1])) + [dict(merged=got)],
                    sig=f"p2m:pairwise-not-kept:{c}")
    else:
        bump(out, "p2m_kept", cls)
        if len(pairs) >= 2 and len({tuple(sorted(row_gaps(p[0]).items())) for p in pairs}) >= 2:
            out["nontrivial"].add(("p2m", ref, str(pairs)))
    return got


def injection_variant(ctx):
    """which `_gaps_for_injection` the tree under test has: the pinned one (False) or the proposed repair
    fixes/C18-p2m-gap-injection.patch (True); the Lean model carries both variants"""
    if not hasattr(ctx, "_c18_fixed"):
        from cogent3.app.align import _gaps_for_injection

        got = _gaps_for_injection({0: 2}, {1: 1}, 2)
        ctx._c18_fixed = got == {0: 3}
        ctx.notes.append(f"_gaps_for_injection variant under test: {'repaired' if ctx._c18_fixed else 'as pinned'} (probe -> {got})")
    return ctx._c18_fixed


def _p2m_model_req(ctx, ref, pairs):
    return ("p2m", dict(reflen=len(ref), fixed=injection_variant(ctx), pairs=[dict(ref=_items(row_gaps(r1)), other=_items(row_gaps(r2)), len=len(r2.replace("-", ""))) for r1, r2 in pairs]))


def _row_from_gaps(seq, gaps):
    g = dict((int(a), int(b)) for a, b in gaps)
    out = []
    for p, c in enumerate(seq):
        out.append("-" * g.get(p, 0))
        out.append(c)
    out.append("-" * g.get(len(seq), 0))
    return "".join(out)


def gen_p2m_case(rng, plausible):
    ref = _rand_seq(rng, DNA, rng.randint(1, 8))
    pairs = [gen_pairwise_rows(rng, ref, DNA, plausible) for _ in range(rng.randint(2, 4))]
    return ref, pairs


def _repaired_injection_fn(ctx):
    """the proposed repair fixes/C18-p2m-gap-injection.patch applied to a scratch copy of app/align.py; returns the
    patched `_gaps_for_injection` as a function living in cogent3.app.align's namespace (None if the patch does not
    apply, e.g. because the tree already contains it)"""
    if hasattr(ctx, "_c18_repaired_fn"):
        return ctx._c18_repaired_fn
    import ast
    import shutil
    import subprocess

    from cogent3.app import align as A

    from .common import SRC, VERIF

    fn = None
    try:
        d = ctx.scratch / "repair"
        (d / "src" / "cogent3" / "app").mkdir(parents=True, exist_ok=True)
        shutil.copy(SRC / "app" / "align.py", d / "src" / "cogent3" / "app" / "align.py")
        pr = subprocess.run(["patch", "-p1", "-s", "-i", str(VERIF / "fixes" / "C18-p2m-gap-injection.patch")], cwd=d, capture_output=True, text=True)
        if pr.returncode == 0:
            src = (d / "src" / "cogent3" / "app" / "align.py").read_text()
            node = next(n for n in ast.parse(src).body if isinstance(n, ast.FunctionDef) and n.name == "_gaps_for_injection")
            ns = dict(A.__dict__)
            exec(compile(ast.Module(body=[node], type_ignores=[]), "repaired_align.py", "exec"), ns)
            fn = ns["_gaps_for_injection"]
        else:
            ctx.notes.append("proposed repair C18-p2m-gap-injection.patch does not apply to this tree (already applied?): repaired-variant tie skipped")
    except Exception as ex:  # noqa: BLE001
        ctx.notes.append(f"repaired-variant tie skipped: {type(ex).__name__}: {ex}")
    ctx._c18_repaired_fn = fn
    return fn


def repaired_p2m_checks(ctx, out, rng, n):
    """the PROPOSED REPAIR (not the code under test): pairwise_to_multiple with the patched `_gaps_for_injection` swapped in
    must (a) agree with the Lean model's repaired variant (`fixed = true`, the one `merge_keeps_pairwise_repaired` is about)
    and (b) keep every pairwise alignment.  Failures here are about the repair/model, never violations of the code."""
    from cogent3.app import align as A

    fn = _repaired_injection_fn(ctx)
    if fn is None or getattr(ctx, "driver", None) is None:
        return
    cases = [gen_p2m_case(rng, rng.random() < 0.6) for _ in range(n)]
    reqs = [("p2m", dict(_p2m_model_req(ctx, ref, pairs)[1], fixed=True)) for ref, pairs in cases]
    model = ctx.driver.batch(reqs)
    orig = A._gaps_for_injection
    A._gaps_for_injection = fn
    try:
        for (ref, pairs), m in zip(cases, model):
            tmp = new_outcome()
            got = check_p2m(tmp, ref, pairs, True, source="repaired")
            out["evaluations"] += 1
            if tmp["failures"]:
                f = tmp["failures"][0]
                add_failure(out, "corr", "PROPOSED REPAIR does not satisfy the property: " + f["what"], f["input"], f["expected"], f["got"], confirmed=False)
                continue
            if "err" in m or "error" in m:
                add_failure(out, "corr", "repaired p2m model raised", dict(ref=ref, pairs=pairs), got, m, confirmed=False)
                continue
            mrows = [_row_from_gaps(ref, m["ref"])] + [_row_from_gaps(p[1].replace("-", ""), g) for p, g in zip(pairs, m["others"])]
            rrows = [got["ref"]] + [got[f"s{k}"] for k in range(len(pairs))]
            if mrows != rrows or not m["keeps"]:
                add_failure(out, "corr", "repaired p2m model (fixed=true) differs from the patched pairwise_to_multiple", dict(ref=ref, pairs=pairs), mrows, rrows, confirmed=False)
            else:
                bump(out, "repaired_variant_tie", len(pairs))
    finally:
        A._gaps_for_injection = orig


def p2m_checks(ctx, out, rng, n):
    cases = [(gen_p2m_case(rng, plausible := (rng.random() < 0.7)), plausible) for _ in range(n)]
    model = ctx.driver.batch([_p2m_model_req(ctx, ref, pairs) for (ref, pairs), _ in cases]) if getattr(ctx, "driver", None) else [None] * len(cases)
    for ((ref, pairs), plausible), m in zip(cases, model):
        nfail = len(out["failures"])
        got = check_p2m(out, ref, pairs, plausible)
        if m is None or "exc" in got:
            continue
        # the model of the gap-dict code must produce the same rows, and its verdict must match
        if "err" in m or "error" in m:
            add_failure(out, "corr", "p2m model raised but the code did not", dict(ref=ref, pairs=pairs), got, m, confirmed=False)
            continue
        mrows = [_row_from_gaps(ref, m["ref"])] + [_row_from_gaps(p[1].replace("-", ""), g) for p, g in zip(pairs, m["others"])]
        rrows = [got["ref"]] + [got[f"s{k}"] for k in range(len(pairs))]
        if mrows != rrows:
            add_failure(out, "corr", "p2m model rows differ from pairwise_to_multiple", dict(ref=ref, pairs=pairs), mrows, rrows, confirmed=False)
        elif m["keeps"] != (len(out["failures"]) == nfail):
            add_failure(out, "corr", "p2m model verdict (keepsAll) differs from the harness oracle", dict(ref=ref, pairs=pairs), m["keeps"], len(out["failures"]) == nfail, confirmed=False)


# --------------------------------------------------------------------------
# apps
# --------------------------------------------------------------------------
def gen_seq_family(rng, k, maxlen, letters=DNA, names=None):
    base = _rand_seq(rng, letters, rng.randint(2, maxlen))
    seqs = {}
    names = names or [f"s{i}" for i in range(k)]
    for i in range(k):
        r = rng.random()
        s = base if r < 0.15 else (_mutate(rng, base, letters) if r < 0.85 else _rand_seq(rng, letters, rng.randint(1, maxlen)))
        seqs[names[i]] = s[:maxlen] or rng.choice(letters)
    return seqs


def default_matrix(moltype):
    """the documented default of the apps: make_dna_scoring_dict(10, -1, -8) for DNA, match 10 / mismatch -1 otherwise"""
    letters = DNA_ORDER(moltype)
    if moltype == "dna":
        pur = "AG"
        return [[10 if a == b else (-1 if (a in pur) == (b in pur) else -8) for b in letters] for a in letters]
    return [[10 if a == b else -1 for b in letters] for a in letters]


def gen_names(rng, k):
    """sequence names incl. names that are prefixes / substrings / superstrings of one another, with digits"""
    style = rng.choice(["plain", "numbered", "prefix", "digits", "mixed"])
    if style == "plain":
        names = [f"s{i}" for i in range(k)]
    elif style == "numbered":
        names = rng.sample(["seq1", "seq10", "seq11", "seq100", "seq2", "seq21", "1seq", "seq"], k)
    elif style == "prefix":
        names = rng.sample(["a", "ab", "abc", "b", "ba", "xab", "abx", "A"], k)
    elif style == "digits":
        names = rng.sample(["1", "11", "12", "21", "111", "2", "10", "01"], k)
    else:
        names = rng.sample(["Human", "Human2", "Hum", "Mouse", "mouse", "Mouse_1", "Rat", "Rat.1"], k)
    rng.shuffle(names)
    return names


def check_align_to_ref(ctx, out, seqs, ref_choice, mat, d, e, moltype="dna"):
    """seqs: {name: seq}; ref_choice: a name or 'longest'; mat: nested list over the alphabet or None (app default)"""
    from cogent3 import get_app, make_unaligned_seqs
    from cogent3.align import align

    coll = make_unaligned_seqs(seqs, moltype=moltype)
    kw = dict(insertion_penalty=d, extension_penalty=e, moltype=moltype)
    if mat is not None:
        kw["score_matrix"] = _sdict(moltype, mat)
    inp = dict(seqs=seqs, ref=ref_choice, d=d, e=e, mat=mat, moltype=moltype)
    out["evaluations"] += 1
    bump(out, "align_to_ref_nseqs", len(seqs))
    bump(out, "align_to_ref_moltype", f"{moltype}:{'default' if mat is None else 'custom'}")
    bump(out, "align_to_ref_penalties", f"d={'0' if d == 0 else 'tiny' if d < 0.01 else 'huge' if d >= 100 else 'mid'},e={'0' if e == 0 else 'tiny' if e < 0.01 else 'huge' if e >= 100 else 'mid'}")
    names_in = list(seqs)
    bump(out, "a2r_ref_position", "longest" if ref_choice == "longest" else ("first" if ref_choice == names_in[0] else "last" if ref_choice == names_in[-1] else "middle"))
    try:
        app = get_app("align_to_ref", ref_seq=ref_choice, **kw)
        res = app(coll)
    except Exception as ex:  # noqa: BLE001
        add_failure(out, "spec", "align_to_ref raised", inp, "alignment", type(ex).__name__, sig="a2r:raised")
        return
    if not hasattr(res, "to_dict") or type(res).__name__ == "NotCompleted":
        add_failure(out, "spec", "align_to_ref returned NotCompleted", inp, "alignment", str(res)[:200], sig="a2r:notcompleted")
        return
    rows = res.to_dict()
    if sorted(rows) != sorted(seqs):
        add_failure(out, "spec", "align_to_ref output does not have exactly the input sequences", inp, sorted(seqs), sorted(rows),
                    sig="a2r:names-differ")
        return
    if len({len(r) for r in rows.values()}) != 1:
        add_failure(out, "spec", "align_to_ref rows of unequal length", inp, "equal-length rows", rows, sig="a2r:unequal-length")
        return
    if any(rows[n].replace("-", "") != seqs[n] for n in seqs):
        add_failure(out, "spec", "align_to_ref rows do not degap to the inputs", inp, seqs, rows, sig="a2r:degap")
        return
    if ref_choice == "longest":
        ref_name = max((len(s), n) for n, s in seqs.items())[1]
    else:
        ref_name = ref_choice
    umat = mat if mat is not None else default_matrix(moltype)
    Sd = _sdict(moltype, umat)
    ref_seq = coll.get_seq(ref_name)
    names = [n for n in seqs if n != ref_name]
    pairs = []
    for n in names:
        pw = align.global_pairwise(ref_seq, coll.get_seq(n), Sd, d, e).to_dict()
        pairs.append((pw[ref_name], pw[n]))
    bad = False
    for k, n in enumerate(names):
        if strip_common(rows[ref_name], rows[n]) != pairs[k]:
            c = classify_p2m(seqs[ref_name], pairs, k)
            bump(out, "a2r_not_kept", c)
            add_failure(out, "spec", "align_to_ref does not keep a sequence's pairwise alignment with the reference",
                        dict(inp, seq=n, ref_name=ref_name, pairwise=[list(p) for p in pairs]), list(pairs[k]),
                        list(strip_common(rows[ref_name], rows[n])) + [dict(merged=rows)], sig=f"a2r:pairwise-not-kept:{c}")
            # the known merge defect explains the difference; any other difference is also judged under the user's model below
            bad = c == "injected-column-inside-other-gap"
            break
    # every projected pairwise alignment is optimal under the USER's matrix and gap costs (independent oracle)
    if not bad and getattr(ctx, "driver", None) is not None:
        reqs, who = [], []
        for n in names:
            uh = user_hmm(moltype, umat, d, e, seqs[ref_name], seqs[n])
            pr = strip_common(rows[ref_name], rows[n])
            path = rows_to_path(uh, *pr) if uh is not None else None
            if path is not None:
                reqs.append(("viterbi", hmm_request(uh, False, path, 0, 0)))
                who.append((n, pr))
        for (n, pr), ul in zip(who, ctx.driver.batch(reqs)):
            uopt = None if ul.get("score") is None else unrat(ul["score"])
            ups = None if ul.get("path_score") is None else unrat(ul["path_score"])
            bump(out, "a2r_projection_checked", "custom" if mat is not None else "default")
            if uopt is None or ups is None or float(uopt - ups) > 1e-7 * max(1.0, abs(float(uopt))):
                add_failure(out, "spec", "align_to_ref: the alignment of a sequence with the reference is not optimal under the user's score matrix and gap costs",
                            dict(inp, seq=n, ref_name=ref_name), dict(user_model_optimum=None if uopt is None else float(uopt), better_path=ul.get("path")),
                            dict(projected=list(pr), score=None if ups is None else float(ups)),
                            sig=f"a2r:projection-suboptimal-under-user-model:{moltype}:{'custom' if mat is not None else 'default'}")
                break
    if len(seqs) >= 3 and any("-" in r for r in rows.values()):
        out["nontrivial"].add(("a2r", str(sorted(seqs.items())), ref_choice, d, e, moltype))
    if len(out["samples"]) < 8 and len(seqs) >= 3 and any("-" in r for r in rows.values()) and not any(s.get("app") == "align_to_ref" for s in out["samples"]):
        out["samples"].append(dict(app="align_to_ref", seqs=seqs, ref=ref_name, rows=rows))


def check_sw_app(ctx, out, s1, s2, moltype, mat, d, e, names=("a", "b")):
    """the smith_waterman app with a custom (or default) matrix under every HIRSCHBERG_LIMIT: no exception / NotCompleted,
    identical result, rows are contiguous parts, sw_score = score of the returned local path under the USER's parameters,
    and no local path scores higher under them (Lean optimum)"""
    import numpy
    from cogent3 import get_app, make_unaligned_seqs
    from cogent3.align import pairwise

    inp = dict(s1=s1, s2=s2, moltype=moltype, mat=mat, d=d, e=e, names=list(names))
    cls = f"{moltype}:{'default' if mat is None else 'custom'}"
    out["evaluations"] += 1
    bump(out, "sw_app", cls)
    kw = dict(insertion_penalty=d, extension_penalty=e, moltype=moltype)
    if mat is not None:
        kw["score_matrix"] = _sdict(moltype, mat)
    results = {}
    old = pairwise.HIRSCHBERG_LIMIT
    for algo, lim in LIMITS.items():
        pairwise.HIRSCHBERG_LIMIT = lim
        try:
            with numpy.errstate(all="ignore"):
                coll = make_unaligned_seqs({names[0]: s1, names[1]: s2}, moltype=moltype)
                res = get_app("smith_waterman", **kw)(coll)
            if type(res).__name__ == "NotCompleted":
                results[algo] = dict(exc="NotCompleted: " + str(getattr(res, "message", ""))[:80])
            else:
                rows = res.to_dict()
                results[algo] = dict(rows=rows, score=float(res.info["align_params"]["sw_score"]))
        except Exception as ex:  # noqa: BLE001
            results[algo] = dict(exc=type(ex).__name__)
        finally:
            pairwise.HIRSCHBERG_LIMIT = old
    a = results["full"]
    for algo in ("hirschberg", "mixed"):
        b = results[algo]
        if a != b:
            add_failure(out, "spec", f"smith_waterman app depends on HIRSCHBERG_LIMIT={LIMITS[algo]}", dict(inp, algo=algo), a, b,
                        sig=f"sw:limit-differs:{algo}:{'exc' if ('exc' in a) != ('exc' in b) else 'result'}")
            return
    if "exc" in a:
        add_failure(out, "spec", "smith_waterman app raised / returned NotCompleted", inp, "alignment", a["exc"], sig=f"sw:raised:{cls}")
        return
    rows = a["rows"]
    if sorted(rows) != sorted(names):
        add_failure(out, "spec", "smith_waterman output does not have exactly the input sequences", inp, sorted(names), sorted(rows), sig="sw:names-differ")
        return
    r1, r2 = rows[names[0]], rows[names[1]]
    d1, d2 = r1.replace("-", ""), r2.replace("-", "")
    if len(r1) != len(r2) or d1 not in s1 or d2 not in s2 or not d1 or not d2:
        add_failure(out, "spec", "smith_waterman rows are not equal-length contiguous parts of the inputs", inp, [s1, s2], [r1, r2], sig="sw:degap")
        return
    umat = mat if mat is not None else default_matrix(moltype)
    uh = user_hmm(moltype, umat, d, e, s1, s2)
    if uh is None or getattr(ctx, "driver", None) is None:
        return
    path = rows_to_path(uh, r1, r2)
    if path is None:
        add_failure(out, "spec", "smith_waterman alignment has an all-gap column", inp, "none", [r1, r2], sig="sw:all-gap-column")
        return
    ul = ctx.driver.batch([("viterbi", hmm_request(uh, True, path, s1.find(d1), s2.find(d2)))])[0]
    uopt = None if ul.get("score") is None else unrat(ul["score"])
    ups = None if ul.get("path_score") is None else unrat(ul["path_score"])
    t = 1e-7 * max(1.0, abs(a["score"]))
    if ups is None or abs(float(ups) - a["score"]) > t:
        add_failure(out, "spec", "smith_waterman sw_score is not the score of the returned local alignment under the user's score matrix and gap costs",
                    inp, dict(user_model_path_score=None if ups is None else float(ups), user_model_optimum=None if uopt is None else float(uopt)),
                    dict(sw_score=a["score"], rows=[r1, r2]), sig=f"sw:score-ne-user-model:{cls}")
    elif uopt is not None and float(uopt - ups) > t:
        add_failure(out, "spec", "smith_waterman: a higher scoring local alignment exists under the user's score matrix and gap costs", inp,
                    dict(user_model_optimum=float(uopt), better_path=ul.get("path")), dict(returned_score=float(ups), rows=[r1, r2]),
                    sig=f"sw:suboptimal-under-user-model:{cls}")
    elif len(d1) >= 2:
        out["nontrivial"].add(("sw", s1, s2, cls, d, e))


def check_progressive(out, seqs, model, tree, params=None, ctx=None):
    from cogent3 import get_app, make_unaligned_seqs

    from . import c18_prog

    params = params or {}
    moltype = "protein" if model in ("protein", "JTT92", "WG01") else "dna"
    coll = make_unaligned_seqs(seqs, moltype=moltype)
    inp = dict(seqs=seqs, model=model, guide_tree=tree, params=params)
    out["evaluations"] += 1
    bump(out, "progressive_nseqs", len(seqs))
    bump(out, "progressive_model", model)
    bump(out, "progressive_params", ",".join(sorted(params)) or "default")
    nodes = []
    try:
        app = get_app("progressive_align", model, guide_tree=tree, **params)
        with c18_prog.capture_nodes() as nodes:
            res = app(coll)
    except Exception as ex:  # noqa: BLE001
        add_failure(out, "spec", "progressive_align raised", inp, "alignment", type(ex).__name__ + ": " + str(ex)[:100], sig=f"prog:raised:{type(ex).__name__}")
        return
    if type(res).__name__ == "NotCompleted":
        add_failure(out, "spec", "progressive_align returned NotCompleted", inp, "alignment", str(getattr(res, "message", res))[:160], sig="prog:notcompleted")
        return
    rows = res.to_dict()
    if sorted(rows) != sorted(seqs):
        add_failure(out, "spec", "progressive_align output does not have exactly the input sequences", inp, sorted(seqs), sorted(rows), sig="prog:names-differ")
        return
    if len({len(r) for r in rows.values()}) != 1:
        add_failure(out, "spec", "progressive_align rows of unequal length", inp, "equal-length rows", rows, sig="prog:unequal-length")
        return
    if any(rows[n].replace("-", "") != seqs[n] for n in seqs):
        add_failure(out, "spec", "progressive_align rows do not degap to the inputs", inp, seqs, rows, sig="prog:degap")
        return
    # every column-merge step the aligner performed (one per internal node of the guide tree; also the pairwise steps
    # of a distance-based guide tree): sub-alignments kept, completed positions complete, model tie
    roots = [nd for nd in nodes if "out" in nd and len(nd["out"]) == len(seqs)]
    if not roots:
        add_failure(out, "corr", "no column-merge step covering all sequences was observed", inp, "a root step", [len(nd.get("out", [])) for nd in nodes], confirmed=False)
    elif dict(roots[-1]["out"]) != rows:
        add_failure(out, "spec", "progressive_align returns rows that differ from the rows of its root merge step", inp, dict(roots[-1]["out"]), rows, sig="prog:result-ne-root-step")
        return
    bump(out, "progressive_steps", min(len(nodes), 12))
    if ctx is not None and nodes:
        c18_prog.check_nodes(ctx, out, nodes, inp, "prog")
    if len({len(s) for s in seqs.values()}) > 1:
        out["nontrivial"].add(("prog", str(sorted(seqs.items())), model, str(params)))
    if not any(s.get("app") == "progressive_align" for s in out["samples"]) and any("-" in r for r in rows.values()):
        out["samples"].append(dict(app="progressive_align", seqs=seqs, model=model, rows=rows))


def _caterpillar(names, rng):
    names = [f"'{n}'" if not n.isalnum() else n for n in names]  # newick: unquoted '_' means a blank
    rng.shuffle(names)
    t = f"({names[0]}:0.1,{names[1]}:0.2)"
    for n in names[2:-1]:
        t = f"({t}:0.05,{n}:0.15)"
    return f"({t[1:-1]},{names[-1]}:0.3);" if len(names) > 2 else t + ";"


# --------------------------------------------------------------------------
# histories: one mutable scoring dict / the same sequence objects / one app instance reused across calls
# --------------------------------------------------------------------------
def run_history(ctx, out, hist):
    """hist = dict(moltype, pool=[seq strings], mat0, steps=[dict(edits=[[i,j,v],..], a, b, local, limit, d, e)]).
    ONE scoring dict object and ONE set of sequence objects live through all steps; the dict is edited IN PLACE before a
    step.  Every call is judged on its own: against a fresh call (fresh dict copy, fresh sequence objects) and against
    the user-model oracle built from the dict's CURRENT content."""
    import numpy
    from cogent3.align import align, pairwise

    moltype = hist["moltype"]
    letters = DNA_ORDER(moltype)
    mat = [list(r) for r in hist["mat0"]]
    S = _sdict(moltype, mat)  # the one shared, mutable object
    pool = [_mk(t, f"p{k}", moltype) for k, t in enumerate(hist["pool"])]
    reqs, meta = [], []
    old = pairwise.HIRSCHBERG_LIMIT
    try:
        for k, st in enumerate(hist["steps"]):
            for i, j, v in st["edits"]:
                mat[i][j] = mat[j][i] = v
                S[letters[i], letters[j]] = v
                S[letters[j], letters[i]] = v
            a, b = pool[st["a"]], pool[st["b"]]
            s1, s2 = hist["pool"][st["a"]], hist["pool"][st["b"]]
            mode = "local" if st["local"] else "global"
            inp = dict(history=hist, step=k)
            out["evaluations"] += 1
            bump(out, "history_step", f"{mode}:limit={st['limit']}:{'edited' if st['edits'] else 'same-dict'}")
            pairwise.HIRSCHBERG_LIMIT = st["limit"]
            try:
                with numpy.errstate(all="ignore"):
                    aln, score = align.classic_align_pairwise(a, b, S, st["d"], st["e"], st["local"], return_score=True)
                rows = aln.to_dict()
                got = dict(rows=[rows[a.name], rows[b.name]], score=float(score))
            except Exception as ex:  # noqa: BLE001
                got = dict(exc=type(ex).__name__)
            pairwise.HIRSCHBERG_LIMIT = old
            fresh = run_pairwise(s1, s2, moltype, [list(r) for r in mat], st["d"], st["e"], st["local"], 10**8)
            fresh = dict(exc=fresh["exc"]) if "exc" in fresh else dict(rows=fresh["rows"], score=fresh["score"])
            if ("exc" in got) != ("exc" in fresh) or ("exc" not in got and (
                    abs(got["score"] - fresh["score"]) > _tol(fresh["score"]) or (st["local"] and got["rows"] != fresh["rows"]))):
                add_failure(out, "spec", "a pairwise call depends on EARLIER calls (shared scoring dict edited in place / reused objects / changed "
                            "HIRSCHBERG_LIMIT): it differs from the same call made with fresh objects", inp, fresh, got,
                            sig=f"pw-history:differs-from-fresh-call:{mode}")
                continue
            if "exc" in got:
                continue
            uh = user_hmm(moltype, mat, st["d"], st["e"], s1, s2)
            path = rows_to_path(uh, *got["rows"]) if uh is not None else None
            if path is not None and getattr(ctx, "driver", None) is not None:
                d1, d2 = got["rows"][0].replace("-", ""), got["rows"][1].replace("-", "")
                i0, j0 = (s1.find(d1), s2.find(d2)) if st["local"] else (0, 0)
                if i0 >= 0 and j0 >= 0:
                    reqs.append(("viterbi", hmm_request(uh, st["local"], path, i0, j0)))
                    meta.append((inp, mode, got))
    finally:
        pairwise.HIRSCHBERG_LIMIT = old
    for (inp, mode, got), ul in zip(meta, ctx.driver.batch(reqs) if reqs else []):
        uopt = None if ul.get("score") is None else unrat(ul["score"])
        ups = None if ul.get("path_score") is None else unrat(ul["path_score"])
        t = 1e-7 * max(1.0, abs(got["score"]))
        if ups is None or abs(float(ups) - got["score"]) > t:
            add_failure(out, "spec", "history: reported score is not the score of the returned alignment under the scoring dict's CURRENT content",
                        inp, dict(user_model_path_score=None if ups is None else float(ups), user_model_optimum=None if uopt is None else float(uopt)),
                        got, sig=f"pw-history:score-ne-user-model:{mode}")
        elif uopt is not None and float(uopt - ups) > t:
            add_failure(out, "spec", "history: a higher scoring path exists under the scoring dict's CURRENT content", inp,
                        dict(user_model_optimum=float(uopt)), dict(got, path_score=float(ups)), sig=f"pw-history:suboptimal-under-user-model:{mode}")
        else:
            out["nontrivial"].add(("history", str(inp["history"]["pool"]), inp["step"], str(inp["history"]["steps"][inp["step"]])[:200]))


def gen_history(rng):
    moltype = "dna" if rng.random() < 0.7 else "protein"
    letters = DNA if moltype == "dna" else PROT
    n = len(DNA_ORDER(moltype))
    base = _rand_seq(rng, letters, rng.randint(4, 14))
    pool = [base, _mutate(rng, base, letters)[:16], _rand_seq(rng, letters, rng.randint(3, 12))]
    mat0 = gen_matrix(rng, moltype, symmetric=True)[1]
    steps = []
    for k in range(rng.randint(3, 5)):
        edits = []
        if k and rng.random() < 0.7:
            for _ in range(rng.randint(1, n)):
                i, j = rng.randrange(n), rng.randrange(n)
                edits.append([i, j, rng.randint(6, 12) if i == j else rng.randint(-9, 4)])
        a, b = rng.sample(range(3), 2) if rng.random() < 0.6 or not steps else (steps[-1]["a"], steps[-1]["b"])
        d, e = gen_gap(rng, edge=0.2) if (rng.random() < 0.4 or not steps) else (steps[-1]["d"], steps[-1]["e"])
        steps.append(dict(edits=edits, a=a, b=b, local=rng.random() < 0.4, limit=rng.choice([10**8, 10**8, 0, 150]), d=d, e=e))
    return dict(moltype=moltype, pool=pool, mat0=mat0, steps=steps)


def app_history_checks(ctx, out, rng, n):
    """ONE app instance called repeatedly with different inputs (and a changed HIRSCHBERG_LIMIT in between): every result must
    equal that of a fresh instance on the same input"""
    from cogent3 import get_app, make_unaligned_seqs
    from cogent3.align import pairwise

    def norm(res):
        if type(res).__name__ == "NotCompleted":
            return dict(notcompleted=str(getattr(res, "message", ""))[-120:])
        d = dict(rows=res.to_dict())
        if "align_params" in getattr(res, "info", {}) and "sw_score" in res.info["align_params"]:
            d["sw_score"] = round(float(res.info["align_params"]["sw_score"]), 9)
        return d

    old = pairwise.HIRSCHBERG_LIMIT
    for _ in range(n):
        kind = rng.choice(["align_to_ref", "align_to_ref", "smith_waterman", "progressive_align"])
        d, e = gen_gap(rng, edge=0.3)
        if kind == "align_to_ref":
            # collections of one history either have unrelated names or (half of the histories) the SAME names with
            # re-drawn sequences, so that state resolved from an earlier collection (a reference name, a length
            # ranking) still designates a member of the later ones; the reference is 'longest' or one of the shared names
            inputs = []
            shared_names = gen_names(rng, rng.randint(3, 5)) if rng.random() < 0.5 else None
            for _k in range(3):
                if shared_names:
                    nm = list(shared_names)
                    rng.shuffle(nm)
                    inputs.append(gen_seq_family(rng, len(nm), 12, DNA, nm))
                else:
                    kk = rng.randint(3, 5)
                    inputs.append(gen_seq_family(rng, kk, 12, DNA, gen_names(rng, kk)))
            ref = rng.choice(shared_names) if shared_names and rng.random() < 0.3 else "longest"
            bump(out, "app_history_a2r", ("shared-names" if shared_names else "unrelated-names") + ":" + ("longest" if ref == "longest" else "named"))
            mk = lambda: get_app("align_to_ref", ref_seq=ref, insertion_penalty=d, extension_penalty=e)  # noqa: E731
        elif kind == "smith_waterman":
            mk = lambda: get_app("smith_waterman", insertion_penalty=d, extension_penalty=e)  # noqa: E731
            inputs = [dict(zip(("a", "b"), gen_pair(rng, DNA, 16)[1:])) for _ in range(3)]
        else:
            # unique_guides=True: by default the guide tree of the FIRST call is documented to be reused for later calls
            mk = lambda: get_app("progressive_align", "HKY85", unique_guides=True)  # noqa: E731
            inputs = [gen_seq_family(rng, rng.randint(3, 4), 10, DNA) for _ in range(3)]
        inputs = [{k: v for k, v in i.items()} for i in inputs if len(i) >= 2]
        try:
            shared = mk()
            hist = []
            for k, seqs in enumerate(inputs):
                lim = rng.choice([10**8, 0, 150])
                out["evaluations"] += 1
                bump(out, "app_history", kind)
                pairwise.HIRSCHBERG_LIMIT = lim
                got = norm(shared(make_unaligned_seqs(seqs, moltype="dna")))
                # same limit for the fresh instance: equally good alignments may differ between the two code paths (ties)
                want = norm(mk()(make_unaligned_seqs(seqs, moltype="dna")))
                pairwise.HIRSCHBERG_LIMIT = old
                hist.append(dict(seqs=seqs, limit=lim))
                if got != want:
                    add_failure(out, "spec", f"{kind}: one app instance called repeatedly gives a different result than a fresh instance on the same input",
                                dict(app=kind, d=d, e=e, calls=list(hist), **(dict(ref=ref) if kind == "align_to_ref" else {})), want, got, sig=f"app-history:differs-from-fresh-instance:{kind}")
                    break
            else:
                out["nontrivial"].add(("app-history", kind, str(inputs)[:300]))
        except Exception as ex:  # noqa: BLE001
            add_failure(out, "spec", f"{kind}: repeated calls of one app instance raised", dict(app=kind, d=d, e=e, inputs=inputs), "results", type(ex).__name__ + ": " + str(ex)[:100],
                        sig=f"app-history:raised:{kind}")
        finally:
            pairwise.HIRSCHBERG_LIMIT = old


def replay_app_history(inp):
    """re-runs a recorded history of calls of ONE app instance; True if some call still differs from a fresh instance / raises"""
    from cogent3 import get_app, make_unaligned_seqs
    from cogent3.align import pairwise

    kind = inp["app"]
    if kind == "align_to_ref":
        mk = lambda: get_app("align_to_ref", ref_seq=inp.get("ref", "longest"), insertion_penalty=inp["d"], extension_penalty=inp["e"])  # noqa: E731
    elif kind == "smith_waterman":
        mk = lambda: get_app("smith_waterman", insertion_penalty=inp["d"], extension_penalty=inp["e"])  # noqa: E731
    else:
        mk = lambda: get_app("progressive_align", "HKY85", unique_guides=True)  # noqa: E731

    def norm(res):
        if type(res).__name__ == "NotCompleted":
            return dict(notcompleted=str(getattr(res, "message", ""))[-120:])
        d = dict(rows=res.to_dict())
        if "align_params" in getattr(res, "info", {}) and "sw_score" in res.info["align_params"]:
            d["sw_score"] = round(float(res.info["align_params"]["sw_score"]), 9)
        return d

    old = pairwise.HIRSCHBERG_LIMIT
    calls = inp.get("calls") or [dict(seqs=s, limit=old) for s in inp.get("inputs", [])]
    try:
        shared = mk()
        for c in calls:
            pairwise.HIRSCHBERG_LIMIT = c.get("limit", old)
            if norm(shared(make_unaligned_seqs(c["seqs"], moltype="dna"))) != norm(mk()(make_unaligned_seqs(c["seqs"], moltype="dna"))):
                return True
    except Exception:  # noqa: BLE001
        return True
    finally:
        pairwise.HIRSCHBERG_LIMIT = old
    return False


# --------------------------------------------------------------------------
# spec_check: the real code against the property
# --------------------------------------------------------------------------
def spec_check(ctx, budget):
    out = new_outcome(
        "real aligners vs the property: global/local pairwise on DNA+protein, lengths 1-30 (thorough: -60), random/structured matrices, gap grids, "
        "each global input through full DP and Hirschberg (HIRSCHBERG_LIMIT toggled): equal-length rows, degap to inputs, reported score = exact "
        "recomputed score of returned path, no higher-scoring path (Lean optimum); pairwise_to_multiple on generated pairwise alignments, "
        "align_to_ref and progressive_align apps on 3-6 sequences; non-trivial = lengths>=2 with gaps or mismatches / >=2 distinct reference gap layouts"
    )
    rng = ctx.subrng(f"spec{budget}")
    from cogent3.align import align

    from . import c18_prog

    if getattr(ctx, "driver", None) is not None:
        maxlen = 30 if not ctx.thorough else 60
        check_pair_cases(ctx, out, gen_pair_cases(rng, 150 * budget * (3 if ctx.thorough else 1), maxlen), kind_for_model="corr")
        # length-0 stream: informational
        for s1, s2, local in [("", "ACG", False), ("ACG", "", True), ("", "", False)]:
            r = run_pairwise(s1, s2, "dna", [[1 if a == b else -1 for b in DNA] for a in DNA], 5, 1, local, 10**8)
            bump(out, "empty_input", r.get("exc", "returned"))
    else:
        ctx.notes.append("driver unavailable: pairwise optimality checks skipped")
    # exhaustive small p2m domain: ref of length 2, two pairs with <=1 gap run each is covered by the random stream; plus seeded random
    p2m_checks(ctx, out, rng, 1000 * budget)
    # histories: shared mutable scoring dict, reused sequence objects, changing HIRSCHBERG_LIMIT, reused app instances
    if getattr(ctx, "driver", None) is not None:
        for _ in range(40 * budget):
            run_history(ctx, out, gen_history(rng))
    app_history_checks(ctx, out, rng, 12 * budget)
    # apps
    LET = {"dna": DNA, "rna": "ACGU", "protein": PROT}
    for t in range(40 * budget):
        k = rng.randint(3, 6)
        moltype = "dna" if rng.random() < 0.6 else rng.choice(["rna", "protein"])
        seqs = gen_seq_family(rng, k, 14, LET[moltype], gen_names(rng, k))
        mat = None if rng.random() < 0.4 else gen_matrix(rng, moltype, symmetric=True)[1]
        d, e = rng.choice([(20, 2), (10, 2), (5, 1), (2, 1)]) if rng.random() < 0.5 else rng.choice(EDGE_PENALTIES)
        names = list(seqs)
        ref = ["longest", names[0], names[-1], names[len(names) // 2]][t % 4]
        check_align_to_ref(ctx, out, seqs, ref, mat, d, e, moltype)
    for t in range(40 * budget):
        moltype = ["dna", "protein", "rna"][t % 3]
        tag, s1, s2 = gen_pair(rng, LET[moltype], 20)
        mat = None if rng.random() < 0.25 else gen_matrix(rng, moltype, symmetric=True)[1]
        d, e = gen_gap(rng, edge=0.4)
        check_sw_app(ctx, out, s1, s2, moltype, mat, d, e, names=rng.choice([("a", "b"), ("seq1", "seq10"), ("x1", "x")]))
    for t in range(10 * budget):
        k = rng.randint(3, 6)
        seqs = gen_seq_family(rng, k, 14, DNA, gen_names(rng, k))
        r = rng.random()
        tree = None if r < 0.35 else (_caterpillar(seqs, rng) if r < 0.6 else c18_prog.random_tree_newick(list(seqs), rng))
        params = {}
        if rng.random() < 0.6:
            params["indel_rate"] = rng.choice([1e-10, 1e-3, 0.05, 0.05, 0.2])
        if rng.random() < 0.3:
            params["indel_length"] = rng.choice([0.1, 0.3, 0.6])
        if rng.random() < 0.2:
            params["distance"] = "paralinear"
        check_progressive(out, seqs, rng.choice(["nucleotide", "HKY85", "F81", "TN93"]), tree, params, ctx=ctx)
    if budget >= 1:
        pseqs = gen_seq_family(rng, 3, 10, PROT, gen_names(rng, 3))
        check_progressive(out, pseqs, "protein", None, ctx=ctx)
    # the column-merge code directly: random guide trees x random DP outcomes (incl. jumped-over columns)
    c18_prog.synthetic_checks(ctx, out, rng, 150 * budget, model=False)
    out["dist"].pop("_prog_known_kept", None)
    return out


# --------------------------------------------------------------------------
# findings
# --------------------------------------------------------------------------
def match_finding(f, k):
    if f.get("sig") not in k.get("sigs", []):
        return False
    r = k.get("restrict") or {}
    inp = f.get("input") or {}
    if "algo" in r and inp.get("algo") != r["algo"]:
        return False
    if "local" in r and bool(inp.get("local")) != r["local"]:
        return False
    if "class" in r and not f["sig"].endswith(":" + r["class"]):
        return False
    if "asymmetric" in r and bool(inp.get("asymmetric")) != r["asymmetric"]:
        return False
    return True


def check_witness(ctx, w):
    out = new_outcome()
    if w.get("kind") == "p2m":
        check_p2m(out, w["ref"], [tuple(p) for p in w["pairs"]], True, source="witness")
    elif w.get("kind") == "a2r":
        check_align_to_ref(ctx, out, w["seqs"], w["ref"], w.get("mat"), w["d"], w["e"], w.get("moltype", "dna"))
    elif w.get("kind") == "pw" and getattr(ctx, "driver", None) is not None:
        check_pair_cases(ctx, out, [dict(w, tag="witness")])
    elif w.get("kind") == "progmerge":
        from . import c18_prog

        nodes = []
        c18_prog.replay_tree(w["tree"], nodes)
        c18_prog.check_nodes(ctx, out, nodes, dict(tree=w["tree"]), "progmerge", model=False)
        if not any(f["kind"] == "spec" for f in out["failures"]) and w.get("app"):
            a = w["app"]
            check_progressive(out, a["seqs"], a["model"], a.get("guide_tree"), a.get("params"), ctx=ctx)
    fs = [f for f in out["failures"] if f["kind"] == "spec"]
    return fs[0] if fs else None


def _drv():
    from .common import Driver, lake_build

    lake_build([DRIVER])
    return Driver(DRIVER)


def replay(ctx, data):
    f = data.get("failing_input") or {}
    inp = f.get("input") or {}
    out = new_outcome()
    sig = f.get("sig", "")
    if sig.startswith("p2m:"):
        check_p2m(out, inp["ref"], [tuple(p) for p in inp["pairs"]], inp.get("layout") == "plausible")
    elif sig.startswith("a2r:"):
        ctx.driver = _drv()
        check_align_to_ref(ctx, out, inp["seqs"], inp["ref"], inp.get("mat"), inp["d"], inp["e"], inp.get("moltype", "dna"))
    elif sig.startswith("app-history:"):
        return replay_app_history(inp)
    elif sig.startswith("pw-history:"):
        ctx.driver = _drv()
        run_history(ctx, out, inp["history"])
    elif sig.startswith("sw:"):
        ctx.driver = _drv()
        check_sw_app(ctx, out, inp["s1"], inp["s2"], inp["moltype"], inp.get("mat"), inp["d"], inp["e"], tuple(inp.get("names", ("a", "b"))))
    elif sig.startswith("prog:"):
        check_progressive(out, inp["seqs"], inp["model"], inp.get("guide_tree"), inp.get("params"), ctx=ctx)
    elif sig.startswith("progmerge:"):
        from . import c18_prog

        nodes = []
        try:
            c18_prog.replay_tree(inp["tree"], nodes)
        except Exception:  # noqa: BLE001
            return sig.startswith("progmerge:raised")
        c18_prog.check_nodes(ctx, out, nodes, dict(tree=inp["tree"]), "progmerge", model=False)
    elif sig.startswith("pw"):
        ctx.driver = _drv()
        case = dict(inp, tag="replay")
        case.setdefault("matname", "replay")
        check_pair_cases(ctx, out, [case])
    else:
        return False
    return any(x["kind"] == "spec" for x in out["failures"])
