"""C10 wave 2: the deserialiser registry — translator step and the tie of the translated tables to the live package."""
from __future__ import annotations

import copy
import importlib
import json

from .common import LEAN, SRC, VERIF, add_failure, bump

GEN_FILE = LEAN / "CogentModel" / "Gen" / "C10Registry.lean"
GEN_GETCLASS = LEAN / "CogentModel" / "Gen" / "C10GetClass.lean"
GEN_RICH = LEAN / "CogentModel" / "Gen" / "C10Rich.lean"


def generate(ctx):
    import sys

    if str(VERIF) not in sys.path:
        sys.path.insert(0, str(VERIF))
    from translator import c10_registry2lean as T

    try:
        lean, info, problems = T.translate(SRC)
    except (T.TranslationError, SyntaxError) as e:
        return [f"c10_registry2lean: {e}"]
    ctx.notes.append(f"c10_registry2lean: {json.dumps(info)}")
    if lean is not None and T.write_if_changed(GEN_FILE, lean):
        ctx.notes.append("Gen/C10Registry.lean was rewritten (registry / dispatch loop / emitting classes differ from the last generated text)")
    out = [f"c10_registry2lean: {p}" for p in problems]
    try:
        gc, gcp = T.translate_get_class(SRC)
    except (T.TranslationError, SyntaxError, OSError) as e:
        gc, gcp = None, [str(e)]
    if gc is not None and T.write_if_changed(GEN_GETCLASS, gc):
        ctx.notes.append("Gen/C10GetClass.lean was rewritten (_get_class differs from the last generated text)")
    out += [f"c10_registry2lean: {p}" for p in gcp]
    # the integer / decision part of the three view exporters
    from translator import c10_rich2lean as R

    try:
        lean, info, problems = R.translate(SRC)
    except (R.TranslationError, SyntaxError, OSError) as e:
        return out + [f"c10_rich2lean: {e}"]
    ctx.notes.append(f"c10_rich2lean: {json.dumps(info)}")
    if lean is not None and R.write_if_changed(GEN_RICH, lean):
        ctx.notes.append("Gen/C10Rich.lean was rewritten (exporter source differs from the last generated text)")
    return out + [f"c10_rich2lean: {p}" for p in problems]


def _real_pick(deserialise, keys, type_str):
    """the key the REAL deserialise_object selects for a dict {'type': type_str}: the real loop runs over a registry with the real
    keys in the real order whose functions are recording stubs"""
    from unittest import mock

    stubs = {k: (lambda data, k=k: ("picked", k)) for k in keys}
    with mock.patch.dict(deserialise._deserialise_func_map, stubs, clear=True):
        try:
            r = deserialise.deserialise_object({"type": type_str})
        except NotImplementedError:
            return None
    return r[1] if isinstance(r, tuple) and r and r[0] == "picked" else ("returned", repr(r)[:80])


def _probe_types(rng, keys, emitted):
    out = list(emitted) + list(keys)
    pool = list(emitted) + list(keys)
    alphabet = "abcdefgxyz._ST"
    for _ in range(400):
        kind = rng.randrange(7)
        a = rng.choice(pool)
        if kind == 0:  # proper prefix / suffix of a key or type string
            i = rng.randrange(1, len(a))
            out.append(a[:i] if rng.random() < 0.5 else a[i:])
        elif kind == 1:  # something around it
            out.append("".join(rng.choice(alphabet) for _ in range(rng.randrange(0, 4))) + a + rng.choice(["", ".X", "2", ".sub.Cls"]))
        elif kind == 2:  # one character changed / dropped
            i = rng.randrange(len(a))
            out.append(a[:i] + rng.choice(["", "_", "x"]) + a[i + 1:])
        elif kind == 3:  # two keys in one string, either order
            b = rng.choice(keys)
            out.append(a + "|" + b if rng.random() < 0.5 else b + "|" + a)
        elif kind == 4:
            out.append("".join(rng.choice(alphabet) for _ in range(rng.randrange(0, 12))))
        elif kind == 5:  # case changed
            out.append(a.upper() if rng.random() < 0.5 else a.lower())
        else:  # a sibling module spelling (new_ prefix added / removed)
            out.append(a.replace("core.new_", "core.") if "core.new_" in a else a.replace("core.", "core.new_"))
    return out


def registry_corr(ctx, out):
    """translated registry / dispatch loop / emitted type strings vs the live package"""
    from cogent3.util import deserialise
    from cogent3.util.misc import get_object_provenance

    from . import c10 as C

    rng = ctx.subrng("registry")
    info = ctx.driver.batch([("registry", {})])[0]
    table, emitted = info["table"], info["emitted"]
    real = C.registry()
    real_keys = list(real)
    # 1. the registry itself: same keys, and per registering module the same sequence of (key, function)
    out["evaluations"] += 1
    bump(out, "path", "registry_table")
    if sorted(real_keys) != sorted(e["key"] for e in table):
        add_failure(out, "corr", "translated registry keys differ from the live registry", {}, sorted(e["key"] for e in table), sorted(real_keys), confirmed=False)
    for m in sorted({e["module"] for e in table} | {f.__module__ for f in real.values()}):
        tr = [(e["key"], e["func"]) for e in table if e["module"] == m]
        rl = [(k, f.__name__) for k, f in real.items() if f.__module__ == m]
        out["evaluations"] += 1
        if tr != rl:
            add_failure(out, "corr", f"registrations of module {m}: translated sequence differs from the live registry", dict(module=m), tr, rl, confirmed=False)
        else:
            out["nontrivial"].add(("registry_module", m))
    # 2. emitting classes: each exists and has that provenance; every live subclass of an emitting class is known to the translator
    known = {e["type"] for e in emitted}
    classes = []
    for e in emitted:
        out["evaluations"] += 1
        bump(out, "path", "registry_emitter")
        mod, _, cname = e["cls"].rpartition(".")
        try:
            cls = getattr(importlib.import_module(mod), cname)
        except Exception as ex:
            add_failure(out, "corr", f"emitting class {e['cls']} of the translation cannot be loaded", dict(cls=e["cls"]), "class", type(ex).__name__, confirmed=False)
            continue
        if e["kind"] == "self":
            classes.append(cls)
            if get_object_provenance(cls) != e["type"] or not callable(getattr(cls, "to_rich_dict", None)):
                add_failure(out, "corr", "translated type string of a class differs from get_object_provenance", dict(cls=e["cls"]), e["type"], get_object_provenance(cls), confirmed=False)
    seen, stack = set(), list(classes)
    while stack:
        c = stack.pop()
        if c in seen:
            continue
        seen.add(c)
        stack.extend(c.__subclasses__())
    for c in sorted(seen, key=lambda c: (c.__module__, c.__name__)):
        if c.__module__.startswith("cogent3") and get_object_provenance(c) not in known:
            add_failure(out, "corr", "a live subclass of an emitting class is missing from the translated list", dict(cls=get_object_provenance(c)), "listed", "missing", confirmed=False)
    # 3. the dispatch loop: real loop (real key order, stub functions) vs the translated loop over the same key order, on every
    #    emitted string, every key and perturbed strings; for emitted strings also vs the translated table in ITS module order
    types = _probe_types(rng, real_keys, [e["type"] for e in emitted])
    model = ctx.driver.batch([("dispatch", dict(keys=real_keys, types=types))])[0]
    by_table = {e["type"]: e["key"] for e in emitted}
    for t, mk in zip(types, model):
        rk = _real_pick(deserialise, real_keys, t)
        out["evaluations"] += 1
        bump(out, "path", "registry_dispatch")
        bump(out, "registry_dispatch", "none" if rk is None else ("exact-key" if rk == t else "substring"))
        if rk != mk:
            add_failure(out, "corr", "translated dispatch loop selects another registration than deserialise_object", dict(type=t, keys=real_keys), mk, rk, confirmed=False)
        elif t in by_table and by_table[t] != rk:
            add_failure(out, "corr", "dispatch over the translated table (module-block order) differs from the live registry order", dict(type=t), by_table[t], rk, confirmed=False)
        elif rk is not None and rk != t:
            out["nontrivial"].add(("registry_dispatch", t))
    # 4. live objects of the oracle's families: the "type" they write is one of the translated strings, and dispatch on it is the
    #    function the live registry holds for the selected key
    from . import c10_hist as H

    for fam in sorted(H.FAMILIES):
        if fam in ("model", "lf", "result"):  # expensive to build; their classes are covered by 2. and 3.
            continue
        gen = H.FAMILIES[fam][0]
        for _ in range(2):
            try:
                x = H.build(copy.deepcopy(gen(rng)), ctx.scratch)
                d = x.to_rich_dict()
            except Exception:
                bump(out, "registry_instance", "skipped")
                continue
            t = d.get("type")
            out["evaluations"] += 1
            bump(out, "path", "registry_instance")
            bump(out, "registry_instance", str(by_table.get(t)))
            if t not in known:
                add_failure(out, "corr", "a live object writes a type string the translator did not derive", dict(family=fam), "one of the translated strings", t, confirmed=False)


def _canon(d):
    return json.dumps(d, sort_keys=True, default=str)


def coll_corr(ctx, out):
    """collection level rich dict = per-row rich dicts (Model/CollRich.seqsDict) on real old-style collections / alignments after
    their histories: dict keys in row order, each entry = that row's own to_rich_dict(), and the deserialised collection has the
    same names in the same order"""
    from cogent3.util.deserialise import deserialise_object

    from . import c10_hist as H

    rng = ctx.subrng("collrich")
    cases = []
    for _ in range(ctx.budget(40, 600)):
        rec = H.gen_coll(rng)
        try:
            c = H.build(copy.deepcopy(rec), ctx.scratch)
            rows = list(c.seqs)
            names = [s.name for s in rows]
            rd = c.to_rich_dict()
            per_row = [_canon(s.to_rich_dict()) for s in rows]
            back = deserialise_object(json.loads(json.dumps(rd)))
            real = dict(keys=list(rd["seqs"]), entries=[_canon(v) for v in rd["seqs"].values()], back_names=list(back.names))
        except Exception as e:
            bump(out, "coll_rich", f"skipped:{type(e).__name__}")
            continue
        cases.append((rec, names, per_row, real))
    model = ctx.driver.batch([("coll_dict", dict(names=names)) for _, names, _, _ in cases])
    for (rec, names, per_row, real), m in zip(cases, model):
        out["evaluations"] += 1
        bump(out, "path", "coll_dict")
        bump(out, "coll_rich", f"{rec['kind']}:{len(names)} rows:{'history' if rec.get('ops') else 'fresh'}")
        want = dict(keys=m["keys"], entries=[per_row[i] for i in m["rows"]], back_names=[names[i] for i in m["rows"]])
        if want != real:
            fld = next(k for k in want if want[k] != real[k])
            add_failure(out, "corr", f"collection rich dict differs from the per-row model at {fld}", dict(recipe=rec), want[fld] if fld != "entries" else "(per-row dicts)", real[fld] if fld != "entries" else "(differs)", confirmed=False)
        elif len(names) > 1:
            out["nontrivial"].add(("coll_dict", _canon(rec)))


def get_class_corr(ctx, out):
    """translated `_get_class` vs the real one: the real function runs with `import_module` replaced by a recorder, so the split
    (module string, attribute name) is observed on ANY string, not only on importable ones"""
    from unittest import mock

    from cogent3.util import deserialise

    rng = ctx.subrng("getclass")
    info = ctx.driver.batch([("registry", {})])[0]
    types = [e["type"] for e in info["emitted"]]
    parts = ["cogent3", "core", "app", "x", "NotCompleted", "OldNotCompletedResult", "Table", "a_b", "", "Seq2"]
    for _ in range(250):
        k = rng.randrange(0, 5)
        types.append(rng.choice(["", "."]) * (rng.random() < 0.15) + ".".join(rng.choice(parts) for _ in range(k)) + rng.choice(["", "", ".", ".NotCompletedX"]))

    class Rec:
        def __init__(self, name):
            self._n = name

        def __getattr__(self, a):
            return (object.__getattribute__(self, "_n"), a)

    model = ctx.driver.batch([("get_class", dict(types=types))])[0]
    for t, m in zip(types, model):
        with mock.patch.object(deserialise, "import_module", lambda name: Rec(name)):
            try:
                real = list(deserialise._get_class(t))
            except AssertionError:
                real = {"err": "AssertionError"}
            except Exception as e:
                real = {"err": type(e).__name__}
        out["evaluations"] += 1
        bump(out, "path", "get_class")
        bump(out, "get_class", "assert" if isinstance(real, dict) else ("NotCompleted" if real[1] == "NotCompleted" and not t.endswith(".NotCompleted") else "split"))
        if real != m:
            add_failure(out, "corr", "translated _get_class differs from the implementation", dict(provenance=t), m, real, confirmed=False)
        elif t.count(".") >= 1:
            out["nontrivial"].add(("get_class", t))
